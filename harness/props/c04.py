"""C04 — Names in expressions resolve to the object Python scoping binds them to.

(T) harness/translate/c04_variant.py reads from the source under test which form Object.resolve and the expression builders have (as they
    stand / with the prepared repairs of C04-F1, F3, F4); the three switches go to the model with every query (the theorems cover all
    combinations).  Fail closed; while the source cannot be read nothing is excused.
(C) model resolve_v / canonical_v / attribute chaining  vs  Object.resolve, ExprName.canonical_path, ExprAttribute.canonical_path on the scope
    objects of generated packages loaded with griffe.load
    model g_names (builders + walk, every identifier of a stored expression: lambda parameters and defaults, comprehension targets, first
    iterable, nested function scopes, string annotations)  vs  the canonical_path of every ExprName of the stored expression, positionally
    model g_members (fold of visit_import / visit_importfrom / set_member over the binding statements READ FROM THE SOURCE TEXT)  vs  the
    member tables of the live tree: the frame chain is abstracted twice (live tree, source text) and both abstractions must coincide, as
    must the two abstractions of every expression (Griffe's Expr tree, ast)
    model relative_to_absolute  vs  griffe's relative_to_absolute on hand-built Module chains (exhaustive small)
    model visit_import / visit_importfrom  vs  alias members + `imports` the visitor recorded for every generated import
(O) model py_lookup  vs  CPython executing the package: a probe next to each site evaluates the name in the real scope (bind-once stream)
    model p_names / p_class  vs  the load instruction the CPython compiler emits for each identifier (LOAD_NAME / LOAD_GLOBAL / LOAD_FAST,
    LOAD_DEREF / LOAD_FROM_DICT_OR_DEREF, read from the compiled twin source by position) + the final namespaces of the executed scopes:
    the flow-insensitive reading, used for every site of every stream, the only one in the re-binding stream
    model p_members  vs  CPython's final namespace of every module / class, name by name (last binding wins)
    model py_lookup_decl (global / nonlocal)  vs  instruction + executed namespaces on single modules with declarations
    model cpython_from_target  vs  importlib.util.resolve_name; model cpython_import / cpython_importfrom  vs  the object really bound
direct: the path Griffe returns for each identifier, evaluated as a dotted path by CPython (import the longest module prefix, getattr the
    rest), is the very object CPython binds the identifier to (probe / instruction + namespaces); identifiers CPython does not bind to an
    object with a path come back unchanged; Griffe's member of each name is the object in CPython's final namespace; nothing raises.
    A failing site is attributed to a known finding only if the extracted model of the form under test reproduces Griffe's answers on it
    (C), the model's Python side matches CPython on it (O), the model's gap predicate fires, and the finding's repair is absent from the
    tree (F1/F3/F4) -- the remaining ones (F5 global, F6 __init__ body) by the model of the fully repaired form.
"""
from __future__ import annotations

import ast
import dataclasses
import dis
import importlib.util
import json
import os
import subprocess
import sys
from pathlib import Path

from harness.common import framework

ID = "C04"
LEVEL_TEXT = ("Theorems for all chains of scopes, all names and all expressions, over a model that describes Object.resolve and the expression builders "
              "both as the code stands and with the three prepared repairs (form read from the source on every run). Repaired form: on every chain of "
              "classes and modules the visitor can build, resolve = CPython's lookup (innermost class body, module globals) and every identifier of "
              "every stored expression - lambda parameters/defaults, comprehension targets, first iterable, function scopes nested in class bodies, "
              "string annotations - canonicalises to what CPython's symbol table binds, WITHOUT gap hypothesis (C04_resolve_fixed_eq_python, "
              "C04_expr_fixed_eq_python); each repair is shown necessary. Every form: the same equalities modulo decidable gap predicates "
              "(class body CPython skips; expression-local binder), refuted by computed witnesses replayed on the code. `global` declarations: the "
              "walk gives the module binding unless a lower scope answers. Binding statements: for every statement list (no bind-once restriction, "
              "last binding wins) the visitor's member table and CPython's final namespace give each name the same path, except imports of the "
              "scope's own member. Stubs: a name written in a .pyi resolves as in the module whose text is the stubs text, from the stubs module and from the merged module alike, modulo two decidable predicates (C04-F7 exact). Resolution is total and justified; unknown names unchanged; relative_to_absolute = importlib._resolve_name; "
              "import statements bind as CPython; dotted chains canonicalise segment by segment. Model tied to the code by a source-reading "
              "translator, two independent abstractions (live tree, source text) that must coincide, and differential runs against Griffe and "
              "against CPython (execution probes, compiler instructions, final namespaces).")
LEVEL_NOTE = ("Trusted: Coq kernel, extraction, the two abstractions (live objects -> frames: kind, name, members with alias targets, parameters; "
              "ast -> binding statements and expression trees), CPython 3.12 as authority (its compiler for which scope binds an identifier; one "
              "compiler defect of 3.12.0/3.12.1 - targets of nested inlined comprehensions leaking as fast locals - is recognised and those "
              "expressions are not compared). The gap-free theorems cover chains of classes and modules; chains through __init__ keep the gap "
              "C04-F6 (declined repair). Not modelled: which non-statement members exist (annotation-only and instance attributes count as class "
              "members for Griffe, by design: test_name_resolution), walrus targets, `nonlocal` beyond the spec side, star imports (C05), "
              "inherited members in attribute chains (C07), alias resolution of the returned first-link path (C06; the direct check lets CPython "
              "evaluate the path). While /repo lacks the three fix commits the check runs the as-is form of the model and lists F1/F3/F4 as "
              "known; on the fix clone it runs the repaired form and their witnesses must give CPython's answers. Stub-merged trees: the scope rule is a theorem over a names-level model of the merge (C04_stub_scope_kept/_moved) evaluated by the extracted model on every identifier of the stub stream; the merge of whole objects is C19's. All 37 theorems are closed "
              "under the global context.")
MODEL = ("Model.C04_stubs", "run_C04s")
COQ_TARGETS = ["Proofs/C04_scope.vo", "Proofs/C04_expr.vo", "Proofs/C04_stubs.vo"]
TRANSLATOR_NAME = "harness/translate/c04_variant.py (which form of Object.resolve / the expression builders the tree has)"
_VARIANT = {"v": [True, True, True], "read": False}


def translate(ctx):
    """(T) read from the source under test which of the three repairs it contains; the switches go to the model with every query."""
    from harness.translate import c04_variant
    # until the source has been read successfully nothing is excused: all three repairs are assumed present, so that every
    # disagreement of the kinds C04-F1 / F3 / F4 is reported with its failing input
    _VARIANT["v"], _VARIANT["read"] = [True, True, True], False
    v = c04_variant.read_variant()
    _VARIANT["v"], _VARIANT["read"] = [v["v_skip"], v["v_locals"], v["v_inner"]], True


def V():
    return list(_VARIANT["v"])


RULE = ("exhaustive relative-import space (module depth 1..4 x __init__/plain x level 0..depth+2 x from-module none/x/x.y); seeded random packages of "
        "1..4 modules (root __init__, plain modules, sub-packages), each module with imports of every form (import a.b / import a.b as c / from a.b "
        "import c [as d] / relative with every valid level / from . import sub [as sub] / stdlib), constants, functions, classes nested up to 3 with "
        "shadowing between class members, imports, module globals and builtins, __init__ methods with parameters, and reference sites in annotations "
        "(quoted, unquoted, postponed), values, bases, decorators, defaults, parameter/return annotations, __init__ bodies, as single names or dotted "
        "chains up to 4 segments, plus random expressions up to depth 3 built from tuples, calls, subscripts, conditionals, dict displays, lambdas "
        "(0-2 parameters, defaults, *r/**r) and list/set/dict/generator comprehensions (1-2 for-clauses, tuple targets, conditions) whose binder "
        "names are drawn from the names the scopes bind; a bind-once stream (in-place probes + instructions) and a re-binding stream (names "
        "re-bound, bindings after the references, forward references; instructions + final namespaces only); single modules with global/nonlocal "
        "declarations in class bodies, __init__ and classes inside __init__; a 'wild' stream (conditional blocks, functions nested in classes, star "
        "imports) and random object trees built through the producer API (the shapes the visitor never builds), both checked for model "
        "correspondence, justification of every returned path and absence of exceptions. A site is non-trivial when one of its identifiers is bound "
        "by some scope on the chain; distinct by (package source, site)")
TRUSTED = ["abstraction 1: the harness reads kind/name/members(alias target_path)/parameters along Object.parent into the model's chain of frames, and "
           "Griffe's Expr tree into the model's expr",
           "abstraction 2: the harness reads the binding statements and expressions of every scope from the source text (ast); both abstractions "
           "are compared on every scope and expression of the generated packages",
           "the instrumentation convention: a name evaluated by a statement placed next to the stored expression, in the same scope, is what "
           "CPython binds for that expression (bases, decorators, defaults and annotations are evaluated in the enclosing scope); a string "
           "annotation is evaluated in the scope it is written in (PEP 563), i.e. as its unquoted twin compiles"]
ASSUMPTIONS = ["static scoping is read flow-insensitively: the object a name designates in a scope is the one bound there when the scope's body has run",
               "function scopes in the parent chain are __init__ methods of classes (the only functions the visitor descends into)",
               "level <= package depth for relative imports (beyond it CPython raises ImportError; Griffe clamps at the top package)"]

VALUE = ["x", "y", "z", "w", "k", "int", "len"]
CONT = ["A", "B", "C", "D", "E", "F"]
NEVER = ["q", "str", "nope"]
EXTERNAL = {"json": ("module", ["decoder", "encoder"]), "json.decoder": ("module", ["JSONDecoder"]), "json.encoder": ("module", ["JSONEncoder"]),
            "json.decoder.JSONDecoder": ("class", ["decode"]), "json.encoder.JSONEncoder": ("class", ["encode"])}
LAYOUTS = [["a"], ["a", "b"], ["s"], ["s", "s.c"], ["a", "s", "s.c"], ["s", "s.c", "s.d"], ["s", "s.t", "s.t.e"], ["a", "s", "s.t"], ["s", "s.c", "s.t"]]

ORACLE = r'''
import builtins, importlib, json, sys, types
sys.setrecursionlimit(2000)
class _K:
    def __init__(self, path): self.path = path
    def __call__(self, *a): return a[0] if a else None
class _Sent: pass
_S = _Sent()
REC = {}
def desc(o):
    if o is _S: return ["local"]
    if isinstance(o, _K): return ["obj", o.path]
    if isinstance(o, types.ModuleType): return ["obj", o.__name__]
    if isinstance(o, type) or isinstance(o, (types.FunctionType, types.BuiltinFunctionType)):
        mod = getattr(o, "__module__", None)
        if mod == "builtins": return ["builtin"]
        return ["obj", "%s.%s" % (mod, o.__qualname__)]
    if isinstance(o, types.MethodType): return desc(o.__func__)
    return ["other", type(o).__name__]
_NOVAL = object()
def _REC(site, which, val=_NOVAL, is_local=False, err=None):
    if err is not None: d = [err]
    elif val is _NOVAL: d = ["unbound"]
    elif is_local: d = ["local"]
    else: d = desc(val)
    REC.setdefault(str(site), {})[which] = d
builtins._K = _K; builtins._S = _S; builtins._REC = _REC; builtins._OFF = False
def eval_path(path):
    parts = path.split(".")
    for i in range(len(parts), 0, -1):
        name = ".".join(parts[:i])
        try:
            spec_ok = True
            obj = importlib.import_module(name)
        except ImportError:
            continue
        except Exception as e:
            return ["import-raised", type(e).__name__]
        for a in parts[i:]:
            try: obj = getattr(obj, a)
            except AttributeError: return ["dangling"]
        return desc(obj)
    return ["dangling"]
def scope_ns(module, qual):
    obj = sys.modules[module]
    if qual:
        for a in qual.split("."): obj = vars(obj)[a]
    return vars(obj)
job = json.load(open(sys.argv[1]))
out = []
for pk in job["packages"]:
    REC = {}
    res = {"status": "ok"}
    sys.path.insert(0, pk["dir"])
    try:
        for m in pk["modules"]:
            importlib.import_module(m)
        for module, qual in pk["inits"]:
            obj = sys.modules[module]
            for a in qual.split("."): obj = vars(obj)[a]
            obj()
    except BaseException as e:
        res["status"] = "import-error: %s: %s" % (type(e).__name__, e)
    if res["status"] == "ok":
        res["rec"] = REC
        res["paths"] = {p: eval_path(p) for p in pk["paths"]}
        b = []
        for module, qual, name in pk["bindings"]:
            try:
                ns = scope_ns(module, qual)
                b.append(desc(ns[name]) if name in ns else ["unbound"])
            except Exception as e:
                b.append(["error", type(e).__name__])
        res["bindings"] = b
        nss = {}
        for module, qual in pk.get("scopes", []):
            try:
                ns = scope_ns(module, qual)
                nss[module + ":" + qual] = {k: desc(v) for k, v in list(ns.items()) if not k.startswith("__")}
            except Exception as e:
                nss[module + ":" + qual] = {"!error": ["error", type(e).__name__]}
        res["namespaces"] = nss
    sys.path.pop(0)
    for k in [k for k in sys.modules if k == pk["root"] or k.startswith(pk["root"] + ".")]:
        del sys.modules[k]
    out.append(res)
json.dump(out, open(sys.argv[2], "w"))
'''


# ------------------------------------------------------------------------------------------------ generator
class Sc:
    def __init__(self, kind, name, path, parent, mod):
        self.kind, self.name, self.path, self.parent, self.mod = kind, name, path, parent, mod
        self.bind = {}        # name -> canonical target path (or None when unknown)
        self.nbind = {}       # name -> number of binding statements (re-binding stream)
        self.lines = []       # binding statements, in order
        self.children = []
        self.init = None      # list of parameter names when the class has an __init__
        self.sites = []
        self.init_sites = []
        self.top_index = None

    @property
    def qual(self):
        return self.path[len(self.mod.dotted) + 1:] if self.kind == "class" else ""


class Mod:
    def __init__(self, dotted, is_init, relfile):
        self.dotted, self.is_init, self.relfile = dotted, is_init, relfile
        self.comps = dotted.split(".")
        self.future = False
        self.scope = None
        self.conts = []


class Gen:
    def __init__(self, rng, root, wild=False, rebind=False):
        # rebind: no "each name bound once, before its uses" restriction: names are re-bound (definition after import, import after
        # definition, ...), binding statements also follow the reference sites, forward references are allowed; such packages are checked
        # under the flow-insensitive reading only (compiler's load instruction + final namespaces), without in-place probes.
        self.rng, self.root, self.wild, self.rebind = rng, root, wild, rebind
        self.reg = {}      # canonical path -> {"kind", "members": {name: target path}}
        for p, (k, ms) in EXTERNAL.items():
            self.reg[p] = {"kind": k, "members": {m: p + "." + m for m in ms}}
        self.mods = []
        self.imports = []  # records for the import-statement checks
        self.sites = []
        self.nsite = 0

    # --- registry helpers
    def canon(self, path, depth=0):
        if path is None or depth > 12:
            return None
        if path in self.reg:
            return path
        if "." not in path:
            return None
        head, last = path.rsplit(".", 1)
        h = self.canon(head, depth + 1)
        if h is None or h not in self.reg:
            return None
        t = self.reg[h]["members"].get(last)
        if t is None:
            return None
        if t == h + "." + last:
            return t if t in self.reg else t
        return self.canon(t, depth + 1) or t

    def define(self, sc, name, kind):
        path = sc.path + "." + name
        self.reg[path] = {"kind": kind, "members": {}}
        self.reg[sc.path]["members"][name] = path
        sc.bind[name] = path
        sc.nbind[name] = sc.nbind.get(name, 0) + 1
        return path

    # --- structure
    def build(self):
        rng = self.rng
        layout = rng.choice(LAYOUTS) if rng.random() < 0.85 else []
        names = [""] + layout
        pk = set(n for n in names if any(o.startswith(n + ".") for o in names if n) or n == "")
        pk |= {n for n in layout if n in ("s", "s.t")}
        mods = []
        for n in names:
            dotted = self.root + ("." + n if n else "")
            is_init = n in pk
            rel = (n.replace(".", "/") + ("/__init__.py" if is_init else ".py")) if n else "__init__.py"
            mods.append(Mod(dotted, is_init, rel))
        order = mods[:]
        r = rng.random()
        if r < 0.45:
            pass                      # ancestors first
        elif r < 0.75:
            order = mods[1:] + mods[:1]   # root __init__ last: it re-exports from its submodules
        else:
            rng.shuffle(order)
        self.mods = order
        self.all_mods = mods
        for m in order:
            self.gen_module(m)
        return self

    def submodule_names(self, m):
        pre = m.dotted + "."
        return {o.dotted[len(pre):] for o in self.all_mods if o.dotted.startswith(pre) and "." not in o.dotted[len(pre):]} if m.is_init else set()

    def gen_module(self, m):
        rng = self.rng
        m.future = rng.random() < 0.3
        sc = m.scope = Sc("module", m.comps[-1], m.dotted, None, m)
        self.reg[m.dotted] = {"kind": "module", "members": {}}
        if len(m.comps) > 1:
            parent = ".".join(m.comps[:-1])
            if parent in self.reg:
                self.reg[parent]["members"].setdefault(m.comps[-1], m.dotted)
        for o in self.all_mods:   # submodules already generated become attributes of the package
            if o.dotted.startswith(m.dotted + ".") and "." not in o.dotted[len(m.dotted) + 1:] and o.dotted in self.reg:
                self.reg[m.dotted]["members"].setdefault(o.comps[-1], o.dotted)
        self.gen_bindings(sc, rng.randint(1, 5))
        ntop = rng.choice([0, 1, 1, 2, 2, 3])
        pool = [c for c in CONT if c not in sc.bind]
        rng.shuffle(pool)
        budget = [rng.randint(1, 5)]
        for i in range(min(ntop, len(pool))):
            if budget[0] <= 0:
                break
            self.gen_class(sc, pool, 1, budget, i)
        m.conts = [c.name for c in self.walk_classes(sc)]
        # reference sites
        for s in [sc] + self.walk_classes(sc):
            self.gen_sites(s)

    def walk_classes(self, sc):
        out = []
        for c in sc.children:
            out.append(c)
            out.extend(self.walk_classes(c))
        return out

    def gen_class(self, parent, pool, depth, budget, top_index):
        rng = self.rng
        avail = [n for n in pool if n not in parent.bind]
        if not avail:
            return
        name = avail[-1]
        pool.remove(name)
        budget[0] -= 1
        c = Sc("class", name, parent.path + "." + name, parent, parent.mod)
        c.top_index = top_index
        self.reg[c.path] = {"kind": "class", "members": {}}
        self.reg[parent.path]["members"][name] = c.path
        parent.bind[name] = c.path
        parent.nbind[name] = parent.nbind.get(name, 0) + 1
        parent.children.append(c)
        self.gen_bindings(c, rng.randint(0, 4))
        if rng.random() < 0.12 and name not in c.bind:      # a class that has a member with its own name
            self.define(c, name, "const")
            c.lines.append(f"{name} = _K({c.path + '.' + name!r})")
        if depth < 3:
            for _ in range(rng.choice([0, 0, 1, 1, 2])):
                if budget[0] > 0:
                    self.gen_class(c, pool, depth + 1, budget, top_index)
        if rng.random() < 0.6:
            c.init = ["self"] + rng.sample(VALUE + ["p"], rng.randint(0, 2))
            self.reg[c.path]["members"]["__init__"] = c.path + ".__init__"

    def gen_bindings(self, sc, n):
        rng = self.rng
        for _ in range(n):
            r = rng.random()
            if r < 0.45 or (sc.kind == "class" and r < 0.8):
                free = [v for v in VALUE if v not in sc.bind or ((self.wild or self.rebind) and rng.random() < 0.3)]
                if not free:
                    continue
                name = rng.choice(free)
                k = rng.choice(["const", "const", "func", "leaf"])
                path = self.define(sc, name, {"const": "const", "func": "func", "leaf": "class"}[k])
                if k == "const":
                    sc.lines.append(f"{name} = _K({path!r})")
                elif k == "func":
                    sc.lines.append(f"def {name}(*a): return a[0] if a else None")
                else:
                    inner = rng.choice(VALUE)
                    ipath = path + "." + inner
                    self.reg[ipath] = {"kind": "const", "members": {}}
                    self.reg[path]["members"][inner] = ipath
                    sc.lines.append(f"class {name}:\n    {inner} = _K({ipath!r})")
            else:
                self.gen_import(sc)

    def gen_import(self, sc):
        rng = self.rng
        m = sc.mod
        done = [o for o in self.mods if o.scope is not None and o is not m]
        if m.is_init and rng.random() < 0.35:      # a package importing its own submodules (possibly not generated yet)
            subs = [o for o in self.all_mods if o.dotted.startswith(m.dotted + ".") and "." not in o.dotted[len(m.dotted) + 1:]]
            done = done + [o for o in subs if o not in done] * 2
        ext = rng.random() < 0.15 or not done
        if ext:
            tpath = rng.choice(list(EXTERNAL))
            tkind = EXTERNAL[tpath][0]
            ec, obj = (tpath.split("."), None) if tkind == "module" else (tpath.split(".")[:-1], tpath.split(".")[-1])
            tmod = None
        else:
            tmod = rng.choice(done)
            ec = tmod.comps
            obj = None
            # re-binding stream: only names bound once in their module are imported from it (which object an importer sees of a
            # re-bound name depends on when a circular import runs: flow, not scoping)
            exports = [n for n in (tmod.scope.bind if tmod.scope else {}) if not n.startswith("_")
                       and (not self.rebind or tmod.scope.nbind.get(n, 0) == 1)]
            if exports and rng.random() < 0.6:
                obj = rng.choice(exports)
        pm = m.comps if m.is_init else m.comps[:-1]
        forms = []
        if obj is None:
            forms.append(("import", ec, False))
            forms.append(("import", ec, True))
            if len(ec) > 1:
                forms.append(("from", 0, ".".join(ec[:-1]), ec[-1]))
            if not ext:
                for k in range(1, len(pm) + 1):
                    anc = pm[:k]
                    if ec[:k] == anc and len(ec) > k:
                        rem = ec[k:]
                        forms += [("from", len(pm) - k + 1, ".".join(rem[:-1]), rem[-1])] * 2
        else:
            forms.append(("from", 0, ".".join(ec), obj))
            if not ext:
                for k in range(1, len(pm) + 1):
                    anc = pm[:k]
                    if ec[:k] == anc:
                        forms += [("from", len(pm) - k + 1, ".".join(ec[k:]), obj)] * 2
        form = rng.choice(forms)
        target = ".".join(ec) + ("." + obj if obj else "")
        free = [v for v in VALUE if v not in sc.bind]
        if form[0] == "import":
            _, comps, use_as = form
            asname = rng.choice(free) if (use_as and free) else None
            bound = asname or comps[0]
            if bound in sc.bind and not (self.wild or self.rebind):
                return
            text = "import " + ".".join(comps) + (f" as {asname}" if asname else "")
            ctarget = ".".join(comps) if asname else comps[0]
            rec = {"form": "import", "comps": comps, "asname": asname}
        else:
            _, level, module, name = form
            r = rng.random()
            asname = None
            if r < 0.35 and free:
                asname = rng.choice(free)
            elif r < 0.45:
                asname = name
            bound = asname or name
            if bound in sc.bind and not (self.wild or self.rebind):
                if not free:
                    return
                asname = bound = rng.choice(free)
            text = "from " + "." * level + module + " import " + name + (f" as {asname}" if asname else "")
            ctarget = target
            rec = {"form": "from", "level": level, "module": module or None, "name": name, "asname": asname}
        if sc.kind == "module" and bound in self.submodule_names(m) and ctarget != m.dotted + "." + bound and not self.wild:
            return      # the loader (and CPython, when the submodule is imported) rebinds that name to the submodule: flow-dependent
        rec.update({"module_dotted": m.dotted, "is_init": m.is_init, "scope": sc.path, "qual": sc.qual, "bound": bound, "text": text})
        self.imports.append(rec)
        sc.lines.append(text)
        sc.nbind[bound] = sc.nbind.get(bound, 0) + 1
        sc.bind[bound] = ctarget
        self.reg[sc.path]["members"][bound] = ctarget

    # --- reference sites
    def visible_names(self, sc, eager):
        """Candidate root names with a bias towards names bound somewhere on the chain."""
        rng = self.rng
        chain = []
        s = sc
        while s is not None:
            chain.append(s)
            s = s.parent
        mod_sc = chain[-1]
        bound = []
        for s in chain:
            bound += list(s.bind)
        # names bound in the parent packages (package leak probes) and sibling modules
        m = sc.mod
        up = []
        for o in self.all_mods:
            if o is not m and m.dotted.startswith(o.dotted + ".") and o.scope is not None:
                up += list(o.scope.bind) + [x.comps[-1] for x in self.all_mods if x.dotted.startswith(o.dotted + ".") and "." not in x.dotted[len(o.dotted) + 1:]]
        cands = bound * 3 + up * 2 + VALUE + NEVER + m.conts + [self.root]
        forbidden = set()
        if not self.wild:
            forbidden |= {n for n in self.submodule_names(m) if n not in mod_sc.bind}
            if eager and not self.rebind:
                top = [c for c in mod_sc.children]
                ti = sc.top_index if sc.kind == "class" else None
                if ti is not None:     # top-level classes not yet bound while this class body runs (own top-level ancestor and later ones)
                    forbidden |= {c.name for c in top if c.top_index >= ti}
        cands = [c for c in cands if c not in forbidden]
        return cands or ["q"]

    def pick_expr(self, sc, eager, params=()):
        rng = self.rng
        cands = self.visible_names(sc, eager) + list(params) * 3
        root = rng.choice(cands)
        segs = []
        if rng.random() < 0.55:
            # where could the root point to (any binder on the chain, Griffe's or CPython's view alike)
            targets = []
            s = sc
            while s is not None:
                if root in s.bind:
                    targets.append(s.bind[root])
                s = s.parent
            if targets:
                cur = self.canon(rng.choice(targets))
                for _ in range(rng.randint(1, 3)):
                    if cur is None or cur not in self.reg:
                        break
                    ms = [k for k in self.reg[cur]["members"] if k != "__init__"]
                    if not ms:
                        break
                    k = rng.choice(ms)
                    segs.append(k)
                    cur = self.canon(cur + "." + k)
        return root, segs

    def new_site(self, sc, kind, root, segs, **kw):
        self.nsite += 1
        s = {"id": self.nsite, "kind": kind, "root": root, "segs": segs, "scope": sc.path, "qual": sc.qual,
             "module": sc.mod.dotted, "expr": ".".join([root] + segs), "scope_kind": sc.kind}
        s.update(kw)
        self.sites.append(s)
        return s

    def gen_sites(self, sc):
        rng = self.rng
        n = rng.randint(1, 4) if sc.kind == "class" else rng.randint(1, 5)
        kinds = ["ann", "ann", "val", "val", "base", "deco", "default", "pann", "comp", "lam", "xval", "xval", "xdef"]
        for _ in range(n):
            kind = rng.choice(kinds)
            if kind in ("xval", "xdef"):
                sc.sites.append(self.new_site(sc, kind, "", [], quoted=False, expr=self.gen_xexpr(sc)))
                continue
            root, segs = self.pick_expr(sc, eager=True)
            if kind in ("comp", "lam"):
                segs = []
            quoted = kind in ("ann", "pann") and not sc.mod.future and rng.random() < 0.5
            calls = rng.choice([0, 0, 0, 1, 1, 2]) if kind == "deco" else 0      # @e, @e(0), @e(0)(1)
            sc.sites.append(self.new_site(sc, kind, root, segs, quoted=quoted, calls=calls))
        if sc.init is not None:
            params = [p for p in sc.init if p != "self"]
            sc.init_imports = []
            if rng.random() < 0.35:        # imports local to __init__: members of the Function, fast locals for CPython
                for _ in range(rng.randint(1, 2)):
                    free = [x for x in VALUE[:5] if x not in sc.init and x not in [n for n, _ in sc.init_imports]]
                    if not free:
                        break
                    n = rng.choice(free)
                    done = [o for o in self.mods if o.scope is not None and [e for e in o.scope.bind if not self.rebind or o.scope.nbind.get(e, 0) == 1]]
                    if done and rng.random() < 0.5:
                        o = rng.choice(done)
                        e = rng.choice([e for e in o.scope.bind if not self.rebind or o.scope.nbind.get(e, 0) == 1])
                        sc.init_imports.append((n, f"from {o.dotted} import {e} as {n}"))
                    else:
                        sc.init_imports.append((n, rng.choice([f"import json.decoder as {n}", f"from json import encoder as {n}",
                                                               f"from json.decoder import JSONDecoder as {n}"])))
            params = params + [n for n, _ in sc.init_imports] * 2
            for _ in range(rng.randint(1, 3)):
                if rng.random() < 0.3:
                    sc.init_sites.append(self.new_site(sc, "xinit", "", [], quoted=False, expr=self.gen_xexpr(sc, params)))
                    continue
                root, segs = self.pick_expr(sc, eager=False, params=params)
                sc.init_sites.append(self.new_site(sc, "init", root, segs, quoted=False))

    # --- expressions with scopes of their own: lambdas, comprehensions (several for-clauses, nested), mixed with ordinary nodes
    def gen_xexpr(self, sc, params=(), depth=0, locs=()):
        rng = self.rng
        text = self._xexpr(sc, tuple(params), depth, tuple(locs))
        try:
            ast.parse(text, mode="eval")
        except SyntaxError:
            return rng.choice(VALUE)
        return text

    def _xname(self, sc, params, locs):
        rng = self.rng
        pool = self.visible_names(sc, eager=False) + list(params) * 2 + list(locs) * 5 + VALUE + NEVER
        return rng.choice(pool)

    def _xexpr(self, sc, params, depth, locs):
        rng = self.rng
        sub = lambda l=locs: self._xexpr(sc, params, depth + 1, tuple(l))
        def atom():
            r = rng.random()
            if r < 0.8:
                return self._xname(sc, params, locs)
            if r < 0.93:
                return self._xname(sc, params, locs) + "." + rng.choice(VALUE)
            return "0"
        if depth >= 3 or (depth > 0 and rng.random() < 0.3):
            return atom()
        r = rng.random()
        if r < 0.10:
            return f"({sub()}, {sub()})"
        if r < 0.17:
            return f"{self._xname(sc, params, locs)}({sub()}, k={sub()})"
        if r < 0.22:
            return f"{self._xname(sc, params, locs)}[{sub()}]"
        if r < 0.245:      # attribute of something that is not a name: only the root of a chain is looked up in the scope
            return f"{self._xname(sc, params, locs)}({sub()}).{rng.choice(VALUE)}" if rng.random() < 0.5 else f"{self._xname(sc, params, locs)}[{sub()}].{rng.choice(VALUE)}"
        if r < 0.27:
            return f"({sub()} if {sub()} else {sub()})"
        if r < 0.29:       # f-string: replacement field, nested format spec (evaluated in the same scope as the string)
            return f'f"a{{({sub()})}}b"' if rng.random() < 0.6 else f'f"{{({sub()}):{{({sub()})}}}}"'
        if r < 0.31:
            return f"{{{sub()}: {sub()}}}"
        binders = VALUE[:5] + ["p"]
        if r < 0.60:
            ps = rng.sample(binders, rng.randint(0, 2))
            plain, dflt = [], []
            for q in ps:
                if rng.random() < 0.4:
                    dflt.append(f"{q}={sub()}")          # evaluated outside the lambda
                else:
                    plain.append(q)
            parts = plain + dflt
            extra = []
            r2 = rng.random()
            if r2 < 0.12:
                extra = ["r"]
                parts.append("*r")
            elif r2 < 0.2:
                extra = ["r"]
                parts.append("**r")
            body = self._xexpr(sc, params, depth + 1, tuple(locs) + tuple(ps) + tuple(extra))
            return f"(lambda {', '.join(parts)}: {body})" if parts else f"(lambda: {body})"
        # comprehension
        ngen = rng.choice([1, 1, 1, 2])
        tgs, shapes = [], []
        for _ in range(ngen):
            # target shapes: a | (a, b) | (a, *b) | (*a, b) | [a, *b] | (a, (*b, c)) | [a, [b, *c]] | (a, [*b, c])
            shape = rng.choice(["{0}", "{0}", "({0}, {1})", "({0}, {1})", "({0}, *{1})", "(*{0}, {1})", "[{0}, *{1}]", "[{0}, {1}]",
                                "({0}, (*{1}, {2}))", "[{0}, [{1}, *{2}]]", "({0}, [*{1}, {2}])", "(({0}, {1}), *{2})"])
            k = 1 + max(int(c) for c in shape if c.isdigit())
            tgs.append(rng.sample(binders, k))
            shapes.append(shape)
        inner = tuple(locs) + tuple(t for tg in tgs for t in tg)
        clauses = []
        for i, tg in enumerate(tgs):
            t = shapes[i].format(*tg)
            it = sub(locs) if i == 0 else sub(inner)       # only the first iterable is evaluated outside
            cl = f"for {t} in {it}"
            if rng.random() < 0.35:
                cl += f" if {sub(inner)}"
            clauses.append(cl)
        kind = rng.choice(["list", "list", "set", "gen", "dict"])
        if kind == "dict":
            return "{" + f"{sub(inner)}: {sub(inner)} " + " ".join(clauses) + "}"
        o, c = {"list": "[]", "set": "{}", "gen": "()"}[kind]
        return o + sub(inner) + " " + " ".join(clauses) + c

    # --- emission
    def emit_probe(self, s, ind, in_init=False):
        if self.rebind or self.twin:
            return []
        i, root, e = s["id"], s["root"], s["expr"]
        loc = f", {root!r} in locals() and {root!r} in {getattr(self, '_init_params', ())!r}" if in_init else ""
        L = [f"try: _REC({i}, 'root', {root}{loc})", f"except NameError: _REC({i}, 'root')"]
        if s["segs"]:
            L += [f"try: _REC({i}, 'full', {e})", f"except NameError: _REC({i}, 'full')",
                  f"except AttributeError: _REC({i}, 'full', err='attr-error')"]
        return [ind + l for l in L]

    def emit_site(self, s, ind, future):
        i, e, k, root = s["id"], s["expr"], s["kind"], s["root"]
        quoted = s["quoted"] and not self.twin
        future = future and not self.twin
        q = (lambda t: '"' + t + '"') if quoted else (lambda t: t)
        if k == "xval":
            return [ind + l for l in ["try:", f"    x{i} = {e}", "except Exception: pass"]]
        if k == "xdef":
            return [ind + l for l in ["try:", f"    def h{i}(self=None, q={e}): pass", "except Exception: pass"]]
        if k == "ann":
            if quoted or future:
                L = [f"u{i}: {q(e)} = 0"]
            else:
                L = ["try:", f"    u{i}: {e} = 0", "except Exception: pass"]
        elif k == "val":
            L = ["try:", f"    v{i} = {e}", "except Exception: pass"]
        elif k == "base":
            L = ["try:", f"    class c{i}({e}): pass", "except Exception: pass"]
        elif k == "deco":
            L = ["try:", f"    @{e}" + "".join(f"({c})" for c in range(s.get("calls", 0))), f"    def d{i}(*a): pass", "except Exception: pass"]
        elif k == "default":
            L = ["try:", f"    def f{i}(self=None, q={e}): pass", "except Exception: pass"]
        elif k == "pann":
            if quoted or future:
                L = [f"def g{i}(self=None, q: {q(e)} = None) -> {q(e)}: pass"]
            else:
                L = ["try:", f"    def g{i}(self=None, q: {e} = None) -> {e}: pass", "except Exception: pass"]
        elif k == "comp":
            L = [f"w{i} = [{root} for {root} in (_S,)]", f"[_REC({i}, 'root', {root}) for {root} in (_S,)]"]
            return [ind + l for l in (L[:1] if self.rebind or self.twin else L)]
        elif k == "lam":
            L = [f"w{i} = lambda {root}: {root}", f"(lambda {root}: _REC({i}, 'root', {root}))(_S)"]
            return [ind + l for l in (L[:1] if self.rebind or self.twin else L)]
        return [ind + l for l in L] + self.emit_probe(s, ind)

    def emit_scope(self, sc, ind):
        L = []
        if self.rebind and not hasattr(sc, "cut"):
            sc.cut = self.rng.randint(0, len(sc.lines)) if self.rng.random() < 0.6 else len(sc.lines)
        cut = getattr(sc, "cut", len(sc.lines))
        for st in sc.lines[:cut]:
            L += [ind + l for l in st.split("\n")]
        if self.wild and self.rng.random() < 0.4:
            L += [ind + l for l in self.wild_lines(sc)]
        for c in sc.children:
            L.append(f"{ind}class {c.name}:")
            body = self.emit_scope(c, ind + "    ")
            L += body or [ind + "    pass"]
        if sc.init is not None:
            L.append(f"{ind}def __init__({', '.join([sc.init[0]] + [p + '=None' for p in sc.init[1:]])}):")
            for _, text in getattr(sc, "init_imports", []):
                L.append(f"{ind}    {text}")
            self._init_params = tuple(sc.init)
            for s in sc.init_sites:
                carrier = "b" if s["kind"] == "xinit" else "a"
                L += [f"{ind}    try: self.{carrier}{s['id']} = {s['expr']}", f"{ind}    except Exception: pass"]
                if s["kind"] == "init":
                    L += self.emit_probe(s, ind + "    ", in_init=True)
            if not sc.init_sites:
                L.append(ind + "    pass")
        for s in sc.sites:
            L += self.emit_site(s, ind, sc.mod.future)
        for st in sc.lines[cut:]:          # rebind stream: binding statements that follow the references
            L += [ind + l for l in st.split("\n")]
        return L

    def wild_lines(self, sc):
        rng = self.rng
        v = rng.choice(VALUE)
        u = rng.choice(VALUE + CONT)
        return rng.choice([
            [f"{v} = {u}", f"{v}: {u}"],
            [f"if _OFF:", f"    {v} = 1", f"    class {u}: zz: {v} = {u}", "else:", f"    {v} = 2"],
            [f"def h_{v}(a: {u}, *b: {v}, c: {u} = {v}, **d) -> {u}:", f"    class L{v}:", f"        t: {u} = {v}", f"    return {v}"],
            [f"{v}, {u}_ = 1, 2", f"del {v}"],
            [f"t_{v} = [{u} for {v} in {u} if {v}]", f"t2_{v} = {{{v}: {u} for {v}, {u} in {u}.items()}}"],
            [f"t3_{v} = lambda {v}, *a, {u}=1: {v}.{u}.z + a", f"t4_{v} = ({u} := {v})"],
            [f"t5_{v} = {u}.{v}().z[{u}].{v}", f"t6_{v} = f'{{{v}.{u}!r}}' + \"s\".join({u})"],
            [f"for {v} in {u}: pass", f"with {u} as {v}: t7 = {v}"],
            [f"try:", f"    from .{v} import {u}", f"except ImportError:", f"    {u} = None"],
            [f"from . import *", f"from {self.root} import *"],
        ])

    twin = False

    def files(self, twin=False):
        """twin: the same package with annotations written unquoted and evaluated eagerly (no __future__ import, no probes): the text the
        compiler's choice of load instruction is read from (PEP 563: a string annotation is evaluated in the scope it is written in)."""
        out = {}
        self.twin = twin
        try:
            for m in self.all_mods:
                L = (["from __future__ import annotations"] if m.future and not twin else []) + self.emit_scope(m.scope, "")
                out[m.relfile] = "\n".join(L) + "\n"
        finally:
            self.twin = False
        return out


# ------------------------------------------------------------------------------------------------ Griffe side
def walk_exprs(expr, names, attrs):
    """Collect standalone ExprNames (scope parent) and ExprAttributes from an expression tree."""
    import griffe
    if isinstance(expr, griffe.ExprName):
        names.append(expr)
        return
    if isinstance(expr, griffe.ExprAttribute):
        attrs.append(expr)
        first = expr.values[0]
        if not isinstance(first, griffe.ExprName):
            walk_exprs(first, names, attrs)
        return
    if isinstance(expr, griffe.Expr):
        for f in dataclasses.fields(expr):
            walk_exprs(getattr(expr, f.name), names, attrs)
    elif isinstance(expr, (list, tuple)):
        for x in expr:
            walk_exprs(x, names, attrs)


def object_exprs(obj):
    k = obj.kind.value
    out = []
    if k == "attribute":
        out += [obj.annotation, obj.value]
    elif k == "function":
        out += [obj.returns] + [d.value for d in obj.decorators]
        for p in obj.parameters:
            out += [p.annotation, p.default]
    elif k == "class":
        out += list(obj.bases) + [d.value for d in obj.decorators]
    return [e for e in out if e is not None and not isinstance(e, str)]


def all_objects(obj, seen=None):
    seen = set() if seen is None else seen
    if id(obj) in seen:
        return
    seen.add(id(obj))
    yield obj
    for m in list(obj.members.values()):
        if not m.is_alias:
            yield from all_objects(m, seen)


def abstract_chain(obj):
    frames = []
    n = 0
    while obj is not None and n < 50:
        kind = obj.kind.value
        members = [[k, [m.target_path] if m.is_alias else []] for k, m in obj.members.items()]
        params = [p.name for p in obj.parameters] if kind == "function" else []
        frames.append([kind if kind in ("module", "class", "function") else "class", obj.name, members, params])
        obj = obj.parent
        n += 1
    return frames


def impl_resolve(scope, name):
    import griffe
    if scope is None:          # a name the builders marked as local to the expression: never looked up
        return []
    try:
        return [scope.resolve(name)]
    except griffe.NameResolutionError:
        return []


def local_binders(expr):
    """ids of ExprName occurrences bound by the expression itself (comprehension targets, lambda parameters)."""
    import griffe
    out = set()

    def targets(e, acc):
        if isinstance(e, griffe.ExprName):
            acc.add(e.name)
        elif isinstance(e, griffe.Expr):
            for f in dataclasses.fields(e):
                targets(getattr(e, f.name), acc)
        elif isinstance(e, (list, tuple)):
            for x in e:
                targets(x, acc)

    def mark(e, bound):
        if isinstance(e, griffe.ExprName):
            if e.name in bound:
                out.add(id(e))
            return
        if isinstance(e, griffe.ExprAttribute):
            mark(e.values[0], bound)
            return
        if isinstance(e, griffe.Expr):
            b = set(bound)
            if isinstance(e, (griffe.ExprListComp, griffe.ExprSetComp, griffe.ExprDictComp, griffe.ExprGeneratorExp)):
                for g in e.generators:
                    targets(getattr(g, "target", None), b)
            if isinstance(e, griffe.ExprLambda):
                b |= {p.name for p in e.parameters}
            for f in dataclasses.fields(e):
                mark(getattr(e, f.name), b)
        elif isinstance(e, (list, tuple)):
            for x in e:
                mark(x, bound)
    mark(expr, set())
    return out


def load_package(root, directory):
    import griffe
    loader = griffe.GriffeLoader(search_paths=[str(directory)])
    pkg = loader.load(root)
    return loader, pkg


def site_expr(pkg_coll, s):
    """The stored expression of a generated site."""
    i, k = s["id"], s["kind"]
    carrier = CARRIER[k]
    obj = pkg_coll[s["scope"] + "." + carrier + str(i)]
    if k == "ann":
        return [obj.annotation]
    if k in ("val", "init", "comp", "lam", "xval", "xinit"):
        return [obj.value]
    if k == "xdef":
        return [obj.parameters["q"].default]
    if k == "base":
        return [obj.bases[0]]
    if k == "deco":
        return [obj.decorators[0].value]
    if k == "default":
        return [obj.parameters["q"].default]
    return [obj.parameters["q"].annotation, obj.returns]


CARRIER = {"ann": "u", "val": "v", "base": "c", "deco": "d", "default": "f", "pann": "g", "comp": "w", "lam": "w", "init": "a",
           "xval": "x", "xdef": "h", "xinit": "b"}
import re
CARRIER_RE = re.compile(r"^[uvwxcdfghab]\d+$")


# ------------------------------------------------------------------------------------------------ two abstractions of an expression
def _fold(xs):
    xs = [x for x in xs if x != ["c"]]
    if not xs:
        return ["c"]
    out = xs[-1]
    for x in reversed(xs[:-1]):
        out = ["s", x, out]
    return out


def xlive(e, occ):
    """Abstraction of a stored Griffe expression (live tree) into the model's expr; occ collects the ExprName objects in the
    model's traversal order (defaults before body; element before for-clauses; targets, iterable, conditions)."""
    import griffe
    if isinstance(e, griffe.ExprName):
        occ.append(e)
        return ["n", e.name]
    if isinstance(e, griffe.ExprAttribute):
        return xlive(e.values[0], occ)
    if isinstance(e, griffe.ExprLambda):
        d = _fold([xlive(q.default, occ) for q in e.parameters if isinstance(q.default, griffe.Expr)])
        return ["l", [q.name for q in e.parameters], d, xlive(e.body, occ)]
    if isinstance(e, (griffe.ExprListComp, griffe.ExprSetComp, griffe.ExprGeneratorExp, griffe.ExprDictComp)):
        if isinstance(e, griffe.ExprDictComp):
            elt = _fold([xlive(e.key, occ), xlive(e.value, occ)])
        else:
            elt = xlive(e.element, occ)
        gens = []
        for g in e.generators:
            gens.append([tlive(g.target, occ), xlive(g.iterable, occ), _fold([xlive(c, occ) for c in g.conditions])])
        return ["k", elt, gens]
    if isinstance(e, griffe.Expr):
        kids = []
        for f in dataclasses.fields(e):
            if isinstance(e, griffe.ExprKeyword) and f.name == "function":
                continue        # a back-reference to the call's function, not a child
            kids.append(xlive(getattr(e, f.name), occ))
        return _fold(kids)
    if isinstance(e, (list, tuple)):
        return _fold([xlive(x, occ) for x in e])
    return ["c"]


def _tfold(ts):
    out = ["e"]
    for t in reversed(ts):
        out = ["p", t, out]
    return out


def tlive(e, occ):
    """The target of a `for` clause as Griffe stores it -> the model's target (names, starred, tuples / lists folded to pairs)."""
    import griffe
    if isinstance(e, griffe.ExprName):
        occ.append(e)
        return ["n", e.name]
    if isinstance(e, griffe.ExprVarPositional):
        return ["*", tlive(e.value, occ)]
    if isinstance(e, (griffe.ExprTuple, griffe.ExprList)):
        return _tfold([tlive(x, occ) for x in e.elements])
    return ["e"]


def tsrc(node, occ):
    if isinstance(node, ast.Name):
        occ.append(node)
        return ["n", node.id]
    if isinstance(node, ast.Starred):
        return ["*", tsrc(node.value, occ)]
    if isinstance(node, (ast.Tuple, ast.List)):
        return _tfold([tsrc(x, occ) for x in node.elts])
    return ["e"]


def xsrc(node, occ, ann=False):
    """Abstraction of the source text (ast) of the same expression; occ collects the ast.Name nodes in the model's traversal order.
    ann: the expression is an annotation of a module without the __future__ import, i.e. a whole-string annotation is parsed."""
    if node is None:
        return ["c"]
    if isinstance(node, ast.Name):
        occ.append(node)
        return ["n", node.id]
    if isinstance(node, ast.Attribute):
        return xsrc(node.value, occ)
    if isinstance(node, ast.Constant):
        if ann and isinstance(node.value, str):
            try:
                inner = ast.parse(node.value, mode="eval").body
            except SyntaxError:
                return ["c"]
            return ["q", xsrc(inner, occ)]
        return ["c"]
    if isinstance(node, ast.Lambda):
        a = node.args
        ps = [x.arg for x in a.posonlyargs + a.args] + ([a.vararg.arg] if a.vararg else []) + [x.arg for x in a.kwonlyargs] + ([a.kwarg.arg] if a.kwarg else [])
        d = _fold([xsrc(x, occ) for x in list(a.defaults) + [k for k in a.kw_defaults if k is not None]])
        return ["l", ps, d, xsrc(node.body, occ)]
    if isinstance(node, (ast.ListComp, ast.SetComp, ast.GeneratorExp, ast.DictComp)):
        if isinstance(node, ast.DictComp):
            elt = _fold([xsrc(node.key, occ), xsrc(node.value, occ)])
        else:
            elt = xsrc(node.elt, occ)
        gens = []
        for g in node.generators:
            gens.append([tsrc(g.target, occ), xsrc(g.iter, occ), _fold([xsrc(c, occ) for c in g.ifs])])
        return ["k", elt, gens]
    if isinstance(node, ast.IfExp):          # ExprIfExp's field order: body, test, orelse
        return _fold([xsrc(node.body, occ), xsrc(node.test, occ), xsrc(node.orelse, occ)])
    kids = []
    for ch in ast.iter_child_nodes(node):
        if isinstance(ch, ast.keyword):
            kids.append(xsrc(ch.value, occ))
        elif isinstance(ch, ast.expr):
            kids.append(xsrc(ch, occ))
    return _fold(kids)


# ------------------------------------------------------------------------------------------------ the scopes, derived from the source text
def src_scopes(g, files):
    """Second abstraction of the frame chain: scope path -> {kind, name, parent, mod, stmts (binding statements in source order, as the
    model's stmt), inst (names bound as instance attributes in __init__: members for Griffe, nothing for Python), params, carriers}."""
    out = {}

    def tnames(t):
        if isinstance(t, ast.Name):
            return [t.id]
        if isinstance(t, (ast.Tuple, ast.List)):
            return [n for e in t.elts for n in tnames(e)]
        if isinstance(t, ast.Starred):
            return tnames(t.value)
        return []

    def drop(path):        # a re-bound name: the scope of the earlier class / __init__ of that name is gone
        for q in [q for q in out if q == path or q.startswith(path + ".")]:
            del out[q]

    def scope(path, kind, name, parent, m, body, params=()):
        sc = out[path] = {"kind": kind, "name": name, "parent": parent, "mod": m, "stmts": [], "inst": set(), "params": list(params), "nodes": {}}

        def visit(nodes):
            for n in nodes:
                if isinstance(n, (ast.Assign, ast.AnnAssign)):
                    for t in (n.targets if isinstance(n, ast.Assign) else [n.target]):
                        if kind == "function":
                            if isinstance(t, ast.Attribute) and isinstance(t.value, ast.Name) and t.value.id == "self":
                                drop(parent + "." + t.attr)
                                out[parent]["stmts"].append(["bind", t.attr])
                                out[parent]["inst"].add(t.attr)
                                out[parent]["nodes"][t.attr] = n
                        else:
                            for nm in tnames(t):
                                drop(path + "." + nm)
                                sc["stmts"].append(["bind", nm])
                                sc["nodes"][nm] = n
                elif isinstance(n, (ast.FunctionDef, ast.AsyncFunctionDef)):
                    drop(path + "." + n.name)
                    sc["stmts"].append(["bind", n.name])
                    sc["nodes"][n.name] = n
                    if kind == "class" and n.name == "__init__":
                        a = n.args
                        ps = [x.arg for x in a.posonlyargs + a.args] + ([a.vararg.arg] if a.vararg else []) + [x.arg for x in a.kwonlyargs] + ([a.kwarg.arg] if a.kwarg else [])
                        scope(path + ".__init__", "function", "__init__", path, m, n.body, ps)
                elif isinstance(n, ast.ClassDef):
                    drop(path + "." + n.name)
                    sc["stmts"].append(["bind", n.name])
                    sc["nodes"][n.name] = n
                    scope(path + "." + n.name, "class", n.name, path, m, n.body)
                elif isinstance(n, ast.Import):
                    for a in n.names:
                        sc["stmts"].append(["import", a.name.split("."), [a.asname] if a.asname else []])
                        drop(path + "." + _binds(sc["stmts"][-1]))
                elif isinstance(n, ast.ImportFrom):
                    for a in n.names:
                        sc["stmts"].append(["from", n.level, [n.module] if n.module else [], a.name, [a.asname] if a.asname else []])
                        drop(path + "." + _binds(sc["stmts"][-1]))
                elif isinstance(n, ast.Try):
                    visit(n.body)
                    for h in n.handlers:
                        visit(h.body)
                    visit(n.orelse)
                    visit(n.finalbody)
        visit(body)
        return sc

    for m in g.all_mods:
        tree = ast.parse(files[m.relfile])
        parent = ".".join(m.comps[:-1]) if len(m.comps) > 1 else None
        sc = scope(m.dotted, "module", m.comps[-1], parent, m, tree.body)
        sc["future"] = any(isinstance(n, ast.ImportFrom) and n.module == "__future__" and any(a.name == "annotations" for a in n.names) for n in tree.body)
    for m in g.all_mods:      # the loader attaches the submodules last (shadowing a same-named member)
        for sub in sorted(g.submodule_names(m)):
            out[m.dotted]["stmts"].append(["bind", sub])
    return out


def src_chain(scopes, members, path):
    frames = []
    while path is not None:
        sc = scopes[path]
        frames.append([sc["kind"], sc["name"], members[path], sc["params"] if sc["kind"] == "function" else []])
        path = sc["parent"]
    return frames


def norm_chain(chain):
    return [[k, n, sorted(ms), ps] for k, n, ms, ps in chain]


def site_nodes(s, scopes):
    """The ast expression node(s) of a generated site, found through its carrier statement."""
    k, i = s["kind"], s["id"]
    n = scopes[s["scope"]]["nodes"].get(CARRIER[k] + str(i))
    if n is None:
        return []
    if k == "ann":
        return [n.annotation]
    if k in ("val", "init", "comp", "lam", "xval", "xinit"):
        return [n.value]
    if k == "base":
        return [n.bases[0]]
    if k == "deco":
        return [n.decorator_list[0]]
    if k in ("default", "xdef"):
        return [n.args.defaults[-1]]
    return [n.args.args[1].annotation, n.returns]


FAM = {"LOAD_NAME": "NAME", "LOAD_GLOBAL": "GLOBAL", "LOAD_FAST": "FAST", "LOAD_FAST_CHECK": "FAST", "LOAD_FAST_AND_CLEAR": "FAST",
       "LOAD_DEREF": "FAST", "LOAD_CLOSURE": "FAST", "STORE_FAST": "FAST", "STORE_DEREF": "FAST",
       "LOAD_FROM_DICT_OR_DEREF": "CLASSDEREF", "LOAD_FROM_DICT_OR_GLOBALS": "DICTGLOBALS", "LOAD_CLASSDEREF": "CLASSDEREF",
       "STORE_NAME": "NAME", "STORE_GLOBAL": "GLOBAL"}


def instruction_map(src, filename):
    """(line, col, end col, identifier) -> load/store instruction families the compiler chose for that identifier."""
    import warnings
    out = {}
    with warnings.catch_warnings():
        warnings.simplefilter("ignore")
        stack = [compile(src, filename, "exec", dont_inherit=True)]
    while stack:
        co = stack.pop()
        for ins in dis.get_instructions(co):
            if ins.opname in FAM and isinstance(ins.argval, str) and ins.positions is not None and ins.positions.lineno is not None:
                q = ins.positions
                out.setdefault((q.lineno, q.col_offset, q.end_col_offset, ins.argval), set()).add(FAM[ins.opname])
        stack += [c for c in co.co_consts if hasattr(c, "co_code")]
    return out


def cp_binding(fam, scope_kind, name, ns_scope, ns_module):
    """What CPython binds: (set of admissible py_where answers, description of the object) from the load instruction the compiler
    chose and the final namespaces of the scopes (flow-insensitive reading)."""
    local = ({"local", "param", "function"}, ["local"])
    in_class = scope_kind == "class" and name in ns_scope
    glob = ({"module"}, ns_module[name]) if name in ns_module else ({"unbound"}, ["unbound"])
    if fam == "FAST":
        return local
    if fam in ("NAME", "DICTGLOBALS"):
        return ({"class"}, ns_scope[name]) if in_class else glob
    if fam == "GLOBAL":
        return glob
    if fam == "CLASSDEREF":
        return ({"class"}, ns_scope[name]) if in_class else local
    return (set(), ["unknown-instruction"])


# ------------------------------------------------------------------------------------------------ checks
def run_oracle(ctx, jobs):
    d = ctx.scratch
    (d / "oracle.py").write_text(ORACLE)
    (d / "job.json").write_text(json.dumps({"packages": jobs}))
    env = {k: v for k, v in os.environ.items() if k not in ("PYTHONPATH",)}
    env["PYTHONHASHSEED"] = "0"
    env["PYTHONDONTWRITEBYTECODE"] = "1"
    p = subprocess.run([sys.executable, "-S", str(d / "oracle.py"), str(d / "job.json"), str(d / "out.json")],
                       capture_output=True, text=True, timeout=600, env=env)
    if p.returncode != 0:
        raise RuntimeError("oracle subprocess failed: " + p.stderr[-800:])
    return json.loads((d / "out.json").read_text())


def norm_model_path(p):
    return p


def check_clean_packages(ctx, n, tag, rebind=False):
    """Generate n packages, run Griffe + model on all, CPython on all (one subprocess), compare."""
    import griffe
    prepared = []
    for i in range(n):
        root = f"{tag}{i}"
        g = Gen(ctx.rng, root, rebind=rebind).build()
        files = g.files()
        g.twin_files = g.files(twin=True)
        d = ctx.scratch / f"{tag}{i}_dir"
        for rel, text in files.items():
            f = d / root / rel
            f.parent.mkdir(parents=True, exist_ok=True)
            f.write_text(text)
        prepared.append((g, files, d))
    jobs = []
    gr = []
    for g, files, d in prepared:
        case = {"root": g.root, "files": files}
        try:
            info = griffe_side(ctx, g, d, files)
        except Exception as e:  # noqa: BLE001
            import traceback
            ctx.property_failure(case, {"griffe raised while loading/resolving": traceback.format_exc()[-1200:]})
            info = None
        gr.append(info)
        paths = sorted(info["paths"]) if info else []
        jobs.append({"root": g.root, "dir": str(d), "modules": [m.dotted for m in g.all_mods],
                     "inits": [] if rebind else [[c.mod.dotted, c.qual] for m in g.all_mods for c in g.walk_classes(m.scope) if c.init is not None],
                     "paths": paths,
                     "bindings": [[r["module_dotted"], r["qual"], r["bound"]] for r in g.imports],
                     "scopes": [[sc["mod"].dotted, path[len(sc["mod"].dotted) + 1:]] for path, sc in (info["scopes"].items() if info else [])
                                if sc["kind"] != "function"]})
    results = run_oracle(ctx, jobs)
    for (g, files, d), info, res in zip(prepared, gr, results):
        ctx.observe("package_status" + ("_rebind" if rebind else ""), " ".join(res["status"].split(":")[:2]))
        ctx.observe("modules_per_package", len(g.all_mods))
        if info is None:
            continue
        if res["status"] != "ok":
            ctx.count("packages_discarded_not_importable")
            continue
        ctx.count("packages_compared" + ("_rebind" if rebind else ""))
        compare_package(ctx, g, files, info, res)
        if ctx.rng.random() < 0.35:
            try:
                check_reloaded(ctx, g, files, info)
            except Exception:  # noqa: BLE001
                import traceback
                ctx.property_failure({"root": g.root, "files": files, "reloaded": True},
                                     {"griffe raised while dumping / reloading / resolving": traceback.format_exc()[-1200:]})
        if not rebind and ctx.rng.random() < 0.4:
            try:
                check_stub_variant(ctx, g, files, info, d)
            except Exception:  # noqa: BLE001
                import traceback
                ctx.property_failure({"root": g.root, "files": files, "stub_variant": True},
                                     {"griffe raised while loading/resolving the stub-merged package": traceback.format_exc()[-1200:]})


# --- reloaded trees (JSON entry point): every identifier of every stored expression keeps its path
class _Reloaded:
    def __init__(self, root, module):
        self.root, self.module = root, module

    def __getitem__(self, path):
        return self.module if path == self.root else self.module[path[len(self.root) + 1:]]


def check_reloaded(ctx, g, files, info):
    """The tree just compared with CPython, dumped with as_json and decoded again: the decoder re-attaches the scopes
    (_attach_parent_to_expr).  Every name of every site expression - attribute parts included: only the root of a chain is looked
    up in the scope - must have the canonical path it had before the dump."""
    import griffe
    top = info["coll"][g.root]
    re_ = _Reloaded(g.root, griffe.Module.from_json(top.as_json()))
    case = {"root": g.root, "files": files, "reloaded": True}
    ctx.count("reloaded_packages")

    v = V()
    todo, queries = [], []
    scs = {c.path: c for m in g.all_mods for c in g.walk_classes(m.scope)}
    for s in g.sites:
        # the decoder attaches the expressions of an object to the object's parent scope: for the value of an instance attribute
        # that is the class, not the __init__ Function the visitor used (parameters, local imports are out of reach)
        true_scope = info["coll"][s["scope"]]
        for a, b in zip(site_expr(info["coll"], s), site_expr(re_, s)):
            if not isinstance(a, griffe.Expr) or not isinstance(b, griffe.Expr):
                continue
            oa, ob = [], []
            xl = xlive(a, oa)
            xlive(b, ob)
            # what the decoder does: every name is attached to the object again (no local names, no function scopes): the builders
            # without the repairs of C04-F3 / F4, over the form of the walk the tree has
            queries.append(["expr", [v[0], False, False], abstract_chain(true_scope), xl])
            todo.append((s, a, b, oa, ob))
    outs = ctx.model(queries)
    for (s, a, b, oa, ob), mo in zip(todo, outs):
        rows = mo[0]
        roots_a, roots_b = [[n.name, n.canonical_path] for n in oa], [[n.name, n.canonical_path] for n in ob]
        ids_a, ids_b = {id(n) for n in oa}, {id(n) for n in ob}
        chained = lambda n: "chained" if isinstance(n.parent, (griffe.ExprName, str, type(None))) else "attached to " + type(n.parent).__name__
        parts_a = [[n.name, chained(n)] for n in a.iterate(flat=True) if isinstance(n, griffe.ExprName) and id(n) not in ids_a]
        parts_b = [[n.name, chained(n)] for n in b.iterate(flat=True) if isinstance(n, griffe.ExprName) and id(n) not in ids_b]
        ctx.case({"root": g.root, "reloaded_site": s["id"], "src": files_digest(files)}, any(x != y for x, y in roots_a))
        site = {k: w for k, w in s.items() if k not in ("g", "xs")}
        if parts_a != parts_b:       # attribute parts: never looked up in a scope, before or after
            ctx.observe("reloaded_site", "attribute-part-differs")
            ctx.property_failure({**case, "site": site}, {"expression": str(a), "attribute parts after reload": parts_b, "before": parts_a})
            continue
        if roots_a == roots_b:
            ctx.observe("reloaded_site", "same")
            continue
        # C04-F9: the members of a Function (imports local to __init__) do not survive the round trip
        local_imports = {n for n, _ in getattr(scs.get(s["scope"]), "init_imports", [])} if s["kind"] in ("init", "xinit") else set()
        if local_imports and len(roots_a) == len(roots_b) and all(x[0] in local_imports for x, y in zip(roots_a, roots_b) if x != y) \
                and not re_[s["scope"] + ".__init__"].members and info["coll"][s["scope"] + ".__init__"].members:
            ctx.observe("reloaded_site", "C04-F9")
            ctx.property_failure({**case, "site": site}, {"expression": str(a), "after_reload": roots_b, "before": roots_a}, finding="C04-F9")
            continue
        # C04-F8 only if the model of "every name attached to the object again" reproduces the reloaded tree exactly
        f8 = [[r[0], r[1]] for r in rows] == roots_b
        ctx.observe("reloaded_site", "C04-F8" if f8 else "differs")
        ctx.property_failure({**case, "site": site},
                             {"expression": str(a), "after_reload": roots_b, "before (compared with CPython above)": roots_a,
                              "model (builders without local names / function scopes)": [[r[0], r[1]] for r in rows]},
                             finding="C04-F8" if f8 else None)


# --- stub-merged trees: the module text moves to a sibling .pyi, the .py keeps a part of it (stub-only classes / functions / imports)
def check_stub_variant(ctx, g, files, info, d):
    """The package just compared with CPython is the reference (its module text is the stub's).  Variant: for some modules the
    whole text becomes `mod.pyi` and `mod.py` keeps only some of its top-level statements, so that classes, functions, attributes
    and imports exist in the stubs only.  Every identifier of every expression written in the stubs (all expressions of stub-only
    objects, the annotations merged into objects defined on both sides) must get the path it has in the reference tree: the scope
    of a stubs file is that file's module, wherever the merge moves its objects."""
    import griffe
    rng = ctx.rng
    vfiles, dropped = dict(files), {}
    for m in g.all_mods:
        if rng.random() < (0.3 if m.is_init else 0.7):
            src = files[m.relfile]
            tree = ast.parse(src)
            lines = src.split("\n")
            keep, gone = [], set()
            for node in tree.body:
                first = min([node.lineno] + [x.lineno for x in getattr(node, "decorator_list", [])])
                seg = lines[first - 1:node.end_lineno]
                is_future = isinstance(node, ast.ImportFrom) and node.module == "__future__"
                pdrop = 0.0 if is_future else 0.5 if isinstance(node, (ast.Import, ast.ImportFrom, ast.ClassDef)) else 0.3
                if rng.random() < pdrop:
                    for sub in ast.walk(node) if isinstance(node, ast.Try) else [node]:
                        if isinstance(sub, (ast.ClassDef, ast.FunctionDef)):
                            gone.add(sub.name)
                        elif isinstance(sub, (ast.Assign, ast.AnnAssign)):
                            for t in (sub.targets if isinstance(sub, ast.Assign) else [sub.target]):
                                if isinstance(t, ast.Name):
                                    gone.add(t.id)
                    if isinstance(node, ast.Try):      # only what the try binds at the top level of the module
                        gone -= {x.name for c in ast.walk(node) if isinstance(c, ast.ClassDef) for x in ast.walk(c) if x is not c and isinstance(x, (ast.ClassDef, ast.FunctionDef))}
                    continue
                keep += seg
            vfiles[m.relfile] = "\n".join(keep) + "\n"
            vfiles[m.relfile + "i"] = src
            dropped[m.dotted] = gone
    if not dropped:
        return
    vd = ctx.scratch / (g.root + "_stubs")
    for rel, text in vfiles.items():
        f = vd / g.root / rel
        f.parent.mkdir(parents=True, exist_ok=True)
        f.write_text(text)
    loader, pkg = load_package(g.root, vd)
    mcoll, rcoll = loader.modules_collection, info["coll"]
    case = {"root": g.root, "files": vfiles, "stub_variant": True}
    ctx.count("stub_variants")

    def idents(e):
        occ = []
        xlive(e, occ)
        return [[n.name, n.canonical_path] for n in occ]

    # member tables of the two texts (model fold over their binding statements), without the submodules the loader attaches
    class _G:
        all_mods = [m for m in g.all_mods if m.dotted in dropped]
        submodule_names = staticmethod(g.submodule_names)
    py_scopes = src_scopes(_G, {m.relfile: vfiles[m.relfile] for m in _G.all_mods})
    tabs = {}
    qs = []
    for m in _G.all_mods:
        for sc in (py_scopes[m.dotted], info["scopes"][m.dotted]):
            nsub = len(g.submodule_names(m))
            st = sc["stmts"][:len(sc["stmts"]) - nsub] if nsub else sc["stmts"]
            qs.append(["stmts", m.comps, m.is_init, m.dotted, st])
    outs = ctx.model(qs)
    for k, m in enumerate(_G.all_mods):
        tabs[m.dotted] = (outs[2 * k][0], outs[2 * k + 1][0], sorted(g.submodule_names(m)))
    squeries, smeta, todo = [], [], []

    def model_queries(m, me, re_, robj, stub_only):
        """One query per identifier whose scope chain reaches the module: where does the chain end (stubs module / merged module)."""
        mocc, rocc = [], []
        xlive(me, mocc)
        xlive(re_, rocc)
        if len(mocc) != len(rocc):
            return
        concrete = mcoll[m.dotted]
        for a, b in zip(mocc, rocc):
            o = a.parent
            if o is None or isinstance(o, (str, griffe.ExprName)):
                continue
            chain = abstract_chain(o)
            top = o
            k = 0
            while not top.is_module:
                top, k = top.parent, k + 1
            if top.path != m.dotted:
                continue
            moved = top is concrete
            C, S, subs = tabs[m.dotted]
            squeries.append(["stub", V(), chain[:k], [chain[k][0], chain[k][1], [], []], chain[k + 1:], subs, C, S, a.name, moved])
            smeta.append((m, a, b, robj, stub_only, moved))

    for m in g.all_mods:
        if m.dotted not in dropped:
            continue
        for robj in all_objects(rcoll[m.dotted]):
            if robj.is_module:
                continue
            top = robj.path[len(m.dotted) + 1:].split(".")[0]
            stub_only = top in dropped[m.dotted]
            try:
                mobj = mcoll[robj.path]
            except KeyError:
                if CARRIER_RE.match(robj.name) and robj.parent.kind.value == "class" and robj.name[0] in "ab":
                    continue       # instance attribute of a class whose __init__ exists in the stubs only: not created from stubs
                ctx.property_failure({**case, "object": robj.path}, {"stub-merged tree lacks an object declared in the stubs": robj.path})
                continue
            if mobj.is_alias or mobj.kind is not robj.kind:
                ctx.observe("stub_object", "kind-differs")
                continue
            k = robj.kind.value
            if stub_only:
                pairs = list(zip(object_exprs(robj), object_exprs(mobj)))
            elif k == "attribute":
                pairs = [(robj.annotation, mobj.annotation)]
            elif k == "function":
                pairs = [(robj.returns, mobj.returns)] + [(a.annotation, b.annotation) for a, b in zip(robj.parameters, mobj.parameters)]
            else:
                pairs = []
            for re_, me in pairs:
                if re_ is None or me is None or isinstance(re_, str) or isinstance(me, str):
                    continue
                model_queries(m, me, re_, robj, stub_only)
                todo.append((m, robj, stub_only, k, re_, me))
    # ---- the model: stubs scope / merged scope / reference scope of every identifier whose chain reaches the stubbed module
    souts = ctx.model(squeries)
    if len(getattr(ctx, "_xq", [])) < 100:
        ctx._xq = getattr(ctx, "_xq", []) + squeries[:4]
    explained = {}          # id(ExprName of the merged tree) -> the model's F7 verdict
    checked_members = set()
    for q, (m, a, b, robj, stub_only, moved), (m_got, m_ref, gap, merged_ms) in zip(squeries, smeta, souts):
        ctx.observe("stub_scope", ("merged-module" if moved else "stubs-module") + (":gap" if gap else ""))
        if m_got != a.canonical_path:
            ctx.tie_failure("correspondence", "stub scope (model: stub_frame / merged_frame + walk) vs ExprName.canonical_path on the stub-merged tree",
                            {"model": m_got, "impl": a.canonical_path, "name": a.name, "object": robj.path, "moved": moved}, case)
        if m_ref != b.canonical_path:
            ctx.tie_failure("oracle", "reference scope (model: reference_frame + walk) vs ExprName.canonical_path on the reference tree",
                            {"model": m_ref, "reference": b.canonical_path, "name": a.name, "object": robj.path}, case)
        if gap == 0 and m_got != m_ref:
            ctx.tie_failure("proof", "C04_stub_scope_kept / C04_stub_scope_moved contradicted by the extracted model", {"query": q}, case)
        explained[id(a)] = (gap == 1 and not moved and m_got == a.canonical_path and m_ref == b.canonical_path)
        if m.dotted not in checked_members:
            checked_members.add(m.dotted)
            live = sorted([k2, [x.target_path] if x.is_alias else []] for k2, x in mcoll[m.dotted].members.items())
            if sorted(merged_ms) != live:
                ctx.tie_failure("correspondence", "merged_frame (model: attach subs (merge_ms C S)) vs the members of the stub-merged module",
                                {"module": m.dotted, "model": sorted(merged_ms), "impl": live}, case)
    for m, robj, stub_only, k, re_, me in todo:
        want, got = idents(re_), idents(me)
        ctx.case({"root": g.root, "stub": robj.path, "expr": str(re_), "src": files_digest(vfiles)}, any(a != b for a, b in want))
        ctx.observe("stub_object", ("stub-only:" if stub_only else "both:") + k)
        if want != got:
            # C04-F7 only by the model's verdict (gap_stub_kept) on every differing identifier, the model reproducing both trees
            mocc = []
            xlive(me, mocc)
            f7 = len(want) == len(got) == len(mocc) and all(explained.get(id(nm), False) for nm, x, y in zip(mocc, want, got) if x != y)
            ctx.observe("stub_mismatch", "C04-F7" if f7 else "differs")
            ctx.property_failure({**case, "object": robj.path, "stub_only": stub_only},
                                 {"expression": str(re_), "griffe_on_stub_merged_tree": got,
                                  "reference (module text = stub text, compared with CPython above)": want},
                                 finding="C04-F7" if f7 else None)
        else:
            ctx.observe("stub_mismatch", "none")


def griffe_side(ctx, g, d, files):
    """Load the package, query Griffe and the model for every site and import; returns what is needed for the comparison."""
    import griffe
    loader, pkg = load_package(g.root, d)
    coll = loader.modules_collection
    case = {"root": g.root, "files": files}
    v = V()
    # ---- phase A: the scopes from the source text; their member tables through the model's fold over the binding statements
    scopes = src_scopes(g, files)
    order = list(scopes)
    souts = ctx.model([["stmts", scopes[q]["mod"].comps, scopes[q]["mod"].is_init, q, scopes[q]["stmts"]] for q in order])
    members, pmembers = {}, {}
    for q, (gm, pm) in zip(order, souts):
        members[q] = gm
        pmembers[q] = pm[0] if pm else None
    for q in order:
        sc = scopes[q]
        live = coll[sc["parent"]].members["__init__"] if sc["kind"] == "function" else coll[q]
        a, b = norm_chain(abstract_chain(live)), norm_chain(src_chain(scopes, members, q))
        ctx.observe("scope_abstraction", "same" if a == b else "differ")
        if a != b:
            ctx.tie_failure("correspondence", "frame chain from the live tree vs frame chain derived from the source text (model g_members)",
                            {"scope": q, "live": a[0], "source": b[0]} if a[0] != b[0] else {"scope": q, "live": a, "source": b}, case)
    # ---- phase B
    queries = []
    meta = []
    paths = set()
    twin_scopes = src_scopes(g, g.twin_files)
    twin_targets = {m.dotted: {t.id for c2 in ast.walk(ast.parse(g.twin_files[m.relfile])) if isinstance(c2, ast.comprehension)
                               for t in ast.walk(c2.target) if isinstance(t, ast.Name)} for m in g.all_mods}
    for s in g.sites:
        exprs = site_expr(coll, s)
        s["g"], s["xs"] = [], []
        true_scope = coll[s["scope"]]
        true_path = s["scope"]
        if s["kind"] in ("init", "xinit"):
            true_scope = true_scope.members["__init__"]
            true_path += ".__init__"
        # whole expressions: live abstraction (positional with the ExprNames), source abstraction (positional with the twin's ast.Names)
        nodes, tnodes = site_nodes(s, scopes), site_nodes(s, twin_scopes)
        ann = s["kind"] in ("ann", "pann") and not scopes[s["module"]].get("future")
        for k, expr in enumerate(exprs):
            occ = []
            xl = xlive(expr, occ)
            rec = {"occ": occ, "xl": xl}
            queries.append(["expr", v, abstract_chain(true_scope), xl])
            meta.append(("x-live", s, rec, None))
            if k < len(nodes) and k < len(tnodes):
                socc, tocc = [], []
                xs = xsrc(nodes[k], socc, ann)
                xsrc(tnodes[k], tocc, False)
                rec["tocc"] = tocc
                rec["targets"] = twin_targets[s["module"]]
                queries.append(["expr", v, src_chain(scopes, members, true_path), xs])
                meta.append(("x-src", s, rec, None))
            else:
                ctx.tie_failure("harness", "site expression not found in the source text", {"site": s["id"], "kind": s["kind"]}, case)
            s["xs"].append(rec)
        if s["kind"] == "deco":
            queries.append(["deco", v, abstract_chain(true_scope), s["root"], s["segs"], s.get("calls", 0)])
            meta.append(("deco", s, coll[s["scope"] + ".d" + str(s["id"])].decorators[0], None))
        if g.rebind:
            continue
        for expr in exprs:
            if s["kind"] in ("xval", "xdef", "xinit"):
                continue
            loc = local_binders(expr)
            names, attrs = [], []
            walk_exprs(expr, names, attrs)
            if s["kind"] in ("comp", "lam"):
                occ = [nm for nm in names if nm.name == s["root"]]
                for nm in occ:
                    queries.append(["resolve2", v, abstract_chain(nm.parent), nm.name, id(nm) in loc])
                    meta.append(("site-root", s, nm, None))
                continue
            if s["segs"]:
                at = attrs[0]
                rootn = at.values[0]
                queries.append(["attr2", v, abstract_chain(rootn.parent), rootn.name, [x.name for x in at.values[1:]]])
                meta.append(("site-attr", s, at, None))
            else:
                rootn = names[0]
            queries.append(["resolve2", v, abstract_chain(rootn.parent), rootn.name, False])
            meta.append(("site-root", s, rootn, expr))
            # the scope the site was generated in (spec side and gap verdicts do not depend on where Griffe attached the expression)
            if rootn.parent is not true_scope:
                queries.append(["resolve2", v, abstract_chain(true_scope), rootn.name, False])
                meta.append(("site-true", s, rootn, None))
                ctx.count("sites_attached_to_another_scope")
    for r in g.imports:
        m = r["module_dotted"].split(".")
        if r["form"] == "import":
            queries.append(["import", r["comps"], [r["asname"]] if r["asname"] else []])
        else:
            queries.append(["from", m, r["is_init"], r["scope"], r["level"], [r["module"]] if r["module"] else [], r["name"],
                            [r["asname"]] if r["asname"] else []])
        meta.append(("import", r, None, None))
    outs = ctx.model(queries)
    if not hasattr(ctx, "_xq"):
        ctx._xq = []
    if len(ctx._xq) < 80:
        ctx._xq += [q for q in queries if q[0] in ("expr", "resolve2", "attr2", "from", "deco")][:8] + [["stmts", scopes[q]["mod"].comps, scopes[q]["mod"].is_init, q, scopes[q]["stmts"]] for q in order[:1]]
    info = {"paths": paths, "sites": {}, "imports": [], "scopes": scopes, "members": members, "pmembers": pmembers, "coll": coll}
    for q, (what, s, node, expr), mo in zip(queries, meta, outs):
        if what == "x-live":
            rec = node
            rows, wf, gap, nofun = mo
            if wf != 1:
                ctx.tie_failure("harness", "generated scope chain is not well-formed for the model", {"scope": s["scope"], "chain": q[2]})
            rec["rows"], rec["gap"], rec["nofun"] = rows, gap, nofun
            rec["res"] = [bool(impl_resolve(nm.parent, nm.name)) if not isinstance(nm.parent, (str, griffe.ExprName)) else True for nm in rec["occ"]]
            impl = [[nm.name, nm.canonical_path] for nm in rec["occ"]]
            if [[r[0], r[1]] for r in rows] != impl:
                ctx.tie_failure("correspondence", "g_names(model: builders + walk) vs ExprName.canonical_path of every identifier of the stored expression",
                                {"model": [[r[0], r[1]] for r in rows], "impl": impl, "expr": s["expr"], "scope": s["scope"], "variant": v}, case)
                rec["c_ok"] = False
            else:
                rec["c_ok"] = True
            for r in rows:
                ctx.observe("x_tag", r[2])
                ctx.observe("x_pyclass", r[4] + (":nested" if r[5] == "1" else ""))
                paths.add(r[1])
                paths.add(r[3])
            ctx.observe("x_identifiers", min(len(rows), 12))
        elif what == "x-src":
            rec = node
            rec["srows"] = mo[0]
            a = sorted(map(tuple, rec.get("rows") or []))
            b = sorted(map(tuple, mo[0]))
            ctx.observe("expr_abstraction", "same" if a == b else "differ")
            if a != b:
                ctx.tie_failure("correspondence", "expression abstracted from the live tree vs from the source text (per identifier results of the model)",
                                {"live": rec.get("rows"), "source": mo[0], "expr": s["expr"], "scope": s["scope"]}, case)
        elif what == "site-root":
            scope = node.parent
            impl = impl_resolve(scope, node.name)
            canon = node.canonical_path
            m_res, m_tag, m_py, m_wf, m_canon, m_pycanon, g1, g3, g1f = mo
            if m_res != impl or m_canon != canon:
                ctx.tie_failure("correspondence", "resolve/canonical(model) vs Object.resolve/ExprName.canonical_path",
                                {"model": [m_res, m_canon], "impl": [impl, canon], "name": node.name, "scope": getattr(scope, "path", None), "variant": v}, case)
            if m_wf != 1:
                ctx.tie_failure("harness", "generated scope chain is not well-formed for the model", {"scope": getattr(scope, "path", None), "chain": q[2]})
            ctx.observe("model_tag", m_tag)
            ctx.observe("scope_kind", scope.kind.value if scope is not None else "none")
            ctx.observe("chain_length", len(q[2]))
            rec = {"name": node.name, "canon": canon, "full": expr.canonical_path if expr is not None else canon, "res": impl,
                   "py": m_py, "pycanon": m_pycanon, "tag": m_tag, "gaps": [g1, g3], "local": bool(q[4]), "gap_fixed": g1f}
            s["g"].append(rec)
            for p in (canon, rec["full"], m_pycanon):
                paths.add(strip_param(p))
        elif what == "site-true":
            rec = s["g"][-1]
            rec["py"], rec["pycanon"], rec["tag"], rec["gaps"], rec["gap_fixed"] = mo[2], mo[5], mo[1], [mo[6], mo[7]], mo[8]
            paths.add(mo[5])
        elif what == "deco":
            ctx.observe("decorator_calls", s.get("calls", 0))
            if mo != node.callable_path:
                ctx.tie_failure("correspondence", "callable_path_v(model) vs Decorator.callable_path",
                                {"model": mo, "impl": node.callable_path, "decorator": str(node.value), "scope": s["scope"]}, case)
        elif what == "site-attr":
            at = node
            impl = [at.canonical_path, [x.canonical_path for x in at.values]]
            if mo != impl:
                ctx.tie_failure("correspondence", "attr_canonical(model) vs ExprAttribute.canonical_path", {"model": mo, "impl": impl}, case)
            ctx.observe("chain_segments", len(at.values))
        else:
            r = s
            scope = coll[r["scope"]]
            name = r["bound"]
            mem = scope.members.get(name)
            imp = scope.imports.get(name)
            if r["form"] == "import":
                gname, gpath, pname, ppath = mo
                want = ["alias", gname, gpath]
                spec = [pname, ppath]
            else:
                want, spec = mo
            if mem is not None and mem.is_alias:
                got = ["alias", name, mem.target_path]
            elif imp is not None:
                got = ["imports-only", name, imp]
            else:
                got = ["skip"]
            if got[0] != "skip" and imp != got[2]:
                got = ["inconsistent", name, imp, got[2]]
            # re-binding stream: one statement is compared by itself only when it is the only one binding the name in its scope
            # (the complete member tables are compared with the model's fold over all statements in phase A)
            last = not g.rebind or [st for st in scopes[r["scope"]]["stmts"] if _binds(st) == name] == [_stmt_of(r)]
            if want != got and last:
                ctx.tie_failure("correspondence", "visit_import/visit_importfrom(model) vs alias members recorded by the visitor",
                                {"model": want, "impl": got, "stmt": r["text"], "scope": r["scope"]}, case)
            ctx.observe("import_outcome", got[0] if last else "rebound-later")
            ctx.observe("import_form", r["form"] + (":level%d" % r["level"] if r["form"] == "from" else "") + (":as" if r["asname"] else ""))
            # path CPython should evaluate for the direct check: the alias target, or the member of that name when no alias was made
            gp = got[2] if got[0] in ("alias", "imports-only") else (scope.members[name].path if name in scope.members else
                                                                      (scope.module.members[name].path if name in scope.module.members else None))
            info["imports"].append({"rec": r, "griffe_path": gp, "spec": spec, "last": last})
            if gp:
                paths.add(gp)
            if spec:
                paths.add(spec[1])
    # the member tables: paths for the per-name comparison with CPython's final namespaces
    for q in order:
        sc = scopes[q]
        if sc["kind"] == "function":
            continue
        live = coll[q]
        for name, mm in (pmembers[q] or []):
            paths.add(mm[0] if mm else q + "." + name)
        for name, m2 in live.members.items():
            paths.add(m2.target_path if m2.is_alias else m2.path)
    return info


def silent_names(info, q):
    """Names CPython binds in scope q through a from-import for which the visitor records no alias (model: p_members vs g_members)."""
    pm, gm = info["pmembers"].get(q), info["members"].get(q)
    if pm is None or gm is None:
        return set()
    return {n for n, _ in pm} - {n for n, _ in gm}


def _binds(st):
    if st[0] == "bind":
        return st[1]
    if st[0] == "import":
        return st[2][0] if st[2] else st[1][0]
    return st[4][0] if st[4] else st[3]


def _stmt_of(r):
    if r["form"] == "import":
        return ["import", r["comps"], [r["asname"]] if r["asname"] else []]
    return ["from", r["level"], [r["module"]] if r["module"] else [], r["name"], [r["asname"]] if r["asname"] else []]


def strip_param(p):
    return p


def norm_desc(d):
    if d is None:
        return ("none",)
    if d[0] == "obj":
        return ("obj", d[1])
    if d[0] in ("unbound", "builtin", "local", "unchanged", "param"):
        return ("none",)
    return tuple(d)


def griffe_desc(resolved, canon, pathdesc):
    """What the path Griffe returned stands for, evaluated by CPython (unchanged identifier / parameter notation: no object)."""
    if not resolved or (canon.endswith(")") and "(" in canon):
        return ("none",)
    d = pathdesc.get(canon)
    return norm_desc(d if d is not None else ["dangling"])


def classify(v, row):
    """Which known finding explains a disagreement of one identifier (model's Griffe side vs model's Python side)."""
    if row[6] != row[3]:
        return "C04-F6"
    if row[4] == "local":
        return None if v[1] else "C04-F3"
    if row[5] == "1":
        return None if v[2] else "C04-F4"
    return None if v[0] else "C04-F1"


def compare_package(ctx, g, files, info, res):
    rec, pathdesc, nss = res["rec"], res["paths"], res.get("namespaces", {})
    case_base = {"root": g.root, "files": files}
    scopes = info["scopes"]
    v = V()
    imaps = {}
    for m in g.all_mods:
        try:
            imaps[m.dotted] = instruction_map(g.twin_files[m.relfile], m.relfile)
        except SyntaxError as e:
            ctx.tie_failure("harness", "twin source does not compile", str(e), case_base)
            imaps[m.dotted] = {}
    # ---- every identifier of every stored expression: compiler + final namespaces (flow-insensitive), model, Griffe
    for s in g.sites:
        sk = "function" if s["kind"] in ("init", "xinit") else s["scope_kind"]
        ns_scope = nss.get(s["module"] + ":" + s["qual"], {})
        ns_module = nss.get(s["module"] + ":", {})
        for xr in s.get("xs", []):
            rows, srows, tocc = xr.get("rows"), xr.get("srows"), xr.get("tocc")
            if rows is None or srows is None or tocc is None or len(tocc) != len(srows):
                ctx.count("x_sites_incomplete")
                continue
            o_ok = True
            cp = []
            for node, row in zip(tocc, srows):
                fams = imaps[s["module"]].get((node.lineno, node.col_offset, node.end_col_offset, node.id))
                if not fams or len(fams) != 1:
                    ctx.observe("x_instruction", "not-found" if not fams else "several")
                    o_ok = False
                    continue
                fam = next(iter(fams))
                ctx.observe("x_instruction", fam + ":" + sk)
                where, d = cp_binding(fam, sk, node.id, ns_scope, ns_module)
                if fam == "FAST" and row[4] == "function":
                    # an import local to __init__: the compiler confirms a function-local, the object it holds is not observable
                    # from outside the call; the path is compared through the in-place probe of the bind-once stream
                    d = pathdesc.get(row[3], ["dangling"])
                if fam == "FAST" and row[4] not in where and node.id in xr["targets"]:
                    # CPython 3.12.0-3.12.1 compiler defect (inlined comprehensions, PEP 709): a target of a comprehension nested in the
                    # first iterable of another one leaks as a fast local into the enclosing code object (UnboundLocalError at run
                    # time; 3.10, 3.11 and 3.13 compile a global load).  The authority is wrong here: the expression is not compared.
                    ctx.observe("x_instruction", "cpython-3.12-inlining-leak")
                    o_ok = False
                    continue
                cp.append((node.id, norm_desc(d)))
                spec = griffe_desc(row[4] not in ("unbound", "local"), row[3], pathdesc)
                if row[4] not in where and spec == norm_desc(d) and where == {"class"} and node.id in silent_names(info, s["scope"]):
                    # `from . import a` written in a class body of an __init__ module: CPython binds A.a, the visitor records nothing
                    # (C04_members_last_wins, the silent_last exception); the frame lacks the name, the module supplies the same path
                    ctx.observe("x_instruction", "silent-self-import")
                elif row[4] not in where or spec != norm_desc(d):
                    o_ok = False
                    ctx.tie_failure("oracle", "p_names/p_class(model) vs the load instruction CPython compiles for the identifier + final namespaces",
                                    {"identifier": node.id, "instruction": fam, "scope_kind": sk, "model_class": row[4], "model_path": row[3],
                                     "cpython": [sorted(where), d], "expr": s["expr"], "site": s["id"], "scope": s["scope"]}, case_base)
            nontrivial = any(r[2] != "unresolved" for r in rows)
            ctx.case({"root": g.root, "site": s["id"], "kind": s["kind"], "expr": s["expr"], "scope": s["scope"], "src": files_digest(files), "x": 1}, nontrivial)
            ctx.observe("x_site_kind", s["kind"] + (":rebind" if g.rebind else ""))
            if len(cp) != len(srows):
                continue
            got = [(nm.name, griffe_desc(r, nm.canonical_path, pathdesc)) for nm, r in zip(xr["occ"], xr["res"])]
            if [a for a, _ in got] == [a for a, _ in cp]:      # both abstractions enumerate the identifiers in the same order
                bad = [k2 for k2, (a, b) in enumerate(zip(got, cp))
                       if a != b and not (xr["occ"][k2].canonical_path == a[0] and b[1] == ("none",))]   # the unchanged identifier is right whenever CPython has no path
            else:
                ctx.observe("x_order", "differs")
                bad = [0] if sorted(got) != sorted(cp) else []
            if not bad:
                ctx.observe("x_mismatch", "none")
                continue
            # Griffe disagrees with CPython on some identifier of this expression
            fid = None
            if xr.get("c_ok") and o_ok:
                ids = [classify(v, rows[k2]) if rows[k2][1] != rows[k2][3] else None for k2 in bad]
                if ids and all(ids) and xr.get("gap") == 1:
                    fid = sorted(ids)[0]
            ctx.observe("x_mismatch", fid or "UNEXPLAINED")
            ctx.property_failure({**case_base, "site": {k: w for k, w in s.items() if k not in ("g", "xs")}},
                                 {"griffe": [[nm.name, nm.canonical_path] for nm in xr["occ"]], "griffe_as_objects": got, "cpython": sorted(cp),
                                  "model_rows": rows}, finding=fid)
    # ---- member tables vs CPython's final namespaces, name by name (last binding wins)
    for q, sc in scopes.items():
        if sc["kind"] == "function" or info["pmembers"].get(q) is None:
            continue
        ns = nss.get(sc["mod"].dotted + ":" + q[len(sc["mod"].dotted) + 1:], {})
        live = info["coll"][q]
        silent = {_binds(st) for st in sc["stmts"] if st[0] == "from"}      # self-imports are compared through the member they designate
        for name, mm in info["pmembers"][q]:
            if CARRIER_RE.match(name) or name in sc["inst"] or name not in ns:
                continue
            ctx.count("namespace_names_compared")
            want = norm_desc(ns[name])
            spec = norm_desc(pathdesc.get(mm[0] if mm else q + "." + name, ["dangling"]))
            if spec != want:
                ctx.tie_failure("oracle", "p_members(model: namespace after the binding statements) vs CPython's final namespace",
                                {"scope": q, "name": name, "model": mm, "model_as_object": spec, "cpython": ns[name]}, case_base)
            m2 = live.members.get(name)
            if m2 is None:
                if name not in silent:
                    ctx.property_failure({**case_base, "scope": q, "name": name}, {"griffe": "no member", "cpython_bound": ns[name]})
                continue
            got = norm_desc(pathdesc.get(m2.target_path if m2.is_alias else m2.path, ["dangling"]))
            if got != want:
                ctx.property_failure({**case_base, "scope": q, "name": name},
                                     {"griffe_member": m2.target_path if m2.is_alias else m2.path, "griffe_as_object": got, "cpython_bound": ns[name]})
    if g.rebind:
        return
    for s in g.sites:
        r = rec.get(str(s["id"]))
        if r is None:
            if s["kind"] not in ("xval", "xdef", "xinit"):
                ctx.count("sites_not_executed")
            continue
        for gi in s["g"]:
            name = gi["name"]
            cp_root = r.get("root")
            nontrivial = gi["tag"] != "unresolved"
            ctx.case({"root": g.root, "site": s["id"], "kind": s["kind"], "expr": s["expr"], "scope": s["scope"], "src": files_digest(files)}, nontrivial)
            ctx.observe("site_kind", s["kind"])
            ctx.observe("cpython_root", cp_root[0])
            # (O) the spec model against CPython
            spec = expected_desc(gi["pycanon"], bool(gi["py"]) and not gi["local"], pathdesc)
            if not same_binding(spec, cp_root):
                ctx.tie_failure("oracle", "py_lookup(model) vs CPython evaluating the name in the referencing scope",
                                {"model_py": gi["pycanon"], "model_desc": spec, "cpython": cp_root, "site": {k: w for k, w in s.items() if k not in ("g", "xs")}}, case_base)
            # direct: Griffe vs CPython
            got = expected_desc(gi["canon"], bool(gi["res"]), pathdesc)
            ok = same_binding(got, cp_root)
            if ok and s["segs"] and "full" in r and r["full"][0] == "obj":
                gf = expected_desc(gi["full"], bool(gi["res"]), pathdesc)
                ok = same_binding(gf, r["full"])
                ctx.observe("chain_outcome", "agree" if ok else "differ")
            elif s["segs"] and "full" in r:
                ctx.observe("chain_outcome", "cpython:" + r["full"][0])
            if not ok:
                g1, g3 = gi["gaps"]
                fid = ("C04-F6" if gi["gap_fixed"] else "C04-F1") if g1 else "C04-F3" if g3 else None
                ctx.observe("mismatch", fid or "UNEXPLAINED")
                ctx.property_failure({**case_base, "site": {k: w for k, w in s.items() if k not in ("g", "xs")}},
                                     {"griffe": gi["canon"], "griffe_full": gi["full"], "griffe_as_object": got, "cpython": r, "model_tag": gi["tag"]}, finding=fid)
            else:
                ctx.observe("mismatch", "none")
    # import statements
    for b, imp in zip(res["bindings"], info["imports"]):
        r = imp["rec"]
        spec_desc = pathdesc.get(imp["spec"][1]) if imp["spec"] else None
        if imp["spec"] and (imp["spec"][0] != r["bound"] or spec_desc != b):
            ctx.tie_failure("oracle", "cpython_import/cpython_importfrom(model) vs the object CPython bound",
                            {"model": imp["spec"], "model_as_object": spec_desc, "cpython": b, "stmt": r["text"], "scope": r["scope"]}, case_base)
        gd = pathdesc.get(imp["griffe_path"]) if imp["griffe_path"] else ["none"]
        ctx.count("import_bindings_compared")
        if gd != b:
            ctx.property_failure({**case_base, "import": r}, {"griffe_target": imp["griffe_path"], "griffe_as_object": gd, "cpython_bound": b})


def files_digest(files):
    import hashlib
    return hashlib.sha1(json.dumps(files, sort_keys=True).encode()).hexdigest()[:12]


def expected_desc(path, resolved, pathdesc):
    """Turn a path returned by Griffe / the model into the kind of answer the oracle gives."""
    if not resolved:
        return ["unchanged"]      # NameResolutionError caught: the identifier stays as written
    if path.endswith(")") and "(" in path:
        return ["param", path]
    return pathdesc.get(path, ["dangling"])


def same_binding(got, cp):
    if cp is None:
        return False
    if got[0] == "unchanged":
        return cp[0] in ("unbound", "builtin", "local")
    if got[0] == "param":
        return cp[0] == "local"
    if got[0] == "obj":
        return cp[0] == "obj" and cp[1] == got[1]
    return False


# --- wild stream: correspondence and totality only
def check_wild_packages(ctx, n):
    import griffe
    for i in range(n):
        root = f"wild{i}"
        g = Gen(ctx.rng, root, wild=True).build()
        files = g.files()
        d = ctx.scratch / f"wild{i}_dir"
        for rel, text in files.items():
            f = d / root / rel
            f.parent.mkdir(parents=True, exist_ok=True)
            f.write_text(text)
        case = {"root": root, "files": files}
        try:
            for text in files.values():
                ast.parse(text)
        except SyntaxError as e:
            ctx.tie_failure("harness", "wild generator produced invalid syntax", str(e), case)
            continue
        try:
            check_all_names(ctx, root, d, case)
        except Exception:  # noqa: BLE001
            import traceback
            ctx.property_failure(case, {"griffe raised while loading/resolving": traceback.format_exc()[-1200:]})


def check_all_names(ctx, root, d, case):
    import griffe
    loader, pkg = load_package(root, d)
    queries, meta = [], []
    for obj in all_objects(pkg):
        for expr in object_exprs(obj):
            names, attrs = [], []
            walk_exprs(expr, names, attrs)
            for nm in names:
                if isinstance(nm.parent, (griffe.Module, griffe.Class, griffe.Function)):
                    queries.append(["resolve2", V(), abstract_chain(nm.parent), nm.name, False])
                    meta.append(("name", nm))
                else:
                    ctx.observe("wild_name_parent", type(nm.parent).__name__)
            for at in attrs:
                first = at.values[0]
                if isinstance(first, griffe.ExprName) and isinstance(first.parent, (griffe.Module, griffe.Class, griffe.Function)) \
                        and all(isinstance(v, griffe.ExprName) for v in at.values):
                    queries.append(["attr2", V(), abstract_chain(first.parent), first.name, [v.name for v in at.values[1:]]])
                    meta.append(("attr", at))
                    queries.append(["resolve2", V(), abstract_chain(first.parent), first.name, False])
                    meta.append(("name", first))
    outs = ctx.model(queries)
    for q, (what, node), mo in zip(queries, meta, outs):
        ctx.case({"wild": root, "name": q[3], "chain": canon_chain(q[2])}, True)
        if what == "name":
            impl = impl_resolve(node.parent, node.name)
            canon = node.canonical_path
            if mo[0] != impl or mo[4] != canon:
                ctx.tie_failure("correspondence", "resolve/canonical(model) vs Object.resolve/ExprName.canonical_path (wild stream)",
                                {"model": [mo[0], mo[4]], "impl": [impl, canon], "name": node.name, "scope": node.parent.path}, case)
            ctx.observe("wild_tag", mo[1])
            ctx.observe("wild_wf", mo[3])
            ctx.count("wild_names")
            # justified: a returned path is the target of an alias member or <scope path>.<name> of some scope on the chain, or a parameter
            if impl and not justified(node.parent, node.name, impl[0]):
                ctx.property_failure(case, {"unjustified path": impl[0], "name": node.name, "scope": node.parent.path})
        else:
            impl = [node.canonical_path, [v.canonical_path for v in node.values]]
            if mo != impl:
                ctx.tie_failure("correspondence", "attr_canonical(model) vs ExprAttribute.canonical_path (wild stream)", {"model": mo, "impl": impl}, case)
            ctx.count("wild_attrs")


def canon_chain(chain):
    import hashlib
    return hashlib.sha1(json.dumps(chain).encode()).hexdigest()[:12]


def justified(scope, name, path):
    o = scope
    while o is not None:
        m = o.members.get(name)
        if m is not None and ((m.is_alias and m.target_path == path) or (not m.is_alias and path == o.path + "." + name)):
            return True
        if o.kind.value == "function" and o.parent is not None and path == f"{o.parent.path}({name})" and name in o.parameters:
            return True
        if o.name == name and o.path == path and not o.is_module:
            return True
        o = None if o.is_module else o.parent
    return False


# --- synthetic trees built through the producer API: reaches the shapes the visitor never builds (ill-formed for the model's wf_chain)
def check_synthetic_trees(ctx, n):
    import griffe
    rng = ctx.rng
    pool = ["x", "y", "A", "B", "f", "__init__", "m", "p"]
    trees, queries = [], []
    for _ in range(n):
        depth = rng.randint(1, 5)
        objs = []
        for i in range(depth):
            r = rng.random()
            name = rng.choice(pool)
            if i == 0 and r < 0.8 or r < 0.25:
                o = griffe.Module(name)
            elif r < 0.65:
                o = griffe.Class(name)
            else:
                o = griffe.Function(rng.choice(["__init__", "__init__", name]),
                                    parameters=griffe.Parameters(*[griffe.Parameter(q) for q in rng.sample(pool, rng.randint(0, 3))]))
            for mname in rng.sample(pool, rng.randint(0, 4)):
                rr = rng.random()
                if rr < 0.4:
                    o.set_member(mname, griffe.Attribute(mname))
                elif rr < 0.6:
                    o.set_member(mname, griffe.Class(mname))
                else:
                    o.set_member(mname, griffe.Alias(mname, rng.choice(["ext.t", "m.x", "a.b.c", mname])))
            if objs:
                parent = objs[-1]
                rr = rng.random()
                parent.set_member(o.name, o)
                if rr < 0.15:
                    del parent.members[o.name]                         # detached child: still has a parent
                elif rr < 0.3:
                    parent.members[o.name] = griffe.Alias(o.name, "other.z")   # rebound after the definition
                    parent.members[o.name].parent = parent
            objs.append(o)
        inner = objs[-1]
        names = rng.sample(pool, 4) + ["zz"]
        chain = abstract_chain(inner)
        trees.append((inner, names, chain))
        queries += [["resolve2", V(), chain, nm, False] for nm in names] + [["attr2", V(), chain, names[0], ["s", "t"]]]
    allouts = ctx.model(queries)
    for k, (inner, names, chain) in enumerate(trees):
        outs = allouts[6 * k:6 * k + 6]
        for nm, mo in zip(names, outs):
            ctx.case({"synthetic": canon_chain(chain), "name": nm}, mo[1] != "unresolved")
            ctx.observe("synthetic_wf", mo[3])
            ctx.observe("synthetic_tag", mo[1])
            try:
                impl = impl_resolve(inner, nm)
                canon = griffe.ExprName(nm, inner).canonical_path
            except Exception as e:  # noqa: BLE001
                ctx.property_failure({"synthetic_chain": chain, "name": nm}, {"resolution raised": type(e).__name__ + ": " + str(e)})
                continue
            if mo[0] != impl or mo[4] != canon:
                ctx.tie_failure("correspondence", "resolve/canonical(model) vs Object.resolve/ExprName.canonical_path (synthetic trees)",
                                {"model": [mo[0], mo[4]], "impl": [impl, canon]}, {"synthetic_chain": chain, "name": nm})
            if impl and not justified(inner, nm, impl[0]):
                ctx.property_failure({"synthetic_chain": chain, "name": nm}, {"unjustified path": impl[0]})
        root = griffe.ExprName(names[0], inner)
        e1 = griffe.ExprName("s", root)
        e2 = griffe.ExprName("t", e1)
        at = griffe.ExprAttribute([root, e1, e2])
        impl = [at.canonical_path, [v.canonical_path for v in at.values]]
        if outs[-1] != impl:
            ctx.tie_failure("correspondence", "attr_canonical(model) vs ExprAttribute.canonical_path (synthetic trees)", {"model": outs[-1], "impl": impl},
                            {"synthetic_chain": chain, "name": names[0]})
        ctx.count("synthetic_trees")


# --- `global` / `nonlocal` declarations in the referencing scope (single modules; CPython = compiler's instruction + executed namespaces)
class _KK:
    def __init__(self, path):
        self.path = path

    def __call__(self, *a):
        return a[0] if a else None


def check_decl_sites(ctx, n):
    import griffe
    rng = ctx.rng
    for k in range(n):
        names = VALUE[:5]
        mod_bound = rng.sample(names, rng.randint(1, 4))
        a_bound = rng.sample(names, rng.randint(0, 3))
        a_glob = [x for x in rng.sample(names, rng.randint(0, 2)) if x not in a_bound]
        b_bound = rng.sample(names, rng.randint(0, 2))
        b_glob = [x for x in rng.sample(names, rng.randint(0, 2)) if x not in b_bound]
        params = rng.sample(names + ["p"], rng.randint(0, 2))
        i_glob = [x for x in rng.sample(names, rng.randint(0, 2)) if x not in params]
        l_nonlocal = [x for x in params if rng.random() < 0.5]
        L = [f"{x} = _K('m.{x}')" for x in mod_bound]
        sites = []

        def site(ind, scope, kind, decls, nonlocals=()):
            nm = rng.choice(names + list(decls) * 2 + list(nonlocals) * 2 + ["len", "A", "B"])
            sid = len(sites)
            form = "val" if kind == "function" or rng.random() < 0.5 else "ann"
            L.append(f"{ind}try:")
            if kind == "function":
                L.append(f"{ind}    self.t{sid} = {nm}")
            else:
                L.append(f"{ind}    t{sid}: {nm} = 0" if form == "ann" else f"{ind}    t{sid} = {nm}")
            L.append(f"{ind}except NameError: pass")
            sites.append({"id": sid, "scope": scope, "kind": kind, "name": nm, "form": form,
                          "decl": "global" if nm in decls else "nonlocal" if nm in nonlocals else "none"})
        L.append("class A:")
        for x in a_glob:
            L.append(f"    global {x}")
        for x in a_bound:
            L.append(f"    {x} = _K('m.A.{x}')")
        for _ in range(rng.randint(1, 3)):
            site("    ", "A", "class", a_glob)
        L.append("    class B:")
        for x in b_glob:
            L.append(f"        global {x}")
        for x in b_bound:
            L.append(f"        {x} = _K('m.A.B.{x}')")
        for _ in range(rng.randint(1, 3)):
            site("        ", "A.B", "class", b_glob)
        L.append("    def __init__(" + ", ".join(["self"] + [q + "=None" for q in params]) + "):")
        for x in i_glob:
            L.append(f"        global {x}")
        for _ in range(rng.randint(1, 3)):
            site("        ", "A.__init__", "function", i_glob)
        if rng.random() < 0.5:
            L.append("        class L:")
            for x in l_nonlocal:
                L.append(f"            nonlocal {x}")
            L.append("            pass")
            for _ in range(rng.randint(1, 2)):
                site("            ", "A.__init__.L", "class", [], l_nonlocal)
        src = "\n".join(L) + "\n"
        case = {"decl_source": src}
        try:
            code = compile(src, "m.py", "exec", dont_inherit=True)
            imap = instruction_map(src, "m.py")
            ns = {"_K": _KK, "__name__": "m"}
            exec(code, ns)  # noqa: S102 - generated text: assignments of _K(...) objects and class statements only
            ns["A"]()
        except Exception as e:  # noqa: BLE001
            ctx.tie_failure("harness", "declaration stream: generated module does not run", f"{type(e).__name__}: {e}", case)
            continue
        tree = ast.parse(src)
        nodes = {}
        for node in ast.walk(tree):
            if isinstance(node, (ast.Assign, ast.AnnAssign)):
                t = node.targets[0] if isinstance(node, ast.Assign) else node.target
                nmn = t.id if isinstance(t, ast.Name) else t.attr if isinstance(t, ast.Attribute) else None
                if nmn and nmn[0] == "t" and nmn[1:].isdigit():
                    e = node.annotation if isinstance(node, ast.AnnAssign) else node.value
                    nodes[int(nmn[1:])] = e
        try:
            mod = griffe.visit("m", filepath=None, code=src)
        except Exception:  # noqa: BLE001
            import traceback
            ctx.property_failure(case, {"griffe raised": traceback.format_exc()[-800:]})
            continue

        def evalp(path):
            parts = path.split(".")
            if parts[0] != "m":
                return ("none",)
            o = None
            cur = ns
            for a in parts[1:]:
                if a not in cur:
                    return ("dangling",)
                o = cur[a]
                cur = vars(o) if isinstance(o, type) else {}
            return ("obj", o.path) if isinstance(o, _KK) else ("obj", "m." + o.__qualname__) if isinstance(o, type) else ("other",)

        def d_of(o):
            return ["obj", o.path] if isinstance(o, _KK) else ["obj", "m." + o.__qualname__] if isinstance(o, type) else ["other"]
        queries, metas = [], []
        for st in sites:
            if st["scope"] == "A.__init__.L" and "L" not in mod["A"].members.get("__init__", mod["A"]).members:
                continue
            owner = {"A": "A", "A.B": "A.B", "A.__init__": "A", "A.__init__.L": "A.__init__.L"}[st["scope"]]
            try:
                obj = mod[owner + ".t" + str(st["id"])]
            except KeyError:
                ctx.count("decl_sites_not_found")
                continue
            expr = obj.annotation if st["form"] == "ann" else obj.value
            occ = []
            xlive(expr, occ)
            if len(occ) != 1:
                continue
            scope_obj = mod[st["scope"]]
            queries.append(["occ", V(), abstract_chain(scope_obj), st["name"], False, False, st["decl"]])
            metas.append((st, occ[0], scope_obj))
        outs = ctx.model(queries)
        for idx in range(len(queries)):
            st, nm, scope_obj = metas[idx]
            g_canon, g_tag, p_canon, p_class, wf, g_gap, gap_g, fx_canon, fx_gap = outs[idx]
            ctx.case({"decl": src, "site": st["id"]}, g_tag != "unresolved")
            ctx.observe("decl_kind", st["decl"] + ":" + st["kind"])
            node = nodes.get(st["id"])
            fams = imap.get((node.lineno, node.col_offset, node.end_col_offset, node.id)) if isinstance(node, ast.Name) else None
            if not fams or len(fams) != 1:
                ctx.observe("decl_instruction", "not-found")
                continue
            fam = next(iter(fams))
            ctx.observe("decl_instruction", st["decl"] + ":" + fam)
            if wf != 1:
                ctx.tie_failure("harness", "declaration stream: chain not well-formed", {"chain": queries[idx][2]}, case)
            if g_canon != nm.canonical_path:
                ctx.tie_failure("correspondence", "g_canon(model) vs ExprName.canonical_path (declaration stream)",
                                {"model": g_canon, "impl": nm.canonical_path, "name": st["name"], "scope": st["scope"]}, case)
                continue
            cls = ns["A"] if st["scope"] in ("A", "A.__init__") else vars(ns["A"])["B"] if st["scope"] == "A.B" else None
            ns_scope = {k2: d_of(v2) for k2, v2 in (vars(cls).items() if cls is not None and st["kind"] == "class" else []) if not k2.startswith("__")}
            ns_module = {k2: d_of(v2) for k2, v2 in ns.items() if not k2.startswith("__") and k2 != "_K"}
            where, d = cp_binding(fam, st["kind"] if st["scope"] != "A.__init__.L" else "class", st["name"], ns_scope, ns_module)
            want = norm_desc(d)
            pm = ("none",) if (p_canon == st["name"] or p_canon.endswith(")")) else evalp(p_canon)
            if pm != want:
                ctx.tie_failure("oracle", "py_lookup_decl(model) vs the instruction CPython compiles + executed namespaces (declaration stream)",
                                {"model": p_canon, "model_as_object": pm, "cpython": [fam, d], "site": st}, case)
                continue
            got = ("none",) if (g_canon == st["name"] or g_canon.endswith(")")) else evalp(g_canon)
            if got != want:
                fid = None
                if st["decl"] == "global" and gap_g == 1 and g_canon != p_canon:
                    fid = "C04-F5"
                elif g_gap == 1 and g_canon != p_canon:
                    fid = "C04-F6" if fx_gap == 1 else ("C04-F1" if not V()[0] else None)
                ctx.observe("decl_mismatch", fid or "UNEXPLAINED")
                ctx.property_failure({**case, "site": st}, {"griffe": g_canon, "griffe_as_object": got, "cpython": [fam, d], "model_py": p_canon}, finding=fid)
            else:
                ctx.observe("decl_mismatch", "none")


# --- relative imports, exhaustive
def check_relative(ctx, maxdepth):
    import griffe
    from _griffe.agents.nodes.imports import relative_to_absolute
    names = ["p", "s", "t", "u", "v"]
    queries, cases = [], []
    for depth in range(1, maxdepth + 1):
        comps = names[:depth]
        for is_init in (False, True):
            for level in range(0, depth + 3):
                for module in (None, "x", "x.y"):
                    queries.append(["rel", level, comps, is_init, [module] if module else [], "n"])
                    cases.append((comps, is_init, level, module))
    outs = ctx.model(queries)
    for (comps, is_init, level, module), (m_griffe, m_spec) in zip(cases, outs):
        mod = None
        for i, c in enumerate(comps):
            last = i == len(comps) - 1
            fp = Path("/nonexistent", *comps[:i + 1], "__init__.py") if (not last or is_init) else Path("/nonexistent", *comps[:i], c + ".py")
            mod = griffe.Module(c, filepath=fp, parent=mod)
        node = ast.ImportFrom(module=module, names=[ast.alias(name="n")], level=level)
        try:
            impl = relative_to_absolute(node, node.names[0], mod)
        except Exception as e:  # noqa: BLE001
            impl = "raised:" + type(e).__name__
        package = ".".join(comps if is_init else comps[:-1])
        try:
            if level == 0:
                cp = (module + "." if module else "") + "n"
            else:
                cp = importlib.util.resolve_name("." * level + (module or ""), package) + ".n"
        except ImportError:
            cp = None
        ctx.case({"rel": [comps, is_init, level, module]}, level > 0)
        ctx.observe("relative_outcome", "import-error" if cp is None else "resolves")
        if m_griffe != impl:
            ctx.tie_failure("correspondence", "relative_to_absolute(model) vs griffe", {"model": m_griffe, "impl": impl}, {"rel": [comps, is_init, level, module]})
        if (m_spec[0] if m_spec else None) != cp:
            ctx.tie_failure("oracle", "cpython_from_target(model) vs importlib.util.resolve_name", {"model": m_spec, "cpython": cp}, {"rel": [comps, is_init, level, module]})
        if cp is not None and impl != cp:
            ctx.property_failure({"rel": [comps, is_init, level, module]}, {"griffe": impl, "cpython": cp})


# --- witnesses of the known findings, replayed on the implementation
SWITCH = {"v_skip": 0, "v_locals": 1, "v_inner": 2}


def witnesses(ctx):
    """Replay the witness of every listed finding.  A finding that one of the three prepared repairs removes (`repaired_by`) is expected
    to reproduce exactly while the tree under test lacks that repair; once the tree has it, the witness must give CPython's answer."""
    import griffe
    kf = json.loads((Path(__file__).resolve().parents[2] / "findings" / "C04.json").read_text())["findings"]
    v = V()
    for f in kf:
        w = f["witness"]
        repaired = "repaired_by" in f and v[SWITCH[f["repaired_by"]]]
        try:
            if "files" in w:
                wd = ctx.scratch / ("witness_" + f["id"])
                for rel, text in w["files"].items():
                    (wd / rel).parent.mkdir(parents=True, exist_ok=True)
                    (wd / rel).write_text(text)
                wl, _ = load_package("pkg", wd)
                get = lambda q: wl.modules_collection[q]
            else:
                mod = griffe.visit("m", filepath=None, code=w["source"])
                if w.get("reload"):
                    mod = griffe.Module.from_json(mod.as_json())
                get = lambda q: mod[q[2:]]
            got = []
            for path, attr, name in w["lookups"]:
                expr = getattr(get(path), attr)
                occ = []
                xlive(expr, occ)
                got += [n.canonical_path for n in occ if n.name == name]
            if repaired:
                ctx.case({"witness": f["id"], "repaired": True}, True)
                if not got or any(x != w["repaired"] for x in got):
                    ctx.property_failure({"witness": f["id"], "source": w.get("source")},
                                         {"griffe": got, "expected": w["repaired"], "what": "the tree has the repair (" + f["repaired_by"] + ") but the witness of " + f["id"] + " does not give CPython's answer"})
            else:
                ctx.witness(f["id"], bool(got) and all(x == w["griffe"] for x in got))
        except Exception:  # noqa: BLE001
            if repaired:
                import traceback
                ctx.property_failure({"witness": f["id"], "source": w.get("source")}, {"griffe raised": traceback.format_exc()[-600:]})
            else:
                ctx.witness(f["id"], False)


def replay_corpus(ctx):
    """Minimised past findings that were repaired: they must now PASS."""
    d = Path(__file__).resolve().parents[2] / "corpus" / "C04"
    for f in sorted(d.glob("*.json")):
        c = json.loads(f.read_text())
        root = ctx.scratch / ("corpus_" + f.stem)
        for rel, text in c["files"].items():
            (root / rel).parent.mkdir(parents=True, exist_ok=True)
            (root / rel).write_text(text)
        try:
            loader, pkg = load_package("pkg", root)
            for path, attr, name in c["lookups"]:
                names, attrs = [], []
                walk_exprs(getattr(loader.modules_collection[path], attr), names, attrs)
                got = [n.canonical_path for n in names if n.name == name]
                ctx.case({"corpus": f.name, "lookup": [path, attr, name]}, True)
                if not got or any(g != c["expect"] for g in got):
                    ctx.property_failure({"corpus": f.name, "files": c["files"], "root": "pkg"}, {"griffe": got, "expected": c["expect"], "what": c["what"]})
        except Exception as e:  # noqa: BLE001
            ctx.property_failure({"corpus": f.name, "files": c["files"], "root": "pkg"}, {"griffe raised": type(e).__name__ + ": " + str(e)})
        ctx.count("corpus_cases")


def explore(ctx):
    ctx.observe("variant", "skip=%d locals=%d inner=%d%s" % (*[int(b) for b in V()], "" if _VARIANT["read"] else " (translator failed: assumed)"))
    replay_corpus(ctx)
    witnesses(ctx)
    check_relative(ctx, ctx.budget(4, 5))
    batches = ctx.budget(5, 50)
    per = ctx.budget(50, 100)
    for b in range(batches):
        check_clean_packages(ctx, per, f"c{b}p")
    for b in range(ctx.budget(2, 25)):
        check_clean_packages(ctx, per, f"r{b}p", rebind=True)
    check_decl_sites(ctx, ctx.budget(150, 1500))
    check_wild_packages(ctx, ctx.budget(120, 800))
    check_synthetic_trees(ctx, ctx.budget(1500, 20000))
    comp, disc = ctx.stats.get("packages_compared", 0) + ctx.stats.get("packages_compared_rebind", 0), ctx.stats.get("packages_discarded_not_importable", 0)
    if comp < 0.5 * (comp + disc):
        ctx.tie_failure("harness", "generator", f"only {comp} of {comp + disc} generated packages were importable by CPython")
    if not ctx.quick:
        sample = [["rel", 2, ["p", "s", "t"], True, ["x"], "n"], ["import", ["a", "b"], []], ["import", ["a", "b"], ["c"]],
                  ["from", ["p", "s"], True, "p.s", 1, [], "t", []], ["from", ["p", "s"], True, "p.s", 2, ["a"], "K", ["z"]],
                  ["resolve", [["class", "B", [["y", []]], []], ["class", "A", [["x", []], ["B", []]], []], ["module", "m", [["x", []], ["A", []]], []]], "x", False],
                  ["resolve", [["module", "m", [["y", []]], []], ["module", "pkg", [["X", []], ["m", []]], []]], "X", False],
                  ["attr", [["module", "m", [["x", ["p.q"]]], []]], "x", ["a", "b"]]]
        ctx.cross_check_extraction(sample + getattr(ctx, "_xq", [])[:70], n=80)


def search(ctx):
    """A tie broke: implementation vs CPython only (no model). Every mismatch is reported unless a python mirror of the gap
    predicates explains it."""
    for b in range(6):
        prepared = []
        for i in range(50):
            root = f"s{b}p{i}"
            g = Gen(ctx.rng, root).build()
            files = g.files()
            d = ctx.scratch / f"{root}_dir"
            for rel, text in files.items():
                f = d / root / rel
                f.parent.mkdir(parents=True, exist_ok=True)
                f.write_text(text)
            prepared.append((g, files, d))
        jobs, infos = [], []
        for g, files, d in prepared:
            try:
                loader, pkg = load_package(g.root, d)
                coll = loader.modules_collection
                paths = set()
                for s in g.sites:
                    s["g"] = []
                    if s["kind"] in ("xval", "xdef", "xinit"):
                        continue
                    for expr in site_expr(coll, s):
                        names, attrs = [], []
                        walk_exprs(expr, names, attrs)
                        loc = local_binders(expr)
                        for nm in ([n for n in names if n.name == s["root"]] if s["kind"] in ("comp", "lam") else [attrs[0].values[0] if s["segs"] else names[0]]):
                            canon = nm.canonical_path
                            s["g"].append({"name": nm.name, "canon": canon, "res": bool(impl_resolve(nm.parent, nm.name)),
                                           "gap": py_gap(nm.parent, nm.name, id(nm) in loc)})
                            paths.add(canon)
                infos.append(True)
            except Exception:  # noqa: BLE001
                import traceback
                ctx.property_failure({"root": g.root, "files": files}, {"griffe raised": traceback.format_exc()[-800:]})
                return
            jobs.append({"root": g.root, "dir": str(d), "modules": [m.dotted for m in g.all_mods],
                         "inits": [[c.mod.dotted, c.qual] for m in g.all_mods for c in g.walk_classes(m.scope) if c.init is not None],
                         "paths": sorted(paths), "bindings": []})
        for (g, files, d), res in zip(prepared, run_oracle(ctx, jobs)):
            if res["status"] != "ok":
                continue
            for s in g.sites:
                r = res["rec"].get(str(s["id"]))
                if r is None:
                    continue
                for gi in s["g"]:
                    ctx.evaluations += 1
                    got = expected_desc(gi["canon"], gi["res"], res["paths"])
                    if not same_binding(got, r.get("root")) and not gi["gap"]:
                        ctx.property_failure({"root": g.root, "files": files, "site": {k: v for k, v in s.items() if k != "g"}},
                                             {"griffe": gi["canon"], "cpython": r})
                        return


def py_gap(scope, name, local):
    """Python mirror of the gap predicates (gap_class_v / g_gap of Model/C04_expr.v) for the form of the code the translator read,
    used only when the model cannot be run."""
    import griffe
    v = V()
    if scope is None:
        return False
    try:
        scope.resolve(name)
    except griffe.NameResolutionError:
        return False
    if local:
        return not v[1]
    o, inner, skipping = scope, True, False
    while o is not None:
        if skipping and o.kind.value == "class" and o.parent is not None:
            o = o.parent
            continue
        is_param = o.kind.value == "function" and o.parent is not None and o.name == "__init__" and name in o.parameters
        if is_param or name in o.members:
            return o.kind.value == "class" and not inner
        if o.parent is None or o.is_module:
            return False
        skipping = v[0] and o.kind.value == "class"
        nxt = o.parent
        if skipping:
            while nxt.kind.value == "class" and nxt.parent is not None:
                nxt = nxt.parent
        if name == nxt.name and not nxt.is_module:
            return nxt.parent is None or nxt.parent.kind.value == "class"
        inner = False
        o = o.parent
    return False


def replay(ctx, data):
    case = data.get("failing_input") or {}
    files = case.get("files")
    if not files:
        src = case.get("decl_source") or case.get("source")
        if src:
            import griffe
            print(src)
            print("site:", case.get("site") or case.get("witness"))
            print("detail:", json.dumps(data.get("detail"), indent=1))
            mod = griffe.visit("m", filepath=None, code=src)
            for obj in all_objects(mod):
                for expr in object_exprs(obj):
                    occ = []
                    xlive(expr, occ)
                    print("griffe now:", obj.path, str(expr), [(n.name, n.canonical_path) for n in occ])
            return 0
        print("replay names no input:", data.get("no_longer_checks"), case.get("rel"), case)
        return 0
    root = case["root"]
    ctx.scratch.mkdir(parents=True, exist_ok=True)
    d = ctx.scratch / "replay"
    for rel, text in files.items():
        f = d / root / rel
        f.parent.mkdir(parents=True, exist_ok=True)
        f.write_text(text)
        print("#", root + "/" + rel)
        print(text)
    print("site:", case.get("site") or case.get("import"))
    print("detail:", json.dumps(data.get("detail"), indent=1))
    loader, pkg = load_package(root, d)
    s = case.get("site")
    if s:
        for expr in site_expr(loader.modules_collection, s):
            names, attrs = [], []
            walk_exprs(expr, names, attrs)
            print("griffe now:", str(expr), "->", getattr(expr, "canonical_path", None), [(n.name, n.canonical_path) for n in names])
    subprocess.run(["rm", "-rf", str(ctx.scratch)])
    return 0
