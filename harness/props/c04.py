"""C04 — Names in expressions resolve to the object Python scoping binds them to.

(C) model resolve / canonical / attribute chaining   vs  Object.resolve, ExprName.canonical_path, ExprAttribute.canonical_path on
    the scope objects of generated packages loaded with griffe.load (every ExprName of every stored expression)
    model relative_to_absolute                        vs  griffe's relative_to_absolute on hand-built Module chains (exhaustive small)
    model visit_import / visit_importfrom             vs  alias members + `imports` the visitor recorded for every generated import
(O) model py_lookup                                   vs  CPython: the generated package is imported in a subprocess and every referenced
    name is evaluated by code placed in the referencing scope itself (class body, module body, __init__ body, comprehension, lambda)
    model cpython_from_target                         vs  importlib.util.resolve_name
    model cpython_import / cpython_importfrom         vs  the object CPython really bound in the executed scope
direct: the path Griffe returns, evaluated as a dotted path by CPython (import the longest module prefix, getattr the rest), is the
    very object CPython bound the name to at that site; names CPython does not bind statically come back unchanged; nothing raises.
    Failing sites are attributed to a known finding only by the extracted model's verdict (gap_class / gap_local).
"""
from __future__ import annotations

import ast
import dataclasses
import importlib.util
import json
import os
import subprocess
import sys
from pathlib import Path

ID = "C04"
LEVEL_TEXT = ("Theorems for all chains of scopes and all names: Object.resolve/Function.resolve always end with a path justified by a member, "
              "import, __init__ parameter or enclosing definition on the parent chain, or with the caught NameResolutionError (only when nothing "
              "binds the name: unknown names/builtins come back unchanged); on every chain the visitor can build the result equals CPython's "
              "scoping (class body, closed-over function scopes, module globals) unless the walk stops in an enclosing class body (F1) or the "
              "identifier is bound by the expression itself (F3) - each refuted by a computed witness that is replayed on the "
              "code; relative_to_absolute equals importlib's _resolve_name for every level up to the package depth in __init__ and plain modules; "
              "import/from-import statements bind the same name to the same path as CPython; dotted chains canonicalise segment by segment from the "
              "resolved root. Model tied to the code by differential runs on generated packages (model vs Griffe vs CPython executing the package).")
LEVEL_NOTE = ("Trusted: Coq kernel, extraction, the harness abstraction (live Griffe scope object -> chain of frames: kind, name, member names with "
              "alias targets, parameter names), CPython as authority. Static scoping is flow-insensitive: the generator binds each name at most once "
              "per scope and before its uses (a separate unchecked-by-oracle 'wild' stream drops this). Not modelled: which members the visitor "
              "creates (C01), `global`/`nonlocal` declarations, locals assigned inside __init__, star imports (C05), inherited members in attribute "
              "chains (C07), alias resolution of the returned first-link path (C06; the direct check lets CPython evaluate the path instead). "
              "All 15 theorems are closed under the global context.")
MODEL = ("Model.C04_scope", "run_C04")
COQ_TARGETS = ["Proofs/C04_scope.vo"]
RULE = ("exhaustive relative-import space (module depth 1..4 x __init__/plain x level 0..depth+2 x from-module none/x/x.y); seeded random packages of "
        "2..4 modules (root __init__, plain modules, sub-packages), each module with imports of every form (import a.b / import a.b as c / from a.b "
        "import c [as d] / relative with every valid level / from . import sub [as sub] / stdlib), constants, functions, classes nested up to 3 with "
        "shadowing between class members, imports, module globals and builtins, __init__ methods with parameters, and reference sites in annotations "
        "(quoted, unquoted, postponed), values, bases, decorators, defaults, parameter/return annotations, __init__ bodies, comprehensions and "
        "lambdas, as single names or dotted chains up to 4 segments; plus a 'wild' stream (rebinding, forward references, conditional blocks, "
        "functions nested in classes) and random object trees built through the producer API (detached children, rebound names, functions of any name: the shapes the visitor never builds), both checked for model correspondence, justification of every returned path and absence of exceptions only. A site is non-trivial when its root name is "
        "bound by some scope on the chain; distinct by (package source, site)")
TRUSTED = ["abstraction: the harness reads kind/name/members(alias target_path)/parameters along Object.parent into the model's chain of frames",
           "the instrumentation convention: a name evaluated by a statement placed next to the stored expression, in the same scope, is what "
           "CPython binds for that expression (bases, decorators, defaults and annotations are evaluated in the enclosing scope)"]
ASSUMPTIONS = ["each name is bound at most once per scope and before the sites that can see it (static analysis is flow-insensitive)",
               "function scopes in the parent chain are __init__ methods of classes (the only functions the visitor descends into)",
               "level <= package depth for relative imports (beyond it CPython raises ImportError; Griffe clamps at the top package)"]

VALUE = ["x", "y", "z", "w", "k", "int", "len"]
CONT = ["A", "B", "C", "D", "E", "F"]
NEVER = ["q", "str", "nope"]
EXTERNAL = {"json": ("module", ["decoder", "encoder"]), "json.decoder": ("module", ["JSONDecoder"]), "json.encoder": ("module", ["JSONEncoder"]),
            "json.decoder.JSONDecoder": ("class", ["decode"]), "json.encoder.JSONEncoder": ("class", ["encode"])}
LAYOUTS = [["a"], ["a", "b"], ["s"], ["s", "s.c"], ["a", "s", "s.c"], ["s", "s.c", "s.d"], ["s", "s.t", "s.t.e"], ["a", "s", "s.t"], ["s", "s.c", "s.t"]]

ORACLE = r'''
import builtins, importlib, json, sys, types
sys.setrecursionlimit(2000)
class _K:
    def __init__(self, path): self.path = path
    def __call__(self, *a): return a[0] if a else None
class _Sent: pass
_S = _Sent()
REC = {}
def desc(o):
    if o is _S: return ["local"]
    if isinstance(o, _K): return ["obj", o.path]
    if isinstance(o, types.ModuleType): return ["obj", o.__name__]
    if isinstance(o, type) or isinstance(o, (types.FunctionType, types.BuiltinFunctionType)):
        mod = getattr(o, "__module__", None)
        if mod == "builtins": return ["builtin"]
        return ["obj", "%s.%s" % (mod, o.__qualname__)]
    if isinstance(o, types.MethodType): return desc(o.__func__)
    return ["other", type(o).__name__]
_NOVAL = object()
def _REC(site, which, val=_NOVAL, is_local=False, err=None):
    if err is not None: d = [err]
    elif val is _NOVAL: d = ["unbound"]
    elif is_local: d = ["local"]
    else: d = desc(val)
    REC.setdefault(str(site), {})[which] = d
builtins._K = _K; builtins._S = _S; builtins._REC = _REC; builtins._OFF = False
def eval_path(path):
    parts = path.split(".")
    for i in range(len(parts), 0, -1):
        name = ".".join(parts[:i])
        try:
            spec_ok = True
            obj = importlib.import_module(name)
        except ImportError:
            continue
        except Exception as e:
            return ["import-raised", type(e).__name__]
        for a in parts[i:]:
            try: obj = getattr(obj, a)
            except AttributeError: return ["dangling"]
        return desc(obj)
    return ["dangling"]
def scope_ns(module, qual):
    obj = sys.modules[module]
    if qual:
        for a in qual.split("."): obj = vars(obj)[a]
    return vars(obj)
job = json.load(open(sys.argv[1]))
out = []
for pk in job["packages"]:
    REC = {}
    res = {"status": "ok"}
    sys.path.insert(0, pk["dir"])
    try:
        for m in pk["modules"]:
            importlib.import_module(m)
        for module, qual in pk["inits"]:
            obj = sys.modules[module]
            for a in qual.split("."): obj = vars(obj)[a]
            obj()
    except BaseException as e:
        res["status"] = "import-error: %s: %s" % (type(e).__name__, e)
    if res["status"] == "ok":
        res["rec"] = REC
        res["paths"] = {p: eval_path(p) for p in pk["paths"]}
        b = []
        for module, qual, name in pk["bindings"]:
            try:
                ns = scope_ns(module, qual)
                b.append(desc(ns[name]) if name in ns else ["unbound"])
            except Exception as e:
                b.append(["error", type(e).__name__])
        res["bindings"] = b
    sys.path.pop(0)
    for k in [k for k in sys.modules if k == pk["root"] or k.startswith(pk["root"] + ".")]:
        del sys.modules[k]
    out.append(res)
json.dump(out, open(sys.argv[2], "w"))
'''


# ------------------------------------------------------------------------------------------------ generator
class Sc:
    def __init__(self, kind, name, path, parent, mod):
        self.kind, self.name, self.path, self.parent, self.mod = kind, name, path, parent, mod
        self.bind = {}        # name -> canonical target path (or None when unknown)
        self.lines = []       # binding statements, in order
        self.children = []
        self.init = None      # list of parameter names when the class has an __init__
        self.sites = []
        self.init_sites = []
        self.top_index = None

    @property
    def qual(self):
        return self.path[len(self.mod.dotted) + 1:] if self.kind == "class" else ""


class Mod:
    def __init__(self, dotted, is_init, relfile):
        self.dotted, self.is_init, self.relfile = dotted, is_init, relfile
        self.comps = dotted.split(".")
        self.future = False
        self.scope = None
        self.conts = []


class Gen:
    def __init__(self, rng, root, wild=False):
        self.rng, self.root, self.wild = rng, root, wild
        self.reg = {}      # canonical path -> {"kind", "members": {name: target path}}
        for p, (k, ms) in EXTERNAL.items():
            self.reg[p] = {"kind": k, "members": {m: p + "." + m for m in ms}}
        self.mods = []
        self.imports = []  # records for the import-statement checks
        self.sites = []
        self.nsite = 0

    # --- registry helpers
    def canon(self, path, depth=0):
        if path is None or depth > 12:
            return None
        if path in self.reg:
            return path
        if "." not in path:
            return None
        head, last = path.rsplit(".", 1)
        h = self.canon(head, depth + 1)
        if h is None or h not in self.reg:
            return None
        t = self.reg[h]["members"].get(last)
        if t is None:
            return None
        if t == h + "." + last:
            return t if t in self.reg else t
        return self.canon(t, depth + 1) or t

    def define(self, sc, name, kind):
        path = sc.path + "." + name
        self.reg[path] = {"kind": kind, "members": {}}
        self.reg[sc.path]["members"][name] = path
        sc.bind[name] = path
        return path

    # --- structure
    def build(self):
        rng = self.rng
        layout = rng.choice(LAYOUTS) if rng.random() < 0.85 else []
        names = [""] + layout
        pk = set(n for n in names if any(o.startswith(n + ".") for o in names if n) or n == "")
        pk |= {n for n in layout if n in ("s", "s.t")}
        mods = []
        for n in names:
            dotted = self.root + ("." + n if n else "")
            is_init = n in pk
            rel = (n.replace(".", "/") + ("/__init__.py" if is_init else ".py")) if n else "__init__.py"
            mods.append(Mod(dotted, is_init, rel))
        order = mods[:]
        r = rng.random()
        if r < 0.45:
            pass                      # ancestors first
        elif r < 0.75:
            order = mods[1:] + mods[:1]   # root __init__ last: it re-exports from its submodules
        else:
            rng.shuffle(order)
        self.mods = order
        self.all_mods = mods
        for m in order:
            self.gen_module(m)
        return self

    def submodule_names(self, m):
        pre = m.dotted + "."
        return {o.dotted[len(pre):] for o in self.all_mods if o.dotted.startswith(pre) and "." not in o.dotted[len(pre):]} if m.is_init else set()

    def gen_module(self, m):
        rng = self.rng
        m.future = rng.random() < 0.3
        sc = m.scope = Sc("module", m.comps[-1], m.dotted, None, m)
        self.reg[m.dotted] = {"kind": "module", "members": {}}
        if len(m.comps) > 1:
            parent = ".".join(m.comps[:-1])
            if parent in self.reg:
                self.reg[parent]["members"].setdefault(m.comps[-1], m.dotted)
        for o in self.all_mods:   # submodules already generated become attributes of the package
            if o.dotted.startswith(m.dotted + ".") and "." not in o.dotted[len(m.dotted) + 1:] and o.dotted in self.reg:
                self.reg[m.dotted]["members"].setdefault(o.comps[-1], o.dotted)
        self.gen_bindings(sc, rng.randint(1, 5))
        ntop = rng.choice([0, 1, 1, 2, 2, 3])
        pool = [c for c in CONT if c not in sc.bind]
        rng.shuffle(pool)
        budget = [rng.randint(1, 5)]
        for i in range(min(ntop, len(pool))):
            if budget[0] <= 0:
                break
            self.gen_class(sc, pool, 1, budget, i)
        m.conts = [c.name for c in self.walk_classes(sc)]
        # reference sites
        for s in [sc] + self.walk_classes(sc):
            self.gen_sites(s)

    def walk_classes(self, sc):
        out = []
        for c in sc.children:
            out.append(c)
            out.extend(self.walk_classes(c))
        return out

    def gen_class(self, parent, pool, depth, budget, top_index):
        rng = self.rng
        avail = [n for n in pool if n not in parent.bind]
        if not avail:
            return
        name = avail[-1]
        pool.remove(name)
        budget[0] -= 1
        c = Sc("class", name, parent.path + "." + name, parent, parent.mod)
        c.top_index = top_index
        self.reg[c.path] = {"kind": "class", "members": {}}
        self.reg[parent.path]["members"][name] = c.path
        parent.bind[name] = c.path
        parent.children.append(c)
        self.gen_bindings(c, rng.randint(0, 4))
        if rng.random() < 0.12 and name not in c.bind:      # a class that has a member with its own name
            self.define(c, name, "const")
            c.lines.append(f"{name} = _K({c.path + '.' + name!r})")
        if depth < 3:
            for _ in range(rng.choice([0, 0, 1, 1, 2])):
                if budget[0] > 0:
                    self.gen_class(c, pool, depth + 1, budget, top_index)
        if rng.random() < 0.6:
            c.init = ["self"] + rng.sample(VALUE + ["p"], rng.randint(0, 2))
            self.reg[c.path]["members"]["__init__"] = c.path + ".__init__"

    def gen_bindings(self, sc, n):
        rng = self.rng
        for _ in range(n):
            r = rng.random()
            if r < 0.45 or (sc.kind == "class" and r < 0.8):
                free = [v for v in VALUE if v not in sc.bind or (self.wild and rng.random() < 0.3)]
                if not free:
                    continue
                name = rng.choice(free)
                k = rng.choice(["const", "const", "func", "leaf"])
                path = self.define(sc, name, {"const": "const", "func": "func", "leaf": "class"}[k])
                if k == "const":
                    sc.lines.append(f"{name} = _K({path!r})")
                elif k == "func":
                    sc.lines.append(f"def {name}(*a): return a[0] if a else None")
                else:
                    inner = rng.choice(VALUE)
                    ipath = path + "." + inner
                    self.reg[ipath] = {"kind": "const", "members": {}}
                    self.reg[path]["members"][inner] = ipath
                    sc.lines.append(f"class {name}:\n    {inner} = _K({ipath!r})")
            else:
                self.gen_import(sc)

    def gen_import(self, sc):
        rng = self.rng
        m = sc.mod
        done = [o for o in self.mods if o.scope is not None and o is not m]
        if m.is_init and rng.random() < 0.35:      # a package importing its own submodules (possibly not generated yet)
            subs = [o for o in self.all_mods if o.dotted.startswith(m.dotted + ".") and "." not in o.dotted[len(m.dotted) + 1:]]
            done = done + [o for o in subs if o not in done] * 2
        ext = rng.random() < 0.15 or not done
        if ext:
            tpath = rng.choice(list(EXTERNAL))
            tkind = EXTERNAL[tpath][0]
            ec, obj = (tpath.split("."), None) if tkind == "module" else (tpath.split(".")[:-1], tpath.split(".")[-1])
            tmod = None
        else:
            tmod = rng.choice(done)
            ec = tmod.comps
            obj = None
            exports = [n for n in (tmod.scope.bind if tmod.scope else {}) if not n.startswith("_")]
            if exports and rng.random() < 0.6:
                obj = rng.choice(exports)
        pm = m.comps if m.is_init else m.comps[:-1]
        forms = []
        if obj is None:
            forms.append(("import", ec, False))
            forms.append(("import", ec, True))
            if len(ec) > 1:
                forms.append(("from", 0, ".".join(ec[:-1]), ec[-1]))
            if not ext:
                for k in range(1, len(pm) + 1):
                    anc = pm[:k]
                    if ec[:k] == anc and len(ec) > k:
                        rem = ec[k:]
                        forms += [("from", len(pm) - k + 1, ".".join(rem[:-1]), rem[-1])] * 2
        else:
            forms.append(("from", 0, ".".join(ec), obj))
            if not ext:
                for k in range(1, len(pm) + 1):
                    anc = pm[:k]
                    if ec[:k] == anc:
                        forms += [("from", len(pm) - k + 1, ".".join(ec[k:]), obj)] * 2
        form = rng.choice(forms)
        target = ".".join(ec) + ("." + obj if obj else "")
        free = [v for v in VALUE if v not in sc.bind]
        if form[0] == "import":
            _, comps, use_as = form
            asname = rng.choice(free) if (use_as and free) else None
            bound = asname or comps[0]
            if bound in sc.bind and not self.wild:
                return
            text = "import " + ".".join(comps) + (f" as {asname}" if asname else "")
            ctarget = ".".join(comps) if asname else comps[0]
            rec = {"form": "import", "comps": comps, "asname": asname}
        else:
            _, level, module, name = form
            r = rng.random()
            asname = None
            if r < 0.35 and free:
                asname = rng.choice(free)
            elif r < 0.45:
                asname = name
            bound = asname or name
            if bound in sc.bind and not self.wild:
                if not free:
                    return
                asname = bound = rng.choice(free)
            text = "from " + "." * level + module + " import " + name + (f" as {asname}" if asname else "")
            ctarget = target
            rec = {"form": "from", "level": level, "module": module or None, "name": name, "asname": asname}
        if sc.kind == "module" and bound in self.submodule_names(m) and ctarget != m.dotted + "." + bound and not self.wild:
            return      # the loader (and CPython, when the submodule is imported) rebinds that name to the submodule: flow-dependent
        rec.update({"module_dotted": m.dotted, "is_init": m.is_init, "scope": sc.path, "qual": sc.qual, "bound": bound, "text": text})
        self.imports.append(rec)
        sc.lines.append(text)
        sc.bind[bound] = ctarget
        self.reg[sc.path]["members"][bound] = ctarget

    # --- reference sites
    def visible_names(self, sc, eager):
        """Candidate root names with a bias towards names bound somewhere on the chain."""
        rng = self.rng
        chain = []
        s = sc
        while s is not None:
            chain.append(s)
            s = s.parent
        mod_sc = chain[-1]
        bound = []
        for s in chain:
            bound += list(s.bind)
        # names bound in the parent packages (package leak probes) and sibling modules
        m = sc.mod
        up = []
        for o in self.all_mods:
            if o is not m and m.dotted.startswith(o.dotted + ".") and o.scope is not None:
                up += list(o.scope.bind) + [x.comps[-1] for x in self.all_mods if x.dotted.startswith(o.dotted + ".") and "." not in x.dotted[len(o.dotted) + 1:]]
        cands = bound * 3 + up * 2 + VALUE + NEVER + m.conts + [self.root]
        forbidden = set()
        if not self.wild:
            forbidden |= {n for n in self.submodule_names(m) if n not in mod_sc.bind}
            if eager:
                top = [c for c in mod_sc.children]
                ti = sc.top_index if sc.kind == "class" else None
                if ti is not None:     # top-level classes not yet bound while this class body runs (own top-level ancestor and later ones)
                    forbidden |= {c.name for c in top if c.top_index >= ti}
        cands = [c for c in cands if c not in forbidden]
        return cands or ["q"]

    def pick_expr(self, sc, eager, params=()):
        rng = self.rng
        cands = self.visible_names(sc, eager) + list(params) * 3
        root = rng.choice(cands)
        segs = []
        if rng.random() < 0.55:
            # where could the root point to (any binder on the chain, Griffe's or CPython's view alike)
            targets = []
            s = sc
            while s is not None:
                if root in s.bind:
                    targets.append(s.bind[root])
                s = s.parent
            if targets:
                cur = self.canon(rng.choice(targets))
                for _ in range(rng.randint(1, 3)):
                    if cur is None or cur not in self.reg:
                        break
                    ms = [k for k in self.reg[cur]["members"] if k != "__init__"]
                    if not ms:
                        break
                    k = rng.choice(ms)
                    segs.append(k)
                    cur = self.canon(cur + "." + k)
        return root, segs

    def new_site(self, sc, kind, root, segs, **kw):
        self.nsite += 1
        s = {"id": self.nsite, "kind": kind, "root": root, "segs": segs, "scope": sc.path, "qual": sc.qual,
             "module": sc.mod.dotted, "expr": ".".join([root] + segs)}
        s.update(kw)
        self.sites.append(s)
        return s

    def gen_sites(self, sc):
        rng = self.rng
        n = rng.randint(1, 4) if sc.kind == "class" else rng.randint(1, 5)
        kinds = ["ann", "ann", "val", "val", "base", "deco", "default", "pann", "comp", "lam"]
        for _ in range(n):
            kind = rng.choice(kinds)
            root, segs = self.pick_expr(sc, eager=True)
            if kind in ("comp", "lam"):
                segs = []
            quoted = kind in ("ann", "pann") and not sc.mod.future and rng.random() < 0.5
            sc.sites.append(self.new_site(sc, kind, root, segs, quoted=quoted))
        if sc.init is not None:
            for _ in range(rng.randint(1, 3)):
                root, segs = self.pick_expr(sc, eager=False, params=[p for p in sc.init if p != "self"])
                sc.init_sites.append(self.new_site(sc, "init", root, segs, quoted=False))

    # --- emission
    def emit_probe(self, s, ind, in_init=False):
        i, root, e = s["id"], s["root"], s["expr"]
        loc = f", {root!r} in locals()" if in_init else ""
        L = [f"try: _REC({i}, 'root', {root}{loc})", f"except NameError: _REC({i}, 'root')"]
        if s["segs"]:
            L += [f"try: _REC({i}, 'full', {e})", f"except NameError: _REC({i}, 'full')",
                  f"except AttributeError: _REC({i}, 'full', err='attr-error')"]
        return [ind + l for l in L]

    def emit_site(self, s, ind, future):
        i, e, k, root = s["id"], s["expr"], s["kind"], s["root"]
        q = (lambda t: '"' + t + '"') if s["quoted"] else (lambda t: t)
        if k == "ann":
            if s["quoted"] or future:
                L = [f"u{i}: {q(e)} = 0"]
            else:
                L = ["try:", f"    u{i}: {e} = 0", "except Exception: pass"]
        elif k == "val":
            L = ["try:", f"    v{i} = {e}", "except Exception: pass"]
        elif k == "base":
            L = ["try:", f"    class c{i}({e}): pass", "except Exception: pass"]
        elif k == "deco":
            L = ["try:", f"    @{e}", f"    def d{i}(*a): pass", "except Exception: pass"]
        elif k == "default":
            L = ["try:", f"    def f{i}(self=None, q={e}): pass", "except Exception: pass"]
        elif k == "pann":
            if s["quoted"] or future:
                L = [f"def g{i}(self=None, q: {q(e)} = None) -> {q(e)}: pass"]
            else:
                L = ["try:", f"    def g{i}(self=None, q: {e} = None) -> {e}: pass", "except Exception: pass"]
        elif k == "comp":
            L = [f"w{i} = [{root} for {root} in (_S,)]", f"[_REC({i}, 'root', {root}) for {root} in (_S,)]"]
            return [ind + l for l in L]
        elif k == "lam":
            L = [f"w{i} = lambda {root}: {root}", f"(lambda {root}: _REC({i}, 'root', {root}))(_S)"]
            return [ind + l for l in L]
        return [ind + l for l in L] + self.emit_probe(s, ind)

    def emit_scope(self, sc, ind):
        L = []
        for st in sc.lines:
            L += [ind + l for l in st.split("\n")]
        if self.wild and self.rng.random() < 0.4:
            L += [ind + l for l in self.wild_lines(sc)]
        for c in sc.children:
            L.append(f"{ind}class {c.name}:")
            body = self.emit_scope(c, ind + "    ")
            L += body or [ind + "    pass"]
        if sc.init is not None:
            L.append(f"{ind}def __init__({', '.join([sc.init[0]] + [p + '=None' for p in sc.init[1:]])}):")
            for s in sc.init_sites:
                L += [f"{ind}    try: self.a{s['id']} = {s['expr']}", f"{ind}    except Exception: pass"]
                L += self.emit_probe(s, ind + "    ", in_init=True)
            if not sc.init_sites:
                L.append(ind + "    pass")
        for s in sc.sites:
            L += self.emit_site(s, ind, sc.mod.future)
        return L

    def wild_lines(self, sc):
        rng = self.rng
        v = rng.choice(VALUE)
        u = rng.choice(VALUE + CONT)
        return rng.choice([
            [f"{v} = {u}", f"{v}: {u}"],
            [f"if _OFF:", f"    {v} = 1", f"    class {u}: zz: {v} = {u}", "else:", f"    {v} = 2"],
            [f"def h_{v}(a: {u}, *b: {v}, c: {u} = {v}, **d) -> {u}:", f"    class L{v}:", f"        t: {u} = {v}", f"    return {v}"],
            [f"{v}, {u}_ = 1, 2", f"del {v}"],
            [f"t_{v} = [{u} for {v} in {u} if {v}]", f"t2_{v} = {{{v}: {u} for {v}, {u} in {u}.items()}}"],
            [f"t3_{v} = lambda {v}, *a, {u}=1: {v}.{u}.z + a", f"t4_{v} = ({u} := {v})"],
            [f"t5_{v} = {u}.{v}().z[{u}].{v}", f"t6_{v} = f'{{{v}.{u}!r}}' + \"s\".join({u})"],
            [f"for {v} in {u}: pass", f"with {u} as {v}: t7 = {v}"],
            [f"try:", f"    from .{v} import {u}", f"except ImportError:", f"    {u} = None"],
            [f"from . import *", f"from {self.root} import *"],
        ])

    def files(self):
        out = {}
        for m in self.all_mods:
            L = (["from __future__ import annotations"] if m.future else []) + self.emit_scope(m.scope, "")
            out[m.relfile] = "\n".join(L) + "\n"
        return out


# ------------------------------------------------------------------------------------------------ Griffe side
def walk_exprs(expr, names, attrs):
    """Collect standalone ExprNames (scope parent) and ExprAttributes from an expression tree."""
    import griffe
    if isinstance(expr, griffe.ExprName):
        names.append(expr)
        return
    if isinstance(expr, griffe.ExprAttribute):
        attrs.append(expr)
        first = expr.values[0]
        if not isinstance(first, griffe.ExprName):
            walk_exprs(first, names, attrs)
        return
    if isinstance(expr, griffe.Expr):
        for f in dataclasses.fields(expr):
            walk_exprs(getattr(expr, f.name), names, attrs)
    elif isinstance(expr, (list, tuple)):
        for x in expr:
            walk_exprs(x, names, attrs)


def object_exprs(obj):
    k = obj.kind.value
    out = []
    if k == "attribute":
        out += [obj.annotation, obj.value]
    elif k == "function":
        out += [obj.returns] + [d.value for d in obj.decorators]
        for p in obj.parameters:
            out += [p.annotation, p.default]
    elif k == "class":
        out += list(obj.bases) + [d.value for d in obj.decorators]
    return [e for e in out if e is not None and not isinstance(e, str)]


def all_objects(obj, seen=None):
    seen = set() if seen is None else seen
    if id(obj) in seen:
        return
    seen.add(id(obj))
    yield obj
    for m in list(obj.members.values()):
        if not m.is_alias:
            yield from all_objects(m, seen)


def abstract_chain(obj):
    frames = []
    n = 0
    while obj is not None and n < 50:
        kind = obj.kind.value
        members = [[k, [m.target_path] if m.is_alias else []] for k, m in obj.members.items()]
        params = [p.name for p in obj.parameters] if kind == "function" else []
        frames.append([kind if kind in ("module", "class", "function") else "class", obj.name, members, params])
        obj = obj.parent
        n += 1
    return frames


def impl_resolve(scope, name):
    import griffe
    try:
        return [scope.resolve(name)]
    except griffe.NameResolutionError:
        return []


def local_binders(expr):
    """ids of ExprName occurrences bound by the expression itself (comprehension targets, lambda parameters)."""
    import griffe
    out = set()

    def targets(e, acc):
        if isinstance(e, griffe.ExprName):
            acc.add(e.name)
        elif isinstance(e, griffe.Expr):
            for f in dataclasses.fields(e):
                targets(getattr(e, f.name), acc)
        elif isinstance(e, (list, tuple)):
            for x in e:
                targets(x, acc)

    def mark(e, bound):
        if isinstance(e, griffe.ExprName):
            if e.name in bound:
                out.add(id(e))
            return
        if isinstance(e, griffe.ExprAttribute):
            mark(e.values[0], bound)
            return
        if isinstance(e, griffe.Expr):
            b = set(bound)
            if isinstance(e, (griffe.ExprListComp, griffe.ExprSetComp, griffe.ExprDictComp, griffe.ExprGeneratorExp)):
                for g in e.generators:
                    targets(getattr(g, "target", None), b)
            if isinstance(e, griffe.ExprLambda):
                b |= {p.name for p in e.parameters}
            for f in dataclasses.fields(e):
                mark(getattr(e, f.name), b)
        elif isinstance(e, (list, tuple)):
            for x in e:
                mark(x, bound)
    mark(expr, set())
    return out


def load_package(root, directory):
    import griffe
    loader = griffe.GriffeLoader(search_paths=[str(directory)])
    pkg = loader.load(root)
    return loader, pkg


def site_expr(pkg_coll, s):
    """The stored expression of a generated site."""
    i, k = s["id"], s["kind"]
    carrier = {"ann": "u", "val": "v", "base": "c", "deco": "d", "default": "f", "pann": "g", "comp": "w", "lam": "w", "init": "a"}[k]
    obj = pkg_coll[s["scope"] + "." + carrier + str(i)]
    if k == "ann":
        return [obj.annotation]
    if k in ("val", "init", "comp", "lam"):
        return [obj.value]
    if k == "base":
        return [obj.bases[0]]
    if k == "deco":
        return [obj.decorators[0].value]
    if k == "default":
        return [obj.parameters["q"].default]
    return [obj.parameters["q"].annotation, obj.returns]


# ------------------------------------------------------------------------------------------------ checks
def run_oracle(ctx, jobs):
    d = ctx.scratch
    (d / "oracle.py").write_text(ORACLE)
    (d / "job.json").write_text(json.dumps({"packages": jobs}))
    env = {k: v for k, v in os.environ.items() if k not in ("PYTHONPATH",)}
    env["PYTHONHASHSEED"] = "0"
    env["PYTHONDONTWRITEBYTECODE"] = "1"
    p = subprocess.run([sys.executable, "-S", str(d / "oracle.py"), str(d / "job.json"), str(d / "out.json")],
                       capture_output=True, text=True, timeout=600, env=env)
    if p.returncode != 0:
        raise RuntimeError("oracle subprocess failed: " + p.stderr[-800:])
    return json.loads((d / "out.json").read_text())


def norm_model_path(p):
    return p


def check_clean_packages(ctx, n, tag):
    """Generate n packages, run Griffe + model on all, CPython on all (one subprocess), compare."""
    import griffe
    prepared = []
    for i in range(n):
        root = f"{tag}{i}"
        g = Gen(ctx.rng, root).build()
        files = g.files()
        d = ctx.scratch / f"{tag}{i}_dir"
        for rel, text in files.items():
            f = d / root / rel
            f.parent.mkdir(parents=True, exist_ok=True)
            f.write_text(text)
        prepared.append((g, files, d))
    jobs = []
    gr = []
    for g, files, d in prepared:
        case = {"root": g.root, "files": files}
        try:
            info = griffe_side(ctx, g, d)
        except Exception as e:  # noqa: BLE001
            import traceback
            ctx.property_failure(case, {"griffe raised while loading/resolving": traceback.format_exc()[-1200:]})
            info = None
        gr.append(info)
        paths = sorted(info["paths"]) if info else []
        jobs.append({"root": g.root, "dir": str(d), "modules": [m.dotted for m in g.all_mods],
                     "inits": [[c.mod.dotted, c.qual] for m in g.all_mods for c in g.walk_classes(m.scope) if c.init is not None],
                     "paths": paths,
                     "bindings": [[r["module_dotted"], r["qual"], r["bound"]] for r in g.imports]})
    results = run_oracle(ctx, jobs)
    for (g, files, d), info, res in zip(prepared, gr, results):
        ctx.observe("package_status", " ".join(res["status"].split(":")[:2]))
        ctx.observe("modules_per_package", len(g.all_mods))
        if info is None:
            continue
        if res["status"] != "ok":
            ctx.count("packages_discarded_not_importable")
            continue
        ctx.count("packages_compared")
        compare_package(ctx, g, files, info, res)


def griffe_side(ctx, g, d):
    """Load the package, query Griffe and the model for every site and import; returns what is needed for the comparison."""
    import griffe
    loader, pkg = load_package(g.root, d)
    coll = loader.modules_collection
    queries = []
    meta = []
    paths = set()
    for s in g.sites:
        exprs = site_expr(coll, s)
        s["g"] = []
        for expr in exprs:
            loc = local_binders(expr)
            names, attrs = [], []
            walk_exprs(expr, names, attrs)
            if s["kind"] in ("comp", "lam"):
                occ = [nm for nm in names if nm.name == s["root"]]
                for nm in occ:
                    queries.append(["resolve", abstract_chain(nm.parent), nm.name, id(nm) in loc])
                    meta.append(("site-root", s, nm, None))
                continue
            if s["segs"]:
                at = attrs[0]
                rootn = at.values[0]
                queries.append(["attr", abstract_chain(rootn.parent), rootn.name, [v.name for v in at.values[1:]]])
                meta.append(("site-attr", s, at, None))
            else:
                rootn = names[0]
            queries.append(["resolve", abstract_chain(rootn.parent), rootn.name, False])
            meta.append(("site-root", s, rootn, expr))
            # the scope the site was generated in (spec side and gap verdicts do not depend on where Griffe attached the expression)
            true_scope = coll[s["scope"]]
            if s["kind"] == "init":
                true_scope = true_scope.members["__init__"]
            if rootn.parent is not true_scope:
                queries.append(["resolve", abstract_chain(true_scope), rootn.name, False])
                meta.append(("site-true", s, rootn, None))
                ctx.count("sites_attached_to_another_scope")
    for r in g.imports:
        m = r["module_dotted"].split(".")
        if r["form"] == "import":
            queries.append(["import", r["comps"], [r["asname"]] if r["asname"] else []])
        else:
            queries.append(["from", m, r["is_init"], r["scope"], r["level"], [r["module"]] if r["module"] else [], r["name"],
                            [r["asname"]] if r["asname"] else []])
        meta.append(("import", r, None, None))
    outs = ctx.model(queries)
    if not hasattr(ctx, "_xq"):
        ctx._xq = []
    if len(ctx._xq) < 60:
        ctx._xq += queries[:6]
    info = {"paths": paths, "sites": {}, "imports": []}
    for q, (what, s, node, expr), mo in zip(queries, meta, outs):
        if what == "site-root":
            scope = node.parent
            impl = impl_resolve(scope, node.name)
            canon = node.canonical_path
            m_res, m_tag, m_py, m_wf, m_canon, m_pycanon, g1, g3 = mo
            if m_res != impl or m_canon != canon:
                ctx.tie_failure("correspondence", "resolve/canonical(model) vs Object.resolve/ExprName.canonical_path",
                                {"model": [m_res, m_canon], "impl": [impl, canon], "name": node.name, "scope": scope.path}, {"root": g.root, "files": g.files()})
            if m_wf != 1:
                ctx.tie_failure("harness", "generated scope chain is not well-formed for the model", {"scope": scope.path, "chain": q[1]})
            ctx.observe("model_tag", m_tag)
            ctx.observe("scope_kind", scope.kind.value)
            ctx.observe("chain_length", len(q[1]))
            rec = {"name": node.name, "canon": canon, "full": expr.canonical_path if expr is not None else canon, "res": impl,
                   "py": m_py, "pycanon": m_pycanon, "tag": m_tag, "gaps": [g1, g3], "local": bool(q[3])}
            s["g"].append(rec)
            for p in (canon, rec["full"], m_pycanon):
                paths.add(strip_param(p))
        elif what == "site-true":
            rec = s["g"][-1]
            rec["py"], rec["pycanon"], rec["tag"], rec["gaps"] = mo[2], mo[5], mo[1], [mo[6], mo[7]]
            paths.add(mo[5])
        elif what == "site-attr":
            at = node
            impl = [at.canonical_path, [v.canonical_path for v in at.values]]
            if mo != impl:
                ctx.tie_failure("correspondence", "attr_canonical(model) vs ExprAttribute.canonical_path", {"model": mo, "impl": impl}, {"root": g.root, "files": g.files()})
            ctx.observe("chain_segments", len(at.values))
        else:
            r = s
            scope = coll[r["scope"]]
            name = r["bound"]
            mem = scope.members.get(name)
            imp = scope.imports.get(name)
            if r["form"] == "import":
                gname, gpath, pname, ppath = mo
                want = ["alias", gname, gpath]
                spec = [pname, ppath]
            else:
                want, spec = mo
            if mem is not None and mem.is_alias:
                got = ["alias", name, mem.target_path]
            elif imp is not None:
                got = ["imports-only", name, imp]
            else:
                got = ["skip"]
            if got[0] != "skip" and imp != got[2]:
                got = ["inconsistent", name, imp, got[2]]
            if want != got:
                ctx.tie_failure("correspondence", "visit_import/visit_importfrom(model) vs alias members recorded by the visitor",
                                {"model": want, "impl": got, "stmt": r["text"], "scope": r["scope"]}, {"root": g.root, "files": g.files()})
            ctx.observe("import_outcome", got[0])
            ctx.observe("import_form", r["form"] + (":level%d" % r["level"] if r["form"] == "from" else "") + (":as" if r["asname"] else ""))
            # path CPython should evaluate for the direct check: the alias target, or the member of that name when no alias was made
            gp = got[2] if got[0] in ("alias", "imports-only") else (scope.members[name].path if name in scope.members else
                                                                      (scope.module.members[name].path if name in scope.module.members else None))
            info["imports"].append({"rec": r, "griffe_path": gp, "spec": spec})
            if gp:
                paths.add(gp)
            if spec:
                paths.add(spec[1])
    return info


def strip_param(p):
    return p


def compare_package(ctx, g, files, info, res):
    rec, pathdesc = res["rec"], res["paths"]
    case_base = {"root": g.root, "files": files}
    for s in g.sites:
        r = rec.get(str(s["id"]))
        if r is None:
            ctx.count("sites_not_executed")
            continue
        for gi in s["g"]:
            name = gi["name"]
            cp_root = r.get("root")
            nontrivial = gi["tag"] != "unresolved"
            ctx.case({"root": g.root, "site": s["id"], "kind": s["kind"], "expr": s["expr"], "scope": s["scope"], "src": files_digest(files)}, nontrivial)
            ctx.observe("site_kind", s["kind"])
            ctx.observe("cpython_root", cp_root[0])
            # (O) the spec model against CPython
            spec = expected_desc(gi["pycanon"], bool(gi["py"]) and not gi["local"], pathdesc)
            if not same_binding(spec, cp_root):
                ctx.tie_failure("oracle", "py_lookup(model) vs CPython evaluating the name in the referencing scope",
                                {"model_py": gi["pycanon"], "model_desc": spec, "cpython": cp_root, "site": s}, case_base)
            # direct: Griffe vs CPython
            got = expected_desc(gi["canon"], bool(gi["res"]), pathdesc)
            ok = same_binding(got, cp_root)
            if ok and s["segs"] and "full" in r and r["full"][0] == "obj":
                gf = expected_desc(gi["full"], bool(gi["res"]), pathdesc)
                ok = same_binding(gf, r["full"])
                ctx.observe("chain_outcome", "agree" if ok else "differ")
            elif s["segs"] and "full" in r:
                ctx.observe("chain_outcome", "cpython:" + r["full"][0])
            if not ok:
                g1, g3 = gi["gaps"]
                fid = "C04-F1" if g1 else "C04-F3" if g3 else None
                ctx.observe("mismatch", fid or "UNEXPLAINED")
                ctx.property_failure({**case_base, "site": {k: v for k, v in s.items() if k != "g"}},
                                     {"griffe": gi["canon"], "griffe_full": gi["full"], "griffe_as_object": got, "cpython": r, "model_tag": gi["tag"]}, finding=fid)
            else:
                ctx.observe("mismatch", "none")
    # import statements
    for b, imp in zip(res["bindings"], info["imports"]):
        r = imp["rec"]
        spec_desc = pathdesc.get(imp["spec"][1]) if imp["spec"] else None
        if imp["spec"] and (imp["spec"][0] != r["bound"] or spec_desc != b):
            ctx.tie_failure("oracle", "cpython_import/cpython_importfrom(model) vs the object CPython bound",
                            {"model": imp["spec"], "model_as_object": spec_desc, "cpython": b, "stmt": r["text"], "scope": r["scope"]}, case_base)
        gd = pathdesc.get(imp["griffe_path"]) if imp["griffe_path"] else ["none"]
        ctx.count("import_bindings_compared")
        if gd != b:
            ctx.property_failure({**case_base, "import": r}, {"griffe_target": imp["griffe_path"], "griffe_as_object": gd, "cpython_bound": b})


def files_digest(files):
    import hashlib
    return hashlib.sha1(json.dumps(files, sort_keys=True).encode()).hexdigest()[:12]


def expected_desc(path, resolved, pathdesc):
    """Turn a path returned by Griffe / the model into the kind of answer the oracle gives."""
    if not resolved:
        return ["unchanged"]      # NameResolutionError caught: the identifier stays as written
    if path.endswith(")") and "(" in path:
        return ["param", path]
    return pathdesc.get(path, ["dangling"])


def same_binding(got, cp):
    if cp is None:
        return False
    if got[0] == "unchanged":
        return cp[0] in ("unbound", "builtin", "local")
    if got[0] == "param":
        return cp[0] == "local"
    if got[0] == "obj":
        return cp[0] == "obj" and cp[1] == got[1]
    return False


# --- wild stream: correspondence and totality only
def check_wild_packages(ctx, n):
    import griffe
    for i in range(n):
        root = f"wild{i}"
        g = Gen(ctx.rng, root, wild=True).build()
        files = g.files()
        d = ctx.scratch / f"wild{i}_dir"
        for rel, text in files.items():
            f = d / root / rel
            f.parent.mkdir(parents=True, exist_ok=True)
            f.write_text(text)
        case = {"root": root, "files": files}
        try:
            for text in files.values():
                ast.parse(text)
        except SyntaxError as e:
            ctx.tie_failure("harness", "wild generator produced invalid syntax", str(e), case)
            continue
        try:
            check_all_names(ctx, root, d, case)
        except Exception:  # noqa: BLE001
            import traceback
            ctx.property_failure(case, {"griffe raised while loading/resolving": traceback.format_exc()[-1200:]})


def check_all_names(ctx, root, d, case):
    import griffe
    loader, pkg = load_package(root, d)
    queries, meta = [], []
    for obj in all_objects(pkg):
        for expr in object_exprs(obj):
            names, attrs = [], []
            walk_exprs(expr, names, attrs)
            for nm in names:
                if isinstance(nm.parent, (griffe.Module, griffe.Class, griffe.Function)):
                    queries.append(["resolve", abstract_chain(nm.parent), nm.name, False])
                    meta.append(("name", nm))
                else:
                    ctx.observe("wild_name_parent", type(nm.parent).__name__)
            for at in attrs:
                first = at.values[0]
                if isinstance(first, griffe.ExprName) and isinstance(first.parent, (griffe.Module, griffe.Class, griffe.Function)) \
                        and all(isinstance(v, griffe.ExprName) for v in at.values):
                    queries.append(["attr", abstract_chain(first.parent), first.name, [v.name for v in at.values[1:]]])
                    meta.append(("attr", at))
                    queries.append(["resolve", abstract_chain(first.parent), first.name, False])
                    meta.append(("name", first))
    outs = ctx.model(queries)
    for q, (what, node), mo in zip(queries, meta, outs):
        ctx.case({"wild": root, "name": q[2], "chain": canon_chain(q[1])}, True)
        if what == "name":
            impl = impl_resolve(node.parent, node.name)
            canon = node.canonical_path
            if mo[0] != impl or mo[4] != canon:
                ctx.tie_failure("correspondence", "resolve/canonical(model) vs Object.resolve/ExprName.canonical_path (wild stream)",
                                {"model": [mo[0], mo[4]], "impl": [impl, canon], "name": node.name, "scope": node.parent.path}, case)
            ctx.observe("wild_tag", mo[1])
            ctx.observe("wild_wf", mo[3])
            ctx.count("wild_names")
            # justified: a returned path is the target of an alias member or <scope path>.<name> of some scope on the chain, or a parameter
            if impl and not justified(node.parent, node.name, impl[0]):
                ctx.property_failure(case, {"unjustified path": impl[0], "name": node.name, "scope": node.parent.path})
        else:
            impl = [node.canonical_path, [v.canonical_path for v in node.values]]
            if mo != impl:
                ctx.tie_failure("correspondence", "attr_canonical(model) vs ExprAttribute.canonical_path (wild stream)", {"model": mo, "impl": impl}, case)
            ctx.count("wild_attrs")


def canon_chain(chain):
    import hashlib
    return hashlib.sha1(json.dumps(chain).encode()).hexdigest()[:12]


def justified(scope, name, path):
    o = scope
    while o is not None:
        m = o.members.get(name)
        if m is not None and ((m.is_alias and m.target_path == path) or (not m.is_alias and path == o.path + "." + name)):
            return True
        if o.kind.value == "function" and o.parent is not None and path == f"{o.parent.path}({name})" and name in o.parameters:
            return True
        if o.name == name and o.path == path and not o.is_module:
            return True
        o = None if o.is_module else o.parent
    return False


# --- synthetic trees built through the producer API: reaches the shapes the visitor never builds (ill-formed for the model's wf_chain)
def check_synthetic_trees(ctx, n):
    import griffe
    rng = ctx.rng
    pool = ["x", "y", "A", "B", "f", "__init__", "m", "p"]
    trees, queries = [], []
    for _ in range(n):
        depth = rng.randint(1, 5)
        objs = []
        for i in range(depth):
            r = rng.random()
            name = rng.choice(pool)
            if i == 0 and r < 0.8 or r < 0.25:
                o = griffe.Module(name)
            elif r < 0.65:
                o = griffe.Class(name)
            else:
                o = griffe.Function(rng.choice(["__init__", "__init__", name]),
                                    parameters=griffe.Parameters(*[griffe.Parameter(q) for q in rng.sample(pool, rng.randint(0, 3))]))
            for mname in rng.sample(pool, rng.randint(0, 4)):
                rr = rng.random()
                if rr < 0.4:
                    o.set_member(mname, griffe.Attribute(mname))
                elif rr < 0.6:
                    o.set_member(mname, griffe.Class(mname))
                else:
                    o.set_member(mname, griffe.Alias(mname, rng.choice(["ext.t", "m.x", "a.b.c", mname])))
            if objs:
                parent = objs[-1]
                rr = rng.random()
                parent.set_member(o.name, o)
                if rr < 0.15:
                    del parent.members[o.name]                         # detached child: still has a parent
                elif rr < 0.3:
                    parent.members[o.name] = griffe.Alias(o.name, "other.z")   # rebound after the definition
                    parent.members[o.name].parent = parent
            objs.append(o)
        inner = objs[-1]
        names = rng.sample(pool, 4) + ["zz"]
        chain = abstract_chain(inner)
        trees.append((inner, names, chain))
        queries += [["resolve", chain, nm, False] for nm in names] + [["attr", chain, names[0], ["s", "t"]]]
    allouts = ctx.model(queries)
    for k, (inner, names, chain) in enumerate(trees):
        outs = allouts[6 * k:6 * k + 6]
        for nm, mo in zip(names, outs):
            ctx.case({"synthetic": canon_chain(chain), "name": nm}, mo[1] != "unresolved")
            ctx.observe("synthetic_wf", mo[3])
            ctx.observe("synthetic_tag", mo[1])
            try:
                impl = impl_resolve(inner, nm)
                canon = griffe.ExprName(nm, inner).canonical_path
            except Exception as e:  # noqa: BLE001
                ctx.property_failure({"synthetic_chain": chain, "name": nm}, {"resolution raised": type(e).__name__ + ": " + str(e)})
                continue
            if mo[0] != impl or mo[4] != canon:
                ctx.tie_failure("correspondence", "resolve/canonical(model) vs Object.resolve/ExprName.canonical_path (synthetic trees)",
                                {"model": [mo[0], mo[4]], "impl": [impl, canon]}, {"synthetic_chain": chain, "name": nm})
            if impl and not justified(inner, nm, impl[0]):
                ctx.property_failure({"synthetic_chain": chain, "name": nm}, {"unjustified path": impl[0]})
        root = griffe.ExprName(names[0], inner)
        e1 = griffe.ExprName("s", root)
        e2 = griffe.ExprName("t", e1)
        at = griffe.ExprAttribute([root, e1, e2])
        impl = [at.canonical_path, [v.canonical_path for v in at.values]]
        if outs[-1] != impl:
            ctx.tie_failure("correspondence", "attr_canonical(model) vs ExprAttribute.canonical_path (synthetic trees)", {"model": outs[-1], "impl": impl},
                            {"synthetic_chain": chain, "name": names[0]})
        ctx.count("synthetic_trees")


# --- relative imports, exhaustive
def check_relative(ctx, maxdepth):
    import griffe
    from _griffe.agents.nodes.imports import relative_to_absolute
    names = ["p", "s", "t", "u", "v"]
    queries, cases = [], []
    for depth in range(1, maxdepth + 1):
        comps = names[:depth]
        for is_init in (False, True):
            for level in range(0, depth + 3):
                for module in (None, "x", "x.y"):
                    queries.append(["rel", level, comps, is_init, [module] if module else [], "n"])
                    cases.append((comps, is_init, level, module))
    outs = ctx.model(queries)
    for (comps, is_init, level, module), (m_griffe, m_spec) in zip(cases, outs):
        mod = None
        for i, c in enumerate(comps):
            last = i == len(comps) - 1
            fp = Path("/nonexistent", *comps[:i + 1], "__init__.py") if (not last or is_init) else Path("/nonexistent", *comps[:i], c + ".py")
            mod = griffe.Module(c, filepath=fp, parent=mod)
        node = ast.ImportFrom(module=module, names=[ast.alias(name="n")], level=level)
        try:
            impl = relative_to_absolute(node, node.names[0], mod)
        except Exception as e:  # noqa: BLE001
            impl = "raised:" + type(e).__name__
        package = ".".join(comps if is_init else comps[:-1])
        try:
            if level == 0:
                cp = (module + "." if module else "") + "n"
            else:
                cp = importlib.util.resolve_name("." * level + (module or ""), package) + ".n"
        except ImportError:
            cp = None
        ctx.case({"rel": [comps, is_init, level, module]}, level > 0)
        ctx.observe("relative_outcome", "import-error" if cp is None else "resolves")
        if m_griffe != impl:
            ctx.tie_failure("correspondence", "relative_to_absolute(model) vs griffe", {"model": m_griffe, "impl": impl}, {"rel": [comps, is_init, level, module]})
        if (m_spec[0] if m_spec else None) != cp:
            ctx.tie_failure("oracle", "cpython_from_target(model) vs importlib.util.resolve_name", {"model": m_spec, "cpython": cp}, {"rel": [comps, is_init, level, module]})
        if cp is not None and impl != cp:
            ctx.property_failure({"rel": [comps, is_init, level, module]}, {"griffe": impl, "cpython": cp})


# --- witnesses of the known findings, replayed on the implementation
def witnesses(ctx):
    import griffe
    kf = json.loads((Path(__file__).resolve().parents[2] / "findings" / "C04.json").read_text())["findings"]
    for f in kf:
        w = f["witness"]
        try:
            if "source" in w:
                mod = griffe.visit("m", filepath=None, code=w["source"])
                get = lambda p: mod[p[2:]]
            else:
                d = ctx.scratch / ("witness_" + f["id"])
                for rel, text in w["files"].items():
                    (d / rel).parent.mkdir(parents=True, exist_ok=True)
                    (d / rel).write_text(text)
                loader, pkg = load_package("pkg", d)
                get = lambda p: loader.modules_collection[p]
            ok = True
            for path, attr, name in w["lookups"]:
                expr = getattr(get(path), attr)
                names, attrs = [], []
                walk_exprs(expr, names, attrs)
                got = [n.canonical_path for n in names if n.name == name]
                ok = ok and bool(got) and all(g == w["griffe"] for g in got)
            ctx.witness(f["id"], ok)
        except Exception:  # noqa: BLE001
            ctx.witness(f["id"], False)


def replay_corpus(ctx):
    """Minimised past findings that were repaired: they must now PASS."""
    d = Path(__file__).resolve().parents[2] / "corpus" / "C04"
    for f in sorted(d.glob("*.json")):
        c = json.loads(f.read_text())
        root = ctx.scratch / ("corpus_" + f.stem)
        for rel, text in c["files"].items():
            (root / rel).parent.mkdir(parents=True, exist_ok=True)
            (root / rel).write_text(text)
        try:
            loader, pkg = load_package("pkg", root)
            for path, attr, name in c["lookups"]:
                names, attrs = [], []
                walk_exprs(getattr(loader.modules_collection[path], attr), names, attrs)
                got = [n.canonical_path for n in names if n.name == name]
                ctx.case({"corpus": f.name, "lookup": [path, attr, name]}, True)
                if not got or any(g != c["expect"] for g in got):
                    ctx.property_failure({"corpus": f.name, "files": c["files"], "root": "pkg"}, {"griffe": got, "expected": c["expect"], "what": c["what"]})
        except Exception as e:  # noqa: BLE001
            ctx.property_failure({"corpus": f.name, "files": c["files"], "root": "pkg"}, {"griffe raised": type(e).__name__ + ": " + str(e)})
        ctx.count("corpus_cases")


def explore(ctx):
    replay_corpus(ctx)
    witnesses(ctx)
    check_relative(ctx, ctx.budget(4, 5))
    batches = ctx.budget(8, 80)
    per = ctx.budget(60, 100)
    for b in range(batches):
        check_clean_packages(ctx, per, f"c{b}p")
    check_wild_packages(ctx, ctx.budget(120, 800))
    check_synthetic_trees(ctx, ctx.budget(1500, 20000))
    comp, disc = ctx.stats.get("packages_compared", 0), ctx.stats.get("packages_discarded_not_importable", 0)
    if comp < 0.5 * (comp + disc):
        ctx.tie_failure("harness", "generator", f"only {comp} of {comp + disc} generated packages were importable by CPython")
    if not ctx.quick:
        sample = [["rel", 2, ["p", "s", "t"], True, ["x"], "n"], ["import", ["a", "b"], []], ["import", ["a", "b"], ["c"]],
                  ["from", ["p", "s"], True, "p.s", 1, [], "t", []], ["from", ["p", "s"], True, "p.s", 2, ["a"], "K", ["z"]],
                  ["resolve", [["class", "B", [["y", []]], []], ["class", "A", [["x", []], ["B", []]], []], ["module", "m", [["x", []], ["A", []]], []]], "x", False],
                  ["resolve", [["module", "m", [["y", []]], []], ["module", "pkg", [["X", []], ["m", []]], []]], "X", False],
                  ["attr", [["module", "m", [["x", ["p.q"]]], []]], "x", ["a", "b"]]]
        ctx.cross_check_extraction(sample + getattr(ctx, "_xq", [])[:50])


def search(ctx):
    """A tie broke: implementation vs CPython only (no model). Every mismatch is reported unless a python mirror of the gap
    predicates explains it."""
    for b in range(6):
        prepared = []
        for i in range(50):
            root = f"s{b}p{i}"
            g = Gen(ctx.rng, root).build()
            files = g.files()
            d = ctx.scratch / f"{root}_dir"
            for rel, text in files.items():
                f = d / root / rel
                f.parent.mkdir(parents=True, exist_ok=True)
                f.write_text(text)
            prepared.append((g, files, d))
        jobs, infos = [], []
        for g, files, d in prepared:
            try:
                loader, pkg = load_package(g.root, d)
                coll = loader.modules_collection
                paths = set()
                for s in g.sites:
                    s["g"] = []
                    for expr in site_expr(coll, s):
                        names, attrs = [], []
                        walk_exprs(expr, names, attrs)
                        loc = local_binders(expr)
                        for nm in ([n for n in names if n.name == s["root"]] if s["kind"] in ("comp", "lam") else [attrs[0].values[0] if s["segs"] else names[0]]):
                            canon = nm.canonical_path
                            s["g"].append({"name": nm.name, "canon": canon, "res": bool(impl_resolve(nm.parent, nm.name)),
                                           "gap": py_gap(nm.parent, nm.name, id(nm) in loc)})
                            paths.add(canon)
                infos.append(True)
            except Exception:  # noqa: BLE001
                import traceback
                ctx.property_failure({"root": g.root, "files": files}, {"griffe raised": traceback.format_exc()[-800:]})
                return
            jobs.append({"root": g.root, "dir": str(d), "modules": [m.dotted for m in g.all_mods],
                         "inits": [[c.mod.dotted, c.qual] for m in g.all_mods for c in g.walk_classes(m.scope) if c.init is not None],
                         "paths": sorted(paths), "bindings": []})
        for (g, files, d), res in zip(prepared, run_oracle(ctx, jobs)):
            if res["status"] != "ok":
                continue
            for s in g.sites:
                r = res["rec"].get(str(s["id"]))
                if r is None:
                    continue
                for gi in s["g"]:
                    ctx.evaluations += 1
                    got = expected_desc(gi["canon"], gi["res"], res["paths"])
                    if not same_binding(got, r.get("root")) and not gi["gap"]:
                        ctx.property_failure({"root": g.root, "files": files, "site": {k: v for k, v in s.items() if k != "g"}},
                                             {"griffe": gi["canon"], "cpython": r})
                        return


def py_gap(scope, name, local):
    """Python mirror of gap_class / gap_local (Model/C04_scope.v), used only when the model cannot be run."""
    import griffe
    try:
        scope.resolve(name)
    except griffe.NameResolutionError:
        return False
    if local:
        return True
    o, inner = scope, True
    while o is not None:
        is_param = o.kind.value == "function" and o.parent is not None and o.name == "__init__" and name in o.parameters
        if is_param or name in o.members:
            return o.kind.value == "class" and not inner
        if o.parent is None or o.is_module:
            return False
        if name == o.parent.name and not o.parent.is_module:
            return o.parent.parent is None or o.parent.parent.kind.value == "class"
        inner = False
        o = o.parent
    return False


def replay(ctx, data):
    case = data.get("failing_input") or {}
    files = case.get("files")
    if not files:
        print("replay names no input:", data.get("no_longer_checks"), case.get("rel"))
        return 0
    root = case["root"]
    ctx.scratch.mkdir(parents=True, exist_ok=True)
    d = ctx.scratch / "replay"
    for rel, text in files.items():
        f = d / root / rel
        f.parent.mkdir(parents=True, exist_ok=True)
        f.write_text(text)
        print("#", root + "/" + rel)
        print(text)
    print("site:", case.get("site") or case.get("import"))
    print("detail:", json.dumps(data.get("detail"), indent=1))
    loader, pkg = load_package(root, d)
    s = case.get("site")
    if s:
        for expr in site_expr(loader.modules_collection, s):
            names, attrs = [], []
            walk_exprs(expr, names, attrs)
            print("griffe now:", str(expr), "->", getattr(expr, "canonical_path", None), [(n.name, n.canonical_path) for n in names])
    subprocess.run(["rm", "-rf", str(ctx.scratch)])
    return 0
