"""C06 - Alias resolution is total, all-or-nothing and cycle-safe on any import graph.

(C) model (heap of objects/aliases, get_member walking through alias members, resolve_target/_resolve_target with the
    passed-through flag, final_target with paths_seen, the resolve_aliases fixpoint loop) vs GriffeLoader on generated
    packages: the heap is abstracted from the loaded tree *before* resolution, both sides then run the same operation
    sequence (resolve_aliases x2, dereference every alias, resolve_aliases) and every observable is compared.
direct property evaluation (no model): load/resolve do not raise, every dereference is Ok(object) | AliasResolutionError |
    CyclicAliasError, no resolved alias dangles (partial chain), a second resolve_aliases is a no-op.
"""
from __future__ import annotations

import itertools
import logging
import os
import shutil
import signal
import sys
import traceback

ID = "C06"
LEVEL_TEXT = ("Theorems over heaps of any size and shape (cyclic, dangling, self-importing, aliases walked through, any state of the "
              "passed-through flags): the nested recursion resolve_target -> _resolve_target -> get_member -> Alias.members -> final_target "
              "-> target -> resolve_target, the tree recursion of resolve_module_aliases and the resolve_aliases while-loop all return "
              "with fuel #aliases+1 / 2#aliases+3 / #nodes+1 / #aliases+2; every outcome is success, AliasResolutionError or "
              "CyclicAliasError; flags are restored, stored links never change, a failed resolve_target leaves the alias unlinked and "
              "every stored link keeps leading to an object (all-or-nothing, for all heaps, modulo the decidable gap predicate "
              "targets_complete = false that wildcard expansion can produce). Fixpoint: proved unconditionally (no quiet-pass hypothesis) "
              "for every heap on which no target path runs through an alias member and stored chains are complete with unique paths - "
              "resolve_aliases returns normally, a further pass changes nothing and reports the same set, a second call returns the same "
              "set within 2 iterations; on those heaps the outcome of resolve_target is proved equal to a pure static walk and a failed "
              "resolution is proved to fail identically after any further resolutions. For heaps walked through alias members the "
              "fixpoint stays in conditional form. unique_paths is shown necessary by a witness heap abstracted from a real package. "
              "The model is tied to the code by abstracting the loaded tree of every generated package set into a heap term and "
              "comparing, operation by operation, unresolved sets, iteration counts, per-alias links, flags and dereference outcomes "
              "(incl. which alias an AliasResolutionError names), on trees as load() leaves them and on pristine trees (nothing "
              "dereferenced yet); the static walk over the initial heap is compared with the dereference outcomes after resolution; "
              "the known-gap attribution of every partial chain is computed by the extracted model (link_verdict). Wave 2: the outer loop of "
              "resolve_aliases WITH side-loading is proved, for every abstract world / pass / measure satisfying four stated hypotheses "
              "(progress uses up a finite measure, a quiet pass changes nothing, loads are reported as unresolved, a settled pass stays "
              "settled), to end within measure+2 passes on a fixpoint that a second call reproduces in <= 2 iterations; every observed "
              "resolve_aliases() of the side-loading streams is replayed through the extracted loop. implicit=False is covered by the "
              "theorems: raising the skip bit on any set of aliases (mark_skip, applied by the extracted model) preserves every "
              "hypothesis, and the fixpoint theorem is stated with it.")
LEVEL_NOTE = ("Modelled and verified: dereferencing/resolution (models.py Alias.*, mixins.py get_member) and resolve_module_aliases / "
              "resolve_aliases with implicit=True, external=False, as repaired by the fix commits for C06-F1, F2, F4, F5. NOT modelled: "
              "load(), expand_exports, expand_wildcards (any exception leaving them is a violation; the heap handed to the model is "
              "abstracted after wildcard expansion has stabilised, graphs where it does not are only evaluated directly; whether the "
              "second resolve_aliases leaves the whole tree unchanged is evaluated directly) and side-loading during resolution "
              "(external != False: only the outer loop is modelled, over an abstract pass - C06_side_loading_loop; its hypotheses (1)-(3) are "
              "read off the code and checked on every observed pass, (4) is proved for external=False on direct heaps and otherwise "
              "evaluated; error discipline and the fixpoint over three calls are evaluated directly on the "
              "implementation, with and without wildcard imports between the packages). C06_fixpoint_direct_heaps needs direct, "
              "chains_complete and unique_paths; C06_fixpoint_partial (all heaps) is conditional on a quiet pass; the unconditional "
              "statement is checked at run time on every explored heap, model and implementation. Known: C06-F3 (wildcard-expanded "
              "aliases are created resolved onto chains that may dangle), C06-F9 (false CyclicAliasError through a replaced alias with the "
              "same path), C06-F6/F7/F8 (side-loading re-enters an object under iteration; wildcards of side-loaded packages expanded "
              "one call late; re-imported wildcard pseudo-members grow at every call) - F6, F7, F8 have fix commits prepared. "
              "Trusted: Coq kernel, extraction, the tree->heap abstraction (Snapshot), the comparison code and the trace-based "
              "classifiers of F6/F7/F8 in this module.")
MODEL = ("Model.C06_alias", "run_C06")
COQ_TARGETS = ["Proofs/C06_alias.vo", "Proofs/C06_fixpoint.vo", "Proofs/C06_sideload.vo"]
RULE = ("import graphs written as packages under the scratch directory and loaded with GriffeLoader(allow_inspection=False): "
        "(1) every assignment of {nothing, def, from T import n [as name]} to the (module,name) slots of 2 modules x 2 names, T over modules + "
        "missing module (4096 graphs; quick: seeded sample) and the same with a module alias p.m to walk through (10^4; quick: sample); "
        "(2) 3 modules x 1 name with one optional binding and one optional wildcard import per module in both orders (sampled); "
        "(3) seeded random graphs over 5 and 6 modules (defs, from-imports plain/renamed/relative/through a member/missing/other package/"
        "of submodules, import [as], wildcards, __all__ literal or built from other modules' __all__ (x.__all__ + [...], +=, starred), "
        "a class importing in its body), with and without wildcards; "
        "(3b) exports family: 3 or 4 modules, each binding names to the other modules (and itself) by the real path, a re-export of "
        "another module (module alias chains) or import-as, and building __all__ from the __all__ of what those names denote "
        "(reference cycles, cycles only through module aliases, self and dangling references); "
        "(4) random graphs over packages p, q, r loaded in every order of every 2- or 3-subset into one collection (quick: 4 orders each), "
        "with or without resolve_aliases between loads; then resolve, resolve, dereference every alias, resolve (every third case first "
        "dereferences lazily one alias at a time, recording links after each); every second case of (1)-(4) runs on the pristine tree "
        "(expand_exports / expand_wildcards overridden by no-ops on the loader, so that no alias has been dereferenced before the first operation); "
        "every fifth case of (1)-(4) calls resolve_aliases(implicit=False) (non-exported aliases carry the model's skip bit); __all__ forms "
        "include lists built from a list of the module itself, which expand_exports leaves unexpanded in Module.exports; "
        "(3c) a package plus a stubs-only distribution for it in another search path (load(find_stubs_package=True)), both random import "
        "graphs, with a stub-only submodule importing names that may not exist; "
        "(5) implementation only: random graphs over packages p, _p, q of which one or two are loaded (both orders) and the others are "
        "side-loaded during resolve_aliases(external=True / None, implicit True / False), three calls, with load / expand_wildcards / "
        "resolve_module_aliases traced through the public methods - wildcard-free, and (5b) with wildcard imports between the packages "
        "(package-level `from other import *` re-exports made frequent, so that several packages import the same unloaded one). "
        "non-trivial = at least one alias or an escape; "
        "distinct by canonical case value")
TRUSTED = ["abstraction: Snapshot walks collection.members / Object.members and reads Alias._target, target_path, _passed_through, name; "
           "aliases manufactured by Alias.members are encoded as (path, member) references",
           "known-finding attribution of C06-F3 / C06-F9 is the extracted model's link_verdict, required to agree with the harness mirror classify_partial",
           "known-finding attribution of C06-F6 / F7 / F8 (side-loading, wildcard expansion: not modelled) are harness predicates over the traced calls and the live tree"]
ASSUMPTIONS = ["packages are static source trees with __init__.py (no namespace packages or inspection; stubs only as a stubs-only distribution in a second search path)",
               "model correspondence uses resolve_aliases(external=False), implicit True or False (False: the harness marks the aliases not listed as strings in their module's __all__ with the skip bit); external=True/None only in the implementation-only side-loading streams",
               "pristine cases override the public methods expand_exports / expand_wildcards on the loader instance (as a subclass could)"]

ALARM_S = 4
ALARM_RETRY_S = 20          # a watchdog hit is re-run once with this limit before it counts (the machine may be stalled)
RETRY_BUDGET_S = 90         # ... as long as the run has spent less than this on such re-runs altogether (a changed tree that
                            # hangs on many inputs must not turn into a retry storm: further hits are reported as they are)
_alarm_s = [ALARM_S]
_retry_spent = [0.0]
_hangs = [0]                # watchdog hits reported as failures in this run
MAX_HANGS = 5               # enough failing inputs of that kind: stop exploring (each further one costs ALARM_S seconds)


def enough_failures(ctx):
    return len(ctx.prop_failures) >= 20 or _hangs[0] >= MAX_HANGS


def retry_allowed():
    return _retry_spent[0] < RETRY_BUDGET_S


class long_alarm:
    """`with long_alarm():` re-run under the long limit, charging the wall time to the retry budget."""

    def __enter__(self):
        import time
        self.t0 = time.time()
        _alarm_s[0] = ALARM_RETRY_S

    def __exit__(self, *exc):
        import time
        _alarm_s[0] = ALARM_S
        _retry_spent[0] += time.time() - self.t0
        return False


# --------------------------------------------------------------------------------------------------------------------
# import graphs -> packages on disk
# --------------------------------------------------------------------------------------------------------------------
def write_packages(files: dict, root: str):
    """files: dotted module name -> source. A module is a package iff another module lives below it."""
    shutil.rmtree(root, ignore_errors=True)
    pk = {m for m in files for n in files if n.startswith(m + ".")}
    for m, src in files.items():
        parts = m.split(".")
        if m in pk or len(parts) == 1:
            path = os.path.join(root, *parts, "__init__.py")
        else:
            path = os.path.join(root, *parts[:-1], parts[-1] + ".py")
        os.makedirs(os.path.dirname(path), exist_ok=True)
        with open(path, "w") as f:
            f.write(src)


def write_stub_packages(stubs: dict, root: str):
    """stubs: dotted module name -> .pyi source, written as a stubs-only distribution `<top>-stubs/` under `root`
    (another search path than the one of the package itself)."""
    shutil.rmtree(root, ignore_errors=True)
    pk = {m for m in stubs for n in stubs if n.startswith(m + ".")}
    for m, src in stubs.items():
        parts = m.split(".")
        parts[0] += "-stubs"
        if m in pk or len(parts) == 1:
            path = os.path.join(root, *parts, "__init__.pyi")
        else:
            path = os.path.join(root, *parts[:-1], parts[-1] + ".pyi")
        os.makedirs(os.path.dirname(path), exist_ok=True)
        with open(path, "w") as f:
            f.write(src)


class Watchdog(Exception):
    pass


def _alarm(*_a):
    raise Watchdog()


def classify_exc(e: BaseException):
    """Exception -> [type name, griffe function names of the innermost frames (innermost last)]."""
    tb = traceback.extract_tb(e.__traceback__)
    fr = [f.name for f in tb if "/_griffe/" in f.filename]
    # the recursive call on a wildcard's target module is wrapped in `except (AliasResolutionError, CyclicAliasError)`:
    # no known escape can pass through it
    protected = any(f.name == "expand_wildcards" and "expand_wildcards(target" in (f.line or "") for f in tb)
    return [type(e).__name__, fr, protected]


def guarded(fn):
    """Run fn() under the watchdog. Returns ('ok', value) | ('timeout',) | ('recursion',) | ('raise', [type, frames], msg)."""
    from _griffe.exceptions import AliasResolutionError, CyclicAliasError  # noqa: F401
    old = signal.signal(signal.SIGALRM, _alarm)
    signal.alarm(_alarm_s[0])
    try:
        return ("ok", fn())
    except Watchdog:
        return ("timeout",)
    except RecursionError:
        return ("recursion",)
    except Exception as e:  # noqa: BLE001
        named = getattr(e, "alias", None) if type(e).__name__ == "AliasResolutionError" else \
            (list(getattr(e, "chain", [])) if type(e).__name__ == "CyclicAliasError" else None)
        return ("raise", classify_exc(e), str(e).replace("\n", " | ")[:200], named)
    finally:
        signal.alarm(0)
        signal.signal(signal.SIGALRM, old)


# --------------------------------------------------------------------------------------------------------------------
# abstraction: loaded tree -> heap term of the model
# --------------------------------------------------------------------------------------------------------------------
class Snapshot:
    """nodes[i] = ["obj", path, container?, [[name, id]...]] | ["alias", path, target_parts, target_ref, passed, wild]
    target_ref = [] | ["real", id] | ["virt", path, id]; objs[i] is the live object."""

    def __init__(self, loader, implicit=True):
        """implicit=False: resolve_module_aliases skips the aliases that are not exported (`name in parent.__all__`,
        strings only); they get the same skip bit as wildcard pseudo-members (the model's loop treats both alike)."""
        self.implicit = implicit
        from _griffe.enumerations import Kind
        from _griffe.models import Alias
        self.nodes = []
        self.objs = []
        self.ids = {}
        self.Alias = Alias
        self.Kind = Kind
        self.pending = []
        self.skip = []
        self.collection = [[name, self.add(m)] for name, m in loader.modules_collection.members.items()]
        while self.pending:
            i = self.pending.pop()
            self.nodes[i][3] = self.ref(self.objs[i]._target)

    def add(self, o) -> int:
        k = id(o)
        if k in self.ids:
            return self.ids[k]
        i = len(self.nodes)
        self.ids[k] = i
        self.nodes.append(None)
        self.objs.append(o)
        if o.is_alias:
            wild = o.name.endswith("/*")
            self.nodes[i] = ["alias", o.path, o.target_path.split("."), None, bool(o._passed_through),
                             wild or (not self.implicit and not self.exported(o))]
            if self.nodes[i][5] and not wild:
                self.skip.append(i)                     # implicit=False: not exported (the model raises the bit itself: mark_skip)
            self.pending.append(i)
        else:
            self.nodes[i] = ["obj", o.path, o.kind in (self.Kind.MODULE, self.Kind.CLASS), None]
            self.nodes[i][3] = [[name, self.add(m)] for name, m in o.members.items()]
        return i

    def exported(self, o):
        parent = o._parent
        if parent is None or parent.is_alias or not parent.is_module or not parent.exports:
            return False
        return o.name in [e for e in parent.exports if isinstance(e, str)]

    def ref(self, t):
        if t is None:
            return []
        if t.is_alias and isinstance(t._parent, self.Alias) and id(t) not in self.ids:
            # an alias manufactured by Alias.members: resolved by construction onto a member of a real object
            return ["virt", t.path, self.add(t._target)]
        return ["real", self.add(t)]

    def alias_ids(self):
        return [i for i, n in enumerate(self.nodes) if n[0] == "alias"]

    def describe_target(self, o):
        """Observable description of an alias' link, by paths (ids may be renumbered between snapshots)."""
        t = o._target
        if t is None:
            return []
        if t.is_alias and isinstance(t._parent, self.Alias) and id(t) not in self.ids:
            return ["virt", t.path, t._target.path]
        return ["real", t.path]

    def state(self):
        return [[self.nodes[i][1], self.describe_target(self.objs[i]), bool(self.objs[i]._passed_through)] for i in self.alias_ids()]

    def term(self):
        """[collection, nodes with the wild bit as the visitor set it, ids the model has to skip (mark_skip)]"""
        skip = set(self.skip)
        return [self.collection, [n[:5] + [False] if k in skip else n for k, n in enumerate(self.nodes)], sorted(skip)]


def deref(o):
    """The observable of dereferencing one alias."""
    from _griffe.exceptions import AliasResolutionError, CyclicAliasError
    try:
        ft = o.final_target
    except AliasResolutionError as e:
        return ["are", e.alias.path]
    except CyclicAliasError:
        return ["cyc"]
    if ft.is_alias:
        return ["final-is-alias", ft.path]
    return ["ok", ft.path]


def expand_all(loader):
    for m in list(loader.modules_collection.members.values()):
        loader.expand_wildcards(m, external=False)


def structure(loader):
    s = Snapshot(loader)
    return [s.collection, s.nodes]


def run_impl(files: dict, loads: list, root: str, interleave: bool = False, ops=("resolve", "resolve", "deref", "resolve"),
             pristine: bool = False, implicit: bool = True, stubs: dict | None = None):
    """Load the packages in `loads` order into one collection, then run `ops`. Everything observable is returned.

    pristine: expand_exports / expand_wildcards are overridden by no-ops on the loader instance, so that the tree is
    exactly what the visitor built: no alias has been dereferenced yet (since expand_exports visits `module.modules`,
    which asks every member for its kind, a plain load() leaves most resolvable aliases already resolved) and the
    operations start from a heap on which everything is still to be resolved.

    rec = {"stage": None | name of the stage that failed, "fail": guarded() failure tuple,
           "heap": model input term (abstracted before the first op), "obs": [per-op observation], "states": [...]}"""
    import griffe
    write_packages(files, root)
    search_paths = [root]
    if stubs:
        write_stub_packages(stubs, root + "-typeshed")
        search_paths.append(root + "-typeshed")
    rec = {"stage": None, "fail": None, "heap": None, "obs": [], "states": [], "pre_unstable": False, "mid": [],
           "structs": [], "leaked": []}
    loader = griffe.GriffeLoader(search_paths=search_paths, allow_inspection=False)
    rec["loader"] = loader
    if pristine:
        loader.expand_exports = lambda *a, **k: None
        loader.expand_wildcards = lambda *a, **k: None

    def escaped(stage, r):
        """Record an escape; abstract the collection as it is now so that the model can confirm the error is genuine."""
        rec["stage"], rec["fail"] = stage, r
        try:
            rec["esc_snap"] = Snapshot(loader, implicit)
        except Exception:  # noqa: BLE001
            rec["esc_snap"] = None
        return rec

    for k, pkg in enumerate(loads):
        r = guarded(lambda: loader.load(pkg, try_relative_path=False, find_stubs_package=bool(stubs)))
        if r[0] != "ok":
            return escaped(f"load:{pkg}", r)
        if interleave and k + 1 < len(loads):
            r = guarded(lambda: loader.resolve_aliases(implicit=implicit, external=False))
            if r[0] != "ok":
                rec["stage"], rec["fail"] = f"resolve-after:{pkg}", r
                return rec
            rec["mid"].append(sorted(r[1][0]))
    # resolve_aliases starts by expanding wildcards in every module of the collection; do that here (same calls) until
    # the tree is stable, so that the heap handed to the model is the heap the resolution loop really starts from
    prev = None
    for _ in range(4):
        r = guarded(lambda: expand_all(loader))
        if r[0] != "ok":
            return escaped("expand", r)
        cur = structure(loader)
        if cur == prev:
            break
        prev = cur
    else:
        rec["pre_unstable"] = True
    snap = Snapshot(loader, implicit)
    rec["snap"] = snap
    rec["heap"] = snap.term()
    rec["states"].append(snap.state())
    for op in ops:
        if op == "resolve":
            r = guarded(lambda: loader.resolve_aliases(implicit=implicit, external=False))
            if r[0] != "ok":
                rec["stage"], rec["fail"] = f"op{len(rec['obs'])}:resolve", r
                return rec
            rec["obs"].append(["resolve", sorted(r[1][0]), r[1][1]])
            rec["structs"].append(structure(loader))          # the whole tree, not only the aliases of the snapshot
            rec["leaked"].append(leaked_wildcards(loader))
        else:
            out = []
            for i in snap.alias_ids():
                r = guarded(lambda i=i: deref(snap.objs[i]))
                if r[0] != "ok":
                    rec["stage"], rec["fail"] = f"op{len(rec['obs'])}:deref:{snap.nodes[i][1]}", r
                    return rec
                out.append(r[1] if op == "deref" else [r[1], snap.state()])
            rec["obs"].append([op, out])
        rec["states"].append(snap.state())
    rec["post_structure_same"] = (structure(loader)[0] == snap.collection)
    return rec


# --------------------------------------------------------------------------------------------------------------------
# generators
# --------------------------------------------------------------------------------------------------------------------
NAMES = ["x", "y", "_z"]
MODS5 = ["p", "p.a", "p.b", "p.s", "p.s.c"]


def slot_options(mods, names, extra_targets):
    """Statements that may bind `name` in a module: nothing, a definition, or `from T import n as name`."""
    targets = list(mods) + list(extra_targets)
    return [None, "def"] + [("from", t, n) for t in targets for n in names]


def render_slot(name, opt):
    if opt is None:
        return []
    if opt == "def":
        return [f"def {name}(): ..."]
    _, t, n = opt
    return [f"from {t} import {n}" + ("" if n == name else f" as {name}")]


def exhaustive_chain_graphs(mods, names, extra_targets, prelude=None):
    """Every assignment of one option to each (module, name) slot (after fixed prelude lines, e.g. a module alias)."""
    opts = slot_options(mods, names, extra_targets)
    slots = [(m, n) for m in mods for n in names]
    for choice in itertools.product(range(len(opts)), repeat=len(slots)):
        files = {m: list((prelude or {}).get(m, [])) for m in mods}
        for (m, n), c in zip(slots, choice):
            files[m] += render_slot(n, opts[c])
        yield {m: "\n".join(ls) + "\n" for m, ls in files.items()}


def wildcard_family(mods, name, targets):
    """Exhaustive second family: per module one optional binding of `name` and one optional wildcard import."""
    bind = [None, "def"] + [("from", t, name) for t in targets]
    wild = [None] + list(targets)
    per_mod = [(b, w, order) for b in bind for w in wild for order in ((0, 1) if (b and w) else (0,))]
    for choice in itertools.product(per_mod, repeat=len(mods)):
        files = {}
        for m, (b, w, order) in zip(mods, choice):
            ls = render_slot(name, b)
            ws = [f"from {w} import *"] if w else []
            files[m] = "\n".join((ls + ws) if order == 0 else (ws + ls)) + "\n"
        yield files


LEAVES = ["a", "b", "s", "c"]


def bound_names(lines):
    """Names bound so far by the import/def lines of a generated module (source level)."""
    import ast
    out = []
    for node in ast.parse("\n".join(lines)).body:
        if isinstance(node, (ast.Import, ast.ImportFrom)):
            out += [(a.asname or a.name).split(".")[0] for a in node.names if a.name != "*"]
        elif isinstance(node, (ast.FunctionDef, ast.ClassDef)):
            out.append(node.name)
    return out


def export_line(rng, names, lines):
    """`__all__` as a literal list, or built from other modules' `__all__` (`x.__all__ + [...]`, `+=`, starred): the
    references expand_exports follows, through whatever the name is bound to (module, module alias, anything else)."""
    lit = repr([rng.choice(names) for _ in range(rng.randint(0, 2))])
    r = rng.random()
    if r < 0.3:
        return f"__all__ = {lit}"
    if r < 0.4:
        # a list defined in the module itself: expand_exports cannot expand the name, it stays in Module.exports
        extra = repr([rng.choice(names)])
        return rng.choice([f"_BASE = {extra}\n__all__ = _BASE + {lit}", f"_BASE = {extra}\n__all__ = {lit}\n__all__ += _BASE",
                           f"_BASE = {extra}\n__all__ = [*_BASE, *{lit}]"])
    pool = bound_names(lines) or names
    ref = rng.choice(pool) if rng.random() < 0.8 else rng.choice(names + LEAVES + ["K", "zz", "__all__"])
    ref = ref if ref == "__all__" else ref + ".__all__"
    if r < 0.65:
        return f"__all__ = {ref} + {lit}"
    if r < 0.8:
        return f"__all__ = {lit}\n__all__ += {ref}"
    if r < 0.9:
        return f"__all__ = [*{ref}, *{lit}]"
    return f"__all__ = {ref} + {rng.choice(pool)}.__all__"


def exports_family(rng, mods=("p", "p.a", "p.b")):
    """Structured family for expand_exports: every module binds names to the other modules (and to itself) by one of
    several routes - the real submodule path, a re-export of another module (a module alias, possibly a chain of them),
    `import .. as` - and builds its `__all__` from the `__all__` of the modules those names denote.  Reference cycles,
    cycles that only exist through module aliases, self references and dangling references all occur."""
    leaf = {m: (m.split(".")[-1] if "." in m else "pp") for m in mods}
    files = {}
    for m in mods:
        lines, bound = [], []
        for t in mods:
            if rng.random() < 0.35:
                continue
            n = leaf[t]
            route = rng.random()
            if route < 0.3:
                lines.append(f"import {t} as {n}")                                   # the module itself
            elif route < 0.5 and "." in t:
                lines.append(f"from {t.rsplit('.', 1)[0]} import {n}")               # real submodule of its package
            elif route < 0.9:
                lines.append(f"from {rng.choice([o for o in mods if o != t] or list(mods))} import {n}")   # re-export by another module
            else:
                lines.append(f"from {rng.choice(list(mods))} import {rng.choice(list(leaf.values()))} as {n}")
            bound.append(n)
        lines.append(f"class X{leaf[m]}: ...")
        r = rng.random()
        lit = f"['X{leaf[m]}']"
        refs = bound or ["zz"]
        if bound and rng.random() < 0.5:
            lit = repr([f"X{leaf[m]}"] + rng.sample(bound, rng.randint(1, len(bound))))      # the re-exports are exported too
        if r < 0.1:
            pass
        elif r < 0.2:
            lines.append(f"_OWN = {lit}\n__all__ = _OWN + {[rng.choice(bound)] if bound else []!r}")   # stays unexpanded
        elif r < 0.3:
            lines.append(f"__all__ = {lit}")
        elif r < 0.7:
            lines.append(f"__all__ = {rng.choice(refs)}.__all__ + {lit}")
        elif r < 0.85:
            lines.append(f"__all__ = {lit}\n__all__ += {rng.choice(refs)}.__all__")
        else:
            lines.append(f"__all__ = {rng.choice(refs)}.__all__ + {rng.choice(refs)}.__all__ + {lit}")
        files[m] = "\n".join(lines) + "\n"
    return files


def random_graph(rng, mods, names, pkgs=("p",), p_wild=0.18, p_through=0.2, maxlines=4):
    """Random import graph: definitions, from-imports (plain, renamed, relative, through an alias member, from missing
    modules and from other packages), plain imports, wildcard imports, __all__, a class that imports in its body."""
    files = {}
    others = [f"{q}" for q in ("p", "q", "r") if q not in pkgs] + ["zz"]
    for m in mods:
        lines = []
        top = m.split(".")[0]
        for _ in range(rng.randint(0, maxlines)):
            k = rng.random()
            nm = rng.choice(names)
            r = rng.random()
            if r < p_through:
                tgt = rng.choice(mods) + "." + rng.choice(names + ["K"])   # a path that runs through a member
            elif r < p_through + 0.12:
                tgt = rng.choice([top + ".missing", rng.choice(others), rng.choice(mods) + ".missing"])
            else:
                tgt = rng.choice(mods)
            if k < 0.17:
                lines.append(f"{nm} = 1")
            elif k < 0.25:
                lines.append(f"def {nm}(): ...")
            elif k < 0.30:
                lines.append(f"class K:\n    {rng.choice(names)} = 1\n    from {tgt} import {rng.choice(names)}")
            elif k < 0.58:
                src = rng.choice(names + ["K"]) if rng.random() < .8 else rng.choice(LEAVES)   # sometimes a (re-exported) submodule
                lines.append(f"from {tgt} import {src} as {nm}" if rng.random() < .5 else
                             f"from {tgt} import {src if src in LEAVES else nm}")
            elif k < 0.58 + p_wild:
                lines.append(f"from {tgt} import *")
            elif k < 0.86:
                leaf = rng.choice(["a", "b", "s", "c", nm])
                form = rng.random()
                if form < 0.4:
                    lines.append(f"from . import {leaf}")
                elif form < 0.7:
                    lines.append(f"from . import {leaf} as {nm}")
                elif form < 0.85:
                    lines.append(f"from .{leaf} import {rng.choice(names)}")
                else:
                    lines.append(f"from .. import {leaf}")
            elif k < 0.91:
                lines.append(export_line(rng, names, lines))
            else:
                lines.append(f"import {tgt}" + (f" as {nm}" if rng.random() < .6 else ""))
        files[m] = "\n".join(lines) + "\n"
    return files


STUB_SRC_MODS = ["p", "p.a", "p.b"]
STUB_PYI_MODS = ["p", "p.a", "p.c"]              # p.c: a stub-only submodule (a compiled helper has no .py)


def random_stubs(rng):
    """A package and a stubs-only distribution for it found in another search path (`p` + `<typeshed>/p-stubs`,
    load(find_stubs_package=True)): both sides are random import graphs, the stubs re-export from the package, and the
    stub-only submodule imports names that may not exist anywhere."""
    files = random_graph(rng, STUB_SRC_MODS, NAMES, p_wild=0.08, p_through=0.15, maxlines=3)
    stubs = {}
    for m in STUB_PYI_MODS:
        lines = []
        for _ in range(rng.randint(1, 3)):
            nm = rng.choice(NAMES)
            k = rng.random()
            if k < 0.3:
                lines.append(f"def {nm}() -> None: ...")
            elif k < 0.75:
                tgt = rng.choice(STUB_SRC_MODS + STUB_PYI_MODS + ["p._native", "p.zz", "zz"])
                src = rng.choice(NAMES + ["K"])
                lines.append(f"from {tgt} import {src} as {nm}")
            elif k < 0.85:
                lines.append(f"from {rng.choice(STUB_SRC_MODS + STUB_PYI_MODS)} import *")
            else:
                lines.append(f"__all__ = {[rng.choice(NAMES)]!r}")
        stubs[m] = "\n".join(lines) + "\n"
    return files, stubs


def graph_features(files):
    """Structural facts about an import graph used by the known-finding classifiers (source level)."""
    import ast
    wild = []
    for m, src in files.items():
        for node in ast.walk(ast.parse(src)):
            if isinstance(node, ast.ImportFrom) and any(a.name == "*" for a in node.names):
                wild.append((m, node.module, node.level))
    return {"wildcards": wild, "has_wildcard": bool(wild)}


# --------------------------------------------------------------------------------------------------------------------
# direct evaluation of the property on the implementation + attribution to known findings
# --------------------------------------------------------------------------------------------------------------------
def stored_chain(snap, i):
    """Follow the stored links from alias node i on the live objects: (ids of real aliases met, saw a virtual link)."""
    seen, virt = [], False
    o = snap.objs[i]
    for _ in range(4 * len(snap.nodes) + 4):
        if not o.is_alias:
            break
        k = snap.ids.get(id(o))
        if k is None:
            virt = True
        elif k in seen:
            break
        else:
            seen.append(k)
        if o._target is None:
            break
        o = o._target
    return seen, virt


def classify_partial(snap, i):
    """Alias i has a stored link yet dereferencing it raises. Known finding id or None (Python mirror of the model's
    link_verdict, which decides wherever the case reaches the model).
    C06-F9: followed object by object the stored chain does reach a real object - two distinct aliases of the chain
            merely share a path (one of them was replaced in the tree by a wildcard expansion), which final_target's
            paths_seen takes for a cycle.
    C06-F3: the chain runs through a link that wildcard expansion stored before any resolution; resolve_target never
            stores a link onto a chain that does not reach an object (C06_all_or_nothing_modulo_known)."""
    o, met = snap.objs[i], set()
    while o.is_alias and o._target is not None and id(o) not in met and len(met) < 4 * len(snap.nodes) + 4:
        met.add(id(o))
        o = o._target
    if not o.is_alias:
        return "C06-F9"
    chain, _virt = stored_chain(snap, i)
    if any(snap.nodes[k][3] for k in chain):
        return "C06-F3"
    return None


VERDICT_FINDING = {"false-cycle": "C06-F9", "preresolved": "C06-F3"}


def report_partial(ctx, case, rec, verdicts=None):
    """Aliases that are resolved yet do not dereference: attribute to a known finding only where the faithful model
    reproduces the failure and names the gap (link_verdict on the heap the model's own run left), and the Python
    mirror agrees; without model verdicts (tree not abstractable) the mirror alone decides."""
    snap = rec["snap"]
    order = {i: k for k, i in enumerate(snap.alias_ids())}
    for path, (i, d, tgt) in rec.get("partial", {}).items():
        py = classify_partial(snap, i)
        if verdicts is None:
            finding = py
        else:
            v = verdicts[order[i]] if order[i] < len(verdicts) else None
            finding = VERDICT_FINDING.get(v)
            ctx.observe("partial_chain_model_verdict", str(v))
            if finding != py:
                ctx.tie_failure("correspondence", "known-gap classifier: model link_verdict vs harness mirror",
                                {"alias": path, "model": v, "mirror": py}, case)
                finding = None
        if finding is not None and finding not in ctx.known:
            finding = None
        ctx.observe("partial_chain", finding or "unclassified")
        ctx.property_failure(case, {"alias": path, "resolved_but": d, "link": tgt}, finding=finding)


def in_tree(snap, i):
    """Is alias node i reachable as a declared member from the collection (resolve_module_aliases only visits those)?"""
    if not hasattr(snap, "_tree"):
        seen, stack = set(), [j for _, j in snap.collection]
        while stack:
            j = stack.pop()
            if j in seen:
                continue
            seen.add(j)
            if snap.nodes[j][0] == "obj" and (snap.nodes[j][2] or j in [c for _, c in snap.collection]):
                stack.extend(k for _, k in snap.nodes[j][3])
        snap._tree = seen
    return i in snap._tree


def evaluate(ctx, files, loads, rec, case):
    """The property itself, on the implementation. Returns True when the run is usable for the model comparison."""
    if rec["stage"]:
        f = rec["fail"]
        kind = f[0] if f[0] != "raise" else f[1][0]
        ctx.observe("escape", f"{rec['stage'].split(':')[0]}:{kind}")
        detail = {"stage": rec["stage"], "outcome": f[0], "exception": f[1] if f[0] == "raise" else None,
                  "message": f[2] if f[0] == "raise" else None}
        ctx.property_failure(case, detail, finding=None)     # nothing may leave load() / resolve_aliases() / a dereference
        return False
    snap, obs, states = rec["snap"], rec["obs"][-4:], rec["states"][-5:]   # the trailing resolve, resolve, deref, resolve
    ids = snap.alias_ids()
    derefs = obs[2][1]
    final = states[2]
    partial = {}
    for i, (path, tgt, passed), d in zip(ids, final, derefs):
        ctx.observe("deref", d[0] + ("/resolved" if tgt else "/unresolved"))
        if d[0] not in ("ok", "are", "cyc"):
            ctx.property_failure(case, {"alias": path, "dereference": d}, finding=None)
        if not tgt and d[0] == "ok" and not snap.nodes[i][5] and snap.ids.get(id(snap.objs[i])) is not None and in_tree(snap, i):
            # resolve_aliases(implicit=True) stopped although this alias (not a wildcard pseudo-member) resolves
            ctx.observe("left_unresolved", path.split(".")[-1])
            ctx.property_failure(case, {"alias": path, "left_unresolved_by_resolve_aliases_but_dereferences_to": d}, finding=None)
        if tgt and d[0] in ("are", "cyc"):
            partial[path] = (i, d, tgt)                 # reported by report_partial once the model has given its verdict
    for st in states:
        for path, _t, passed in st:
            if passed:
                ctx.property_failure(case, {"alias": path, "passed_through_flag": "left set"}, finding=None)
    # fixpoint: the second call returns what the first returned and changes nothing
    u1, u2, u3 = obs[0][1], obs[1][1], obs[3][1]
    if states[1] != states[2]:
        changed = [b[0] for a, b in zip(states[1], states[2]) if a != b]
        ctx.property_failure(case, {"fixpoint": "second resolve_aliases changed links", "changed": changed,
                                    "first": states[1], "second": states[2]}, finding=None)
    if u1 != u2:
        ctx.property_failure(case, {"fixpoint": "return value", "first": u1, "second": u2}, finding=None)
    if obs[1][2] > 2:
        ctx.property_failure(case, {"fixpoint": "second call needed more than 2 iterations", "iterations": obs[1][2]}, finding=None)
    s1, s2 = rec["structs"][-3], rec["structs"][-2]
    if s1 != s2:
        # the second call changed the tree itself (members added / replaced, target paths rewritten).  C06-F8 only: a
        # wildcard pseudo-member re-imported by another wildcard is there (its target path grows at every expansion)
        leaked = rec["leaked"][-3]
        known = "C06-F8" if (leaked and "C06-F8" in ctx.known) else None
        ctx.observe("tree_changed_by_second_call", known or "unclassified")
        diff = [[a, b] for a, b in zip(s1[1], s2[1]) if a != b][:3]
        ctx.property_failure(case, {"fixpoint": "second resolve_aliases changed the tree", "leaked_wildcards": leaked[:4],
                                    "first_difference": diff, "nodes": [len(s1[1]), len(s2[1])]}, finding=known)
    ctx.observe("iterations_first", obs[0][2])
    rec["partial"] = partial
    return True


def expected_trace(rec):
    out = []
    for ob, st in zip(rec["obs"], rec["states"][1:]):
        out.append(ob)
        out.append(st)
    return out


def normalise_model(mo):
    out = []
    for x in mo[2:]:
        if x and x[0] == "verdicts":
            continue
        if x and x[0] == "resolve":
            out.append(["resolve", sorted(set(x[1])), x[2]])
        else:
            out.append(x)
    return out


OPS = ["resolve", "resolve", "deref", "resolve"]
OPS_TRACE = ["deref-trace"] + OPS                     # lazy dereferencing first, one alias at a time


def run_batch(ctx, batch, label, use_model=True, pristine_share=2, implicit_share=5):
    """batch: list of (files, loads, interleave). Implementation first, then one model call for the whole batch."""
    root = str(ctx.scratch / "pk")
    live = []
    for k, item in enumerate(batch):
        files, loads, interleave = item[:3]
        stubs = item[3] if len(item) > 3 else None
        if enough_failures(ctx):
            break                                        # enough new violations to report; do not burn watchdog time
        ops = OPS_TRACE if k % 3 == 2 else OPS
        pristine = bool(pristine_share) and (k % pristine_share == pristine_share - 1)
        # resolve_aliases(implicit=False) (its default): only the aliases listed in their module's __all__ are resolved
        implicit = not (implicit_share and k % implicit_share == implicit_share - 1)
        case = {"files": files, "loads": loads, "interleave": interleave, "ops": ops, "pristine": pristine, "implicit": implicit}
        if stubs:
            case["stubs"] = stubs
        rec = run_impl(files, loads, root, interleave, ops, pristine, implicit, stubs)
        if rec["stage"] and rec["fail"][0] == "timeout" and retry_allowed():
            ctx.count("watchdog_hit_retried")          # only a hang that survives the long limit is reported
            with long_alarm():
                rec = run_impl(files, loads, root, interleave, ops, pristine, implicit, stubs)
        if rec["stage"] and rec["fail"][0] == "timeout":
            _hangs[0] += 1
        rec["ops"] = ops
        feats = graph_features(files)
        n_alias = len(rec["snap"].alias_ids()) if rec.get("snap") else 0
        ctx.case(case, nontrivial=n_alias > 0 or rec["stage"] is not None)
        ctx.observe("stream", label)
        ctx.observe("pristine", pristine)
        ctx.observe("implicit", implicit)
        ctx.observe("n_aliases", min(n_alias, 12))
        ctx.observe("wildcards", min(len(feats["wildcards"]), 4))
        ok = evaluate(ctx, files, loads, rec, case)
        if not ok:
            continue
        if rec["pre_unstable"] or not rec["post_structure_same"] or not use_model:
            ctx.count("not_abstractable")               # the tree kept changing under repeated wildcard expansion
            report_partial(ctx, case, rec)
            continue
        live.append((case, rec))
    if not live:
        return
    outs = ctx.model([["run", r["heap"][0], r["heap"][1], list(r["ops"]) + ["verdicts"], r["heap"][2]] for _, r in live])
    for (case, rec), mo in zip(live, outs):
        if not mo or mo[0] == "bad-input" or mo[0][0] != "class":
            ctx.tie_failure("correspondence", "model rejected the heap term", {"model": mo}, case)
            report_partial(ctx, case, rec)
            continue
        verdicts = next((x[1] for x in mo[2:] if x and x[0] == "verdicts"), None)
        report_partial(ctx, case, rec, verdicts)
        for v in verdicts or []:
            ctx.observe("link_verdict", v)
        cls, walks = mo[0][1:7], (mo[0][7] if len(mo[0]) > 7 else None)
        fbc = mo[0][8] if len(mo[0]) > 8 else []
        if fbc:
            # a failed resolve_target that stored links of other aliases on the way: excluded by
            # C06_failed_resolution_changes_nothing where direct, chains_complete and unique_paths hold
            ctx.observe("failed_but_changed(direct,complete,unique)", "".join(str(c) for c in cls[2:5]))
            if cls[2] == 1 and cls[3] == 1 and cls[4] == 1:
                ctx.tie_failure("correspondence", "model contradicts C06_failed_resolution_changes_nothing", {"aliases": fbc}, case)
            elif cls[2] == 1 and cls[3] == 1 and not hasattr(ctx, "_c06_fbc"):
                ctx._c06_fbc = {"case": case, "aliases": fbc, "heap": rec["heap"]}
        ctx.observe("heap_class(wf,noflag,direct,complete,unique,targets_complete)", "".join(str(c) for c in cls))
        if cls[0] != 1 or cls[1] != 1:
            ctx.tie_failure("correspondence", "abstracted heap is not well-formed (wf / no flag raised)", {"class": cls}, case)
            continue
        if mo[1] != rec["states"][0]:
            ctx.tie_failure("correspondence", "heap decoding (state before any operation)", {"model": mo[1], "impl": rec["states"][0]}, case)
            continue
        # C06_all_or_nothing_modulo_known excludes any dangling stored link on a heap with complete targets and unique paths
        if rec.get("partial") and cls[5] == 1 and cls[4] == 1:
            ctx.property_failure(case, {"partial_chain_outside_known_gap": sorted(rec["partial"]),
                                        "model_gap_predicates(direct,complete,unique,targets_complete)": cls[2:]}, finding=None)
        exp, got = expected_trace(rec), normalise_model(mo)
        if exp != got:
            first = next(((a, b) for a, b in zip(exp, got) if a != b), (exp[len(got):][:1], got[len(exp):][:1]))
            ctx.tie_failure("correspondence", "resolve_aliases / final_target (model) vs GriffeLoader", {"impl": first[0], "model": first[1]}, case)
        ctx.count("model_compared")
        # the static walk (C06_resolution_outcome_is_static / C06_failure_is_stable): on direct heaps with complete chains and
        # unique paths, the pure walk over the heap *before* any resolution predicts what dereferencing every alias
        # reports *after* two resolve_aliases() - class, and the alias an AliasResolutionError names
        if walks is not None and cls[2] == 1 and cls[3] == 1 and cls[4] == 1 and "deref" in rec["ops"]:
            derefs = rec["obs"][rec["ops"].index("deref")][1]
            for (path, _t, _p), w, d in zip(rec["states"][0], walks, derefs):
                ctx.observe("static_walk", w[0])
                if w[0] == "linked":
                    continue
                if not ((w[0] == "ok" and d[0] == "ok") or (w[0] == "cyc" and d[0] == "cyc") or (w[0] == "are" and d == ["are", w[1]])):
                    ctx.tie_failure("correspondence", "static walk (model, heap before resolution) vs dereference after resolve_aliases",
                                    {"alias": path, "walk": w, "dereference": d}, case)
                    break
        for tag in ("fuel", "bad"):
            if any(isinstance(d, list) and d and d[0] == tag for x in got if x and x[0] == "deref" for d in x[1]):
                ctx.tie_failure("correspondence", f"model hit {tag}", {}, case)
        # which branches of the model were exercised
        if cls[2] == 0:
            ctx.count("walked_through_alias_member")
        if any(d[0] == "cyc" for d in rec["obs"][-2][1]):
            ctx.count("cyclic_outcome")
        if any(d[0] == "are" for d in rec["obs"][-2][1]):
            ctx.count("dangling_outcome")
        if any(t and t[0] == "virt" for st in rec["states"] for _, t, _ in st):
            ctx.count("virtual_link_stored")


# --------------------------------------------------------------------------------------------------------------------
# several packages into one collection
# --------------------------------------------------------------------------------------------------------------------
PKG_MODS = {"p": ["p", "p.a"], "q": ["q", "q.a"], "r": ["r"]}


def random_multi(rng):
    mods = [m for ms in PKG_MODS.values() for m in ms]
    files = random_graph(rng, mods, NAMES, pkgs=("p", "q", "r"), p_wild=0.12, p_through=0.15, maxlines=3)
    return files


def load_orders(rng, quick):
    perms = [list(p) for k in (2, 3) for p in itertools.permutations(["p", "q", "r"], k)]
    return perms if not quick else rng.sample(perms, 4)


# --------------------------------------------------------------------------------------------------------------------
# packages side-loaded *during* resolve_aliases (external=True / the private sibling `_p` with external=None)
# implementation vs property only: graphs without wildcard and without paths through members, where the theorems
# leave no room for any partial chain, so every deviation is a new violation
# --------------------------------------------------------------------------------------------------------------------
EXT_MODS = {"p": ["p", "p.a"], "_p": ["_p", "_p.a"], "q": ["q", "q.a"]}


def random_external(rng):
    mods = [m for ms in EXT_MODS.values() for m in ms]
    files = {}
    for m in mods:
        lines = []
        for _ in range(rng.randint(1, 3)):
            nm = rng.choice(NAMES[:2])
            k = rng.random()
            if k < 0.35:
                lines.append(f"def {nm}(): ...")
            else:
                tgt = rng.choice(mods + ["zz"])
                src = rng.choice(NAMES[:2])
                lines.append(f"from {tgt} import {src}" + ("" if src == nm else f" as {nm}"))
        if rng.random() < 0.4:
            lines.append(f"__all__ = {rng.sample(NAMES[:2], rng.randint(1, 2))!r}")
        files[m] = "\n".join(lines) + "\n"
    return files


def random_external_wild(rng):
    """Like random_external, with wildcard imports between the packages (side-loading happens inside expand_wildcards
    as well as inside resolve_module_aliases, and the side-loaded package may wildcard-import back)."""
    mods = [m for ms in EXT_MODS.values() for m in ms]
    files = {}
    for m in mods:
        lines = []
        if "." not in m and rng.random() < 0.5:
            # a package re-exporting another package wholesale (several packages may import the same one)
            lines.append(f"from {rng.choice([t for t in EXT_MODS if t != m])} import *")
        if rng.random() < 0.25:
            # a module of another package re-exported under a short name, then wildcard-imported through that name
            # (what `os` does with `os.path`): the wildcard's target path runs through an alias into a package that
            # may not be loaded yet
            other = rng.choice([t for t in EXT_MODS if t != m.split(".")[0]])
            pair = [f"from {other} import a as v", f"from {m}.v import *"]
            lines += pair if rng.random() < 0.8 else pair[::-1]
        for _ in range(rng.randint(1, 3)):
            nm = rng.choice(NAMES[:2])
            k = rng.random()
            if k < 0.3:
                lines.append(f"def {nm}(): ...")
            elif k < 0.55:
                lines.append(f"from {rng.choice(mods + ['zz'])} import *")
            else:
                src = rng.choice(NAMES[:2])
                lines.append(f"from {rng.choice(mods + ['zz'])} import {src}" + ("" if src == nm else f" as {nm}"))
        if rng.random() < 0.25:
            lines.append(f"__all__ = {rng.sample(NAMES[:2], rng.randint(1, 2))!r}")
        files[m] = "\n".join(lines) + "\n"
    return files


def side_loads(rng, external):
    """Which packages are loaded before resolve_aliases, and in which order: one or two of the three, both orders (a
    wildcard import that cannot be expanded when its module is visited may become expandable once a module visited
    later has side-loaded the package: with external=None only `p` may load its private sibling `_p`)."""
    k = rng.random()
    if k < 0.35:
        return [rng.choice(["p", "q", "_p"]) if external else rng.choice(["p", "q"])]
    pair = rng.sample(["p", "q", "_p"] if (external and rng.random() < 0.3) else ["p", "q"], 2)
    return pair


def tree_aliases(loader):
    """Every alias reachable as a declared member from the collection (live objects)."""
    out, seen, stack = [], set(), list(loader.modules_collection.members.values())
    while stack:
        o = stack.pop()
        if id(o) in seen:
            continue
        seen.add(id(o))
        if o.is_alias:
            out.append(o)
        else:
            stack.extend(o.members.values())
    return out


def leaked_wildcards(loader):
    """Wildcard pseudo-members (`pkg/mod/*`) that a wildcard expansion re-imported as if they were names of the target
    module: an alias named `.../*` whose target is itself a pseudo-member (the visitor's own ones target a module)."""
    return sorted(a.path for a in tree_aliases(loader) if a.name.endswith("/*") and a.target_path.endswith("/*"))


def unexpanded_wildcards(loader):
    """[path, target path] of the wildcard imports still standing as pseudo-members (the visitor's own ones)."""
    return sorted([a.path, a.target_path] for a in tree_aliases(loader)
                  if a.name.endswith("/*") and not a.target_path.endswith("/*"))


def pending_wildcards(unexpanded, new_packages):
    """Wildcard imports still unexpanded although the package they import from, or the package they sit in, was loaded
    during the call that just returned (the call expanded wildcards only before its loop, on the packages it started with)."""
    return [p for p, t in unexpanded if t.split(".")[0] in new_packages or p.split(".")[0] in new_packages]


def indirect_wildcards(loader, unexpanded):
    """The unexpanded wildcard imports whose target path does not (yet) lead, object by object, to a module of the tree:
    it runs through an alias, or through a name that is not there (another wildcard import may provide it)."""
    out = []
    for path, target in unexpanded:
        o = loader.modules_collection
        for part in target.split("."):
            o = o.members.get(part) if not getattr(o, "is_alias", False) else None
            if o is None or o.is_alias:
                out.append(path)
                break
    return out


def shape(loader):
    """structure() without the stored links (dereferencing between two calls stores links lazily)."""
    coll, nodes = structure(loader)
    return [coll, [n[:3] + [None] + n[4:] if n[0] == "alias" else n for n in nodes]]


class LoaderTrace:
    """Wraps the public methods resolve_aliases looks up on the loader instance.  Records top-level visits, side-loads,
    and re-entrancy: expand_wildcards / resolve_module_aliases entered on an object whose members an enclosing frame of
    the same kind of traversal is iterating over, with a load() in between."""

    def __init__(self, loader):
        self.events = []                     # ("S"/"V", module[, n]) top-level resolve_module_aliases, ("L", package)
        self.passes = []                     # per top-level resolve_module_aliases: (module, resolved any, unresolved, #packages before, after)
        self.stack = []                      # ("expand" | "resolve" | "load", path)
        self.reentered = []                  # paths whose members were being iterated when a nested expansion reached them
        self.orig = (loader.resolve_module_aliases, loader.load, loader.expand_wildcards)
        orig_rma, orig_load, orig_exp = self.orig

        def rma(obj, *, implicit=False, external=None, seen=None, load_failures=None):
            if seen is None:
                self.events.append(("S", obj.path))
            self.stack.append(("resolve", obj.path))
            before = len(loader.modules_collection.members)
            try:
                res = orig_rma(obj, implicit=implicit, external=external, seen=seen, load_failures=load_failures)
            finally:
                self.stack.pop()
            if seen is None:
                self.events.append(("V", obj.path, len(res[0])))
                self.passes.append((obj.path, bool(res[0]), sorted(res[1]), before, len(loader.modules_collection.members)))
            return res

        def load(*a, **k):
            self.events.append(("L", str(a[0]) if a else None))
            self.stack.append(("load", str(a[0]) if a else None))
            try:
                return orig_load(*a, **k)
            finally:
                self.stack.pop()

        def expand(obj, *, external=None, seen=None):
            path = obj.path
            last_load = max((k for k, fr in enumerate(self.stack) if fr[0] == "load"), default=-1)
            if any(fr[0] in ("expand", "resolve") and fr[1] == path for fr in self.stack[:max(last_load, 0)]):
                self.reentered.append(path)
            self.stack.append(("expand", path))
            try:
                return orig_exp(obj, external=external, seen=seen)
            finally:
                self.stack.pop()

        loader.resolve_module_aliases, loader.load, loader.expand_wildcards = rma, load, expand


def observe_loop(ctx, case, call, passes, first_module, unresolved, iterations):
    """The outer loop of resolve_aliases under side-loading vs the model's ext_loop (C06_side_loading_loop): the
    top-level resolve_module_aliases calls of one resolve_aliases() are cut into iterations (each starts at the first
    module of the collection), every iteration gives (some alias resolved, unresolved set, collection grew during the
    pass); the extracted loop replays them and must stop after the same number of iterations with the same set.
    The hypotheses read off the code are checked on the way."""
    its = []
    for mod, rs, u, before, after in passes:
        if mod == first_module or not its:
            its.append([False, set(), before, after])
        its[-1][0] = its[-1][0] or rs
        its[-1][1] |= set(u)
        its[-1][3] = after
    obs = [[rs, sorted(u), after != before] for rs, u, before, after in its]
    for a, b in zip(obs, obs[1:]):
        if not a[0] and not a[2] and a[1] != b[1]:
            ctx.tie_failure("correspondence", "side-loading loop hypothesis: a pass that neither resolves nor loads changes nothing",
                            {"call": call + 1, "pass": a, "next": b}, case)
    for a in obs:
        if a[2] and not a[1]:
            ctx.tie_failure("correspondence", "side-loading loop hypothesis: a package is only loaded for an alias reported unresolved",
                            {"call": call + 1, "pass": a}, case)
        ctx.observe("side_loading_pass(resolved,unresolved,grew)", f"{int(a[0])}{int(bool(a[1]))}{int(a[2])}")
    if not hasattr(ctx, "_c06_loops"):
        ctx._c06_loops = []
    ctx._c06_loops.append((case, call, obs, unresolved, iterations))


def flush_loops(ctx):
    loops = getattr(ctx, "_c06_loops", [])
    ctx._c06_loops = []
    if not loops:
        return
    outs = ctx.model([["loop", obs] for _c, _k, obs, _u, _i in loops])
    for (case, call, obs, unresolved, iterations), mo in zip(loops, outs):
        ctx.count("side_loading_loops_compared")
        ctx.observe("side_loading_iterations", min(iterations, 6))
        if mo != ["loop", unresolved, iterations, 0]:
            ctx.tie_failure("correspondence", "resolve_aliases outer loop under side-loading vs ext_loop (model)",
                            {"call": call + 1, "passes": obs, "impl": [unresolved, iterations], "model": mo}, case)


def run_external(ctx, files, loads, external, label, _retry=False, implicit=True):
    """Implementation vs property with packages side-loaded during resolve_aliases (three calls)."""
    import griffe
    root = str(ctx.scratch / "ext")
    write_packages(files, root)
    case = {"files": files, "loads": loads, "external": external, "stream": label, "implicit": implicit}
    ctx.observe("side_loading(loads,external,implicit)", f"{len(loads)},{external},{implicit}")
    ctx.case(case, True)
    ctx.observe("stream", label)
    has_wild = graph_features(files)["has_wildcard"]
    expanded_ids = set()                              # aliases created (already linked) by wildcard expansion

    class Recorder(griffe.Extension):
        def on_wildcard_expansion(self, *, alias, loader, **kwargs):  # noqa: ARG002
            expanded_ids.add(id(alias))
            keep.append(alias)                        # keep the object alive: ids must stay unique

    keep = []
    loader = griffe.GriffeLoader(search_paths=[root], allow_inspection=False, extensions=griffe.load_extensions(Recorder))
    calls = []

    def fail(what, detail, finding=None):
        if finding is not None and finding not in ctx.known:
            finding = None                            # a repaired finding has no classifier any more
        ctx.property_failure(case, {"side_loading": what, **detail}, finding=finding)

    def escape(what, r):
        """Something left load()/resolve_aliases().  C06-F6: the members dict of an object was changed by a nested
        expansion (reached through a side-load) while an enclosing frame iterates over it."""
        if r[0] == "timeout" and not _retry and retry_allowed():
            ctx.count("watchdog_hit_retried")
            with long_alarm():
                return run_external(ctx, files, loads, external, label, _retry=True, implicit=implicit)
        if r[0] == "timeout":
            _hangs[0] += 1
        iter_err = r[0] == "raise" and (
            (r[1][0] == "RuntimeError" and "changed" in r[2] and "during iteration" in r[2]) or
            (r[1][0] == "KeyError" and r[1][1][-1:] == ["del_member"] and r[2].strip("'\"").endswith("/*")))
        known = "C06-F6" if (iter_err and trace.reentered and
                             any(f in ("expand_wildcards", "resolve_module_aliases") for f in r[1][1])) else None
        ctx.observe("side_loading_escape", (r[1][0] if r[0] == "raise" else r[0]) + ("/reentrant" if trace.reentered else ""))
        return fail(what, {"outcome": r[:3], "reentered": trace.reentered[:3]}, finding=known)

    trace = LoaderTrace(loader)                         # public methods, looked up on the instance by resolve_aliases
    for pkg in loads:
        r = guarded(lambda: loader.load(pkg, try_relative_path=False))
        if r[0] != "ok":
            return escape("load raised", r)
    snap = None
    unreached = []
    packages = sorted(loader.modules_collection.members)
    first_trace = []
    for k in range(3):
        if k == 1:
            first_trace = list(trace.events)
        npass, first_module = len(trace.passes), next(iter(loader.modules_collection.members), None)
        r = guarded(lambda: loader.resolve_aliases(implicit=implicit, external=external))
        if r[0] != "ok":
            return escape(f"resolve_aliases call {k + 1} raised", r)
        observe_loop(ctx, case, k, trace.passes[npass:], first_module, sorted(r[1][0]), r[1][1])
        if snap is None:
            snap = Snapshot(loader, implicit)                    # after the first call: includes what it side-loaded
        now = sorted(loader.modules_collection.members)
        unexp = unexpanded_wildcards(loader)
        calls.append({"unresolved": sorted(r[1][0]), "iterations": r[1][1], "state": snap.state(), "collection": now,
                      "structure": structure(loader), "shape": shape(loader), "unexpanded": [p for p, _ in unexp],
                      "pending": pending_wildcards(unexp, set(now) - set(packages)), "leaked": leaked_wildcards(loader),
                      "indirect": indirect_wildcards(loader, unexp)})
        packages = now
        if k == 1:
            for i in snap.alias_ids():
                d = guarded(lambda i=i: deref(snap.objs[i]))
                path, tgt = snap.nodes[i][1], calls[1]["state"][snap.alias_ids().index(i)][1]
                if d[0] != "ok":
                    return escape(f"dereference of {path}", d)
                if d[1][0] not in ("ok", "are", "cyc"):
                    return fail("dereference", {"alias": path, "outcome": d[:3]})
                ctx.observe("side_loaded_deref", d[1][0] + ("/resolved" if tgt else "/unresolved"))
                if tgt and d[1][0] != "ok":
                    # C06-F3 only: the stored chain runs through an alias that wildcard expansion created already linked
                    chain, o = [], snap.objs[i]
                    while o.is_alias and o._target is not None and id(o) not in chain and len(chain) < 64:
                        chain.append(id(o))
                        o = o._target
                    f3 = "C06-F3" if any(c in expanded_ids for c in chain) else None
                    ctx.observe("side_loaded_partial_chain", f3 or "unclassified")
                    fail("resolved alias does not dereference", {"alias": path, "outcome": d[1]}, finding=f3)
                if not tgt and d[1][0] == "ok" and in_tree(snap, i) and not snap.nodes[i][5]:
                    unreached.append(path)
    ctx.observe("side_loaded_packages", len(calls[0]["collection"]) - len(loads))

    def same(a, b, strict=True):
        return all(a[f] == b[f] for f in (("unresolved", "collection", "structure", "state") if strict else
                                          ("unresolved", "collection", "shape")))

    def known_cause(a, b):
        """C06-F7: a wildcard import of / from a package loaded during call a was left standing and expanded by call b.
        C06-F8: a re-imported wildcard pseudo-member is there, whose target path grows at every call."""
        if any(p not in b["unexpanded"] for p in a["pending"]):
            return "C06-F7"
        # C06-F10: a wildcard import whose target path ran through an alias / a name provided by another wildcard import
        # was still standing after call a and is expanded by call b, nothing else differing (no package loaded)
        if a["collection"] == b["collection"] and any(p not in b["unexpanded"] for p in a["indirect"]):
            return "C06-F10"
        return "C06-F8" if a["leaked"] else None

    if not same(calls[0], calls[1]) or calls[1]["iterations"] > 2:
        changed = [b[0] for a, b in zip(calls[0]["state"], calls[1]["state"]) if a != b]
        starts = [n for n, ev in enumerate(first_trace) if ev[0] == "S" and ev[1] == loads[0]]
        last = first_trace[starts[-1]:] if starts else []
        # C06-F7: wildcard imports of / from packages loaded during the first call were left to the second call
        # C06-F8: a re-imported wildcard pseudo-member gets a longer target path at every call
        known = known_cause(calls[0], calls[1])
        ctx.observe("side_loading_not_fixpoint", known or "unclassified")
        fail("second resolve_aliases is not a no-op",
             {"first": [calls[0]["unresolved"], calls[0]["iterations"]], "second": [calls[1]["unresolved"], calls[1]["iterations"]],
              "links_changed": changed, "collection": [calls[0]["collection"], calls[1]["collection"]],
              "structure_changed": calls[0]["structure"] != calls[1]["structure"],
              "pending_wildcards_after_first": calls[0]["pending"][:4], "leaked_wildcards": calls[0]["leaked"][:4],
              "last_iteration_of_first_call": last}, finding=known)
    elif unreached:
        fail("aliases left unresolved after two calls although they resolve", {"aliases": unreached})
    if any(p for c in calls for _, _, p in c["state"]):
        fail("passed-through flag left set", {})
    if not same(calls[1], calls[2], strict=False):
        known = known_cause(calls[1], calls[2])
        fail("third resolve_aliases differs from the second",
             {"second": [calls[1]["unresolved"], calls[1]["iterations"]], "third": [calls[2]["unresolved"], calls[2]["iterations"]],
              "pending_wildcards_after_second": calls[1]["pending"][:4], "leaked_wildcards": calls[1]["leaked"][:4]}, finding=known)
    if has_wild:
        ctx.count("side_loading_with_wildcards_evaluated")


# --------------------------------------------------------------------------------------------------------------------
# known-finding witnesses (replayed on the implementation on every run)
# --------------------------------------------------------------------------------------------------------------------
def replay_witnesses(ctx):
    """The witnesses of the known findings must still reproduce on the implementation (same classifier as in the streams)."""
    root = str(ctx.scratch / "wit")
    for fid, f in ctx.known.items():
        w = f.get("witness", {})
        files = w.get("files")
        if not files:
            continue
        if "external" in w:                              # side-loading findings: replayed through run_external
            before = ctx.known_hits.get(fid, 0)
            run_external(ctx, files, w.get("loads", ["p"]), w["external"], "witness(side-loading)")
            ctx.witness(fid, ctx.known_hits.get(fid, 0) > before)
            continue
        rec = run_impl(files, w.get("loads", ["p"]), root)
        ok = False
        if rec["stage"] is None and fid in ("C06-F3", "C06-F9"):
            snap = rec["snap"]
            for i, (path, tgt, _), d in zip(snap.alias_ids(), rec["states"][2], rec["obs"][2][1]):
                if tgt and d[0] in ("are", "cyc") and classify_partial(snap, i) == fid:
                    ok = True
        if rec["stage"] is None and fid == "C06-F8":
            ok = bool(rec["leaked"][0]) and rec["structs"][0] != rec["structs"][1]
        ctx.witness(fid, ok)


def replay_corpus(ctx):
    import json
    from pathlib import Path
    d = Path(__file__).resolve().parents[2] / "corpus" / "C06"
    batch, batch_explicit = [], []
    for f in sorted(d.glob("*.json")):
        c = json.loads(f.read_text())
        if "external" in c:
            run_external(ctx, c["files"], c["loads"], c["external"], "corpus(side-loading)", implicit=bool(c.get("implicit", True)))
        else:
            item = (c["files"], c.get("loads", ["p"]), bool(c.get("interleave", False)), c.get("stubs"))
            (batch if c.get("implicit", True) else batch_explicit).append(item)
    run_batch(ctx, batch, "corpus", pristine_share=0, implicit_share=0)
    run_batch(ctx, [b for b in batch if not b[3]], "corpus(pristine)", pristine_share=1, implicit_share=0)
    run_batch(ctx, batch_explicit, "corpus(implicit=False)", pristine_share=0, implicit_share=1)


def explore(ctx):
    logging.getLogger("griffe").setLevel(logging.CRITICAL)
    logging.getLogger("_griffe").setLevel(logging.CRITICAL)
    rng = ctx.rng
    _retry_spent[0] = 0.0
    _hangs[0] = 0
    replay_witnesses(ctx)
    replay_corpus(ctx)
    # 1. exhaustive chain-level graphs: every (module, name) slot is empty / a definition / `from T import n [as name]`
    chain2 = list(exhaustive_chain_graphs(["p", "p.a"], ["x", "y"], ["p.zz"]))                    # 8^4 = 4096
    through = list(exhaustive_chain_graphs(["p", "p.a"], ["x", "y"], ["p.zz", "p.m"], {"p": ["import p.a as m"]}))   # 10^4, p.m is an alias of module p.a
    if ctx.quick:
        run_batch(ctx, [(g, ["p"], False) for g in rng.sample(chain2, 1200)], "exhaustive-chain(2x2) sample")
        run_batch(ctx, [(g, ["p"], False) for g in rng.sample(through, 1000)], "exhaustive-through(2x2) sample")
    else:
        ctx.exhaustive = True
        run_batch(ctx, [(g, ["p"], False) for g in chain2], "exhaustive-chain(2x2)")
        run_batch(ctx, [(g, ["p"], False) for g in through], "exhaustive-through(2x2)")
        chain3 = list(exhaustive_chain_graphs(["p", "p.a", "p.b"], ["x"], ["p.zz", "p.m"],
                                              {"p.b": ["import p.a as m"], "p": ["from p.b import m"]}))   # 7^3, p.m -> p.b.m -> module p.a
        run_batch(ctx, [(g, ["p"], False) for g in chain3], "exhaustive-chain(3x1)")
    # 2. exhaustive family with wildcard imports (3 modules, one name, one optional wildcard per module)
    wf3 = list(wildcard_family(["p", "p.a", "p.b"], "x", ["p", "p.a", "p.b", "p.zz"]))
    run_batch(ctx, [(g, ["p"], False) for g in (rng.sample(wf3, ctx.budget(1000, 12000)) if len(wf3) > ctx.budget(1000, 12000) else wf3)],
              "wildcard-family(3x1)")
    # 3. random graphs, 5 and 6 modules
    n = ctx.budget(1200, 20000)
    run_batch(ctx, [(random_graph(rng, MODS5, NAMES), ["p"], False) for _ in range(n)], "random(5 modules)")
    run_batch(ctx, [(random_graph(rng, MODS5, NAMES, p_wild=0.0, p_through=0.35), ["p"], False) for _ in range(n // 2)],
              "random(5 modules, no wildcard)")
    mods6 = MODS5 + ["p.b2"]
    run_batch(ctx, [(random_graph(rng, mods6, NAMES + ["w"], maxlines=5), ["p"], False) for _ in range(n // 3)], "random(6 modules)")
    # 3b. `__all__` built from other modules' `__all__` through module aliases (expand_exports is part of load())
    run_batch(ctx, [(exports_family(rng), ["p"], False) for _ in range(ctx.budget(500, 6000))], "exports-family(3 modules)")
    run_batch(ctx, [(exports_family(rng, ("p", "p.i", "p.i.a", "p.i.b")), ["p"], False) for _ in range(ctx.budget(200, 3000))],
              "exports-family(4 modules)")
    # 3c. a stubs-only distribution in another search path, merged into the package while loading
    batch = []
    for _ in range(ctx.budget(300, 4000)):
        files, stubs = random_stubs(rng)
        batch.append((files, ["p"], False, stubs))
    run_batch(ctx, batch, "stubs-package(other search path)", pristine_share=0)
    # 4. all load orders of <= 3 packages into one collection, with and without resolution between the loads
    batch = []
    for _ in range(ctx.budget(60, 600)):
        files = random_multi(rng)
        for order in load_orders(rng, ctx.quick):
            sub = {m: s for m, s in files.items() if m.split(".")[0] in order}
            batch.append((sub, order, bool(rng.getrandbits(1))))
    run_batch(ctx, batch, "load-orders(p,q,r)")
    # 5. packages side-loaded during resolve_aliases: external=True, and the private sibling _p with external=None
    for k in range(ctx.budget(250, 3000)):
        files = random_external(rng)
        ext = True if k % 2 else None
        run_external(ctx, files, side_loads(rng, ext), ext, f"side-loading(external={ext})", implicit=(k % 5 != 4))
        if enough_failures(ctx):
            break
    # 5b. the same with wildcard imports between the packages (side-loads inside expand_wildcards, packages importing back)
    for k in range(ctx.budget(600, 6000)):
        files = random_external_wild(rng)
        ext = True if k % 2 else None
        run_external(ctx, files, side_loads(rng, ext), ext, f"side-loading+wildcards(external={ext})", implicit=(k % 5 != 4))
        if enough_failures(ctx):
            break
    flush_loops(ctx)
    if not ctx.quick:
        sample = []
        for _ in range(40):
            rec = run_impl(random_graph(rng, MODS5, NAMES), ["p"], str(ctx.scratch / "pk"))
            if rec["heap"] is not None:
                sample.append(["run", rec["heap"][0], rec["heap"][1], OPS, rec["heap"][2]])
        ctx.cross_check_extraction(sample, n=30)


def search(ctx):
    """A tie broke and no failing input is known yet: evaluate the property on the implementation alone, wider."""
    logging.getLogger("griffe").setLevel(logging.CRITICAL)
    rng = ctx.rng
    for g in exhaustive_chain_graphs(["p", "p.a"], ["x", "y"], ["p.zz"]):
        run_batch(ctx, [(g, ["p"], False)], "search-exhaustive", use_model=False)
        if ctx.prop_failures:
            return
    for k in range(6000):
        g = random_graph(rng, MODS5, NAMES) if k % 3 else exports_family(rng)
        run_batch(ctx, [(g, ["p"], False)], "search-random", use_model=False, pristine_share=0 if k % 2 else 1)
        if ctx.prop_failures:
            return
    for k in range(1500):
        run_external(ctx, random_external_wild(rng) if k % 2 else random_external(rng), [rng.choice(["p", "q", "_p"])], True, "search-side-loading")
        if ctx.prop_failures:
            return


def replay(ctx, data):
    case = data.get("failing_input") or {}
    files = case.get("files")
    if not files:
        print("replay names no input:", data.get("no_longer_checks"))
        return 0
    logging.getLogger("griffe").setLevel(logging.CRITICAL)
    for m, s in files.items():
        print("#", m)
        print("    " + s.replace("\n", "\n    "))
    ctx.scratch.mkdir(parents=True, exist_ok=True)
    if "external" in case:                                # a side-loading case: load, then three resolve_aliases(external=...)
        import griffe
        root = str(ctx.scratch / "ext")
        write_packages(files, root)
        loader = griffe.GriffeLoader(search_paths=[root], allow_inspection=False)
        for pkg in case.get("loads", ["p"]):
            print("load", pkg, guarded(lambda: loader.load(pkg, try_relative_path=False))[0])
        for k in range(3):
            r = guarded(lambda: loader.resolve_aliases(implicit=True, external=case["external"]))
            print(f"resolve_aliases(external={case['external']}) call {k + 1}:", r[:3] if r[0] != "ok" else [sorted(r[1][0]), r[1][1]])
            if r[0] != "ok":
                break
            print("   collection", sorted(loader.modules_collection.members), "unexpanded", unexpanded_wildcards(loader),
                  "leaked", leaked_wildcards(loader))
            print("   ", Snapshot(loader).state())
        shutil.rmtree(ctx.scratch, ignore_errors=True)
        return 0
    rec = run_impl(files, case.get("loads", ["p"]), str(ctx.scratch / "pk"), bool(case.get("interleave")), case.get("ops", OPS),
                   bool(case.get("pristine")), bool(case.get("implicit", True)), case.get("stubs"))
    print("stage:", rec["stage"], rec["fail"])
    for o, st in zip(rec["obs"], rec["states"][1:]):
        print(o)
        print("   ", st)
    shutil.rmtree(ctx.scratch, ignore_errors=True)
    return 0
