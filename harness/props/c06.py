"""C06 - Alias resolution is total, all-or-nothing and cycle-safe on any import graph.

(C) model (heap of objects/aliases, get_member walking through alias members, resolve_target/_resolve_target with the
    passed-through flag, final_target with paths_seen, the resolve_aliases fixpoint loop) vs GriffeLoader on generated
    packages: the heap is abstracted from the loaded tree *before* resolution, both sides then run the same operation
    sequence (resolve_aliases x2, dereference every alias, resolve_aliases) and every observable is compared.
direct property evaluation (no model): load/resolve do not raise, every dereference is Ok(object) | AliasResolutionError |
    CyclicAliasError, no resolved alias dangles (partial chain), a second resolve_aliases is a no-op.
"""
from __future__ import annotations

import itertools
import logging
import os
import shutil
import signal
import sys
import traceback

ID = "C06"
LEVEL_TEXT = "filled in below"
LEVEL_NOTE = "filled in below"
MODEL = ("Model.C06_alias", "run_C06")
COQ_TARGETS = ["Proofs/C06_alias.vo"]
RULE = "filled in below"

ALARM_S = 10


# --------------------------------------------------------------------------------------------------------------------
# import graphs -> packages on disk
# --------------------------------------------------------------------------------------------------------------------
def write_packages(files: dict, root: str):
    """files: dotted module name -> source. A module is a package iff another module lives below it."""
    shutil.rmtree(root, ignore_errors=True)
    pk = {m for m in files for n in files if n.startswith(m + ".")}
    for m, src in files.items():
        parts = m.split(".")
        if m in pk or len(parts) == 1:
            path = os.path.join(root, *parts, "__init__.py")
        else:
            path = os.path.join(root, *parts[:-1], parts[-1] + ".py")
        os.makedirs(os.path.dirname(path), exist_ok=True)
        with open(path, "w") as f:
            f.write(src)


class Watchdog(Exception):
    pass


def _alarm(*_a):
    raise Watchdog()


def classify_exc(e: BaseException):
    """Exception -> [type name, griffe function names of the innermost frames (innermost last)]."""
    tb = traceback.extract_tb(e.__traceback__)
    fr = [f.name for f in tb if "/_griffe/" in f.filename]
    return [type(e).__name__, fr[-6:]]


def guarded(fn):
    """Run fn() under the watchdog. Returns ('ok', value) | ('timeout',) | ('recursion',) | ('raise', [type, frames], msg)."""
    from _griffe.exceptions import AliasResolutionError, CyclicAliasError  # noqa: F401
    old = signal.signal(signal.SIGALRM, _alarm)
    signal.alarm(ALARM_S)
    try:
        return ("ok", fn())
    except Watchdog:
        return ("timeout",)
    except RecursionError:
        return ("recursion",)
    except Exception as e:  # noqa: BLE001
        return ("raise", classify_exc(e), str(e).replace("\n", " | ")[:200])
    finally:
        signal.alarm(0)
        signal.signal(signal.SIGALRM, old)


# --------------------------------------------------------------------------------------------------------------------
# abstraction: loaded tree -> heap term of the model
# --------------------------------------------------------------------------------------------------------------------
class Snapshot:
    """nodes[i] = ["obj", path, container?, [[name, id]...]] | ["alias", path, target_parts, target_ref, passed, wild]
    target_ref = [] | ["real", id] | ["virt", path, id]; objs[i] is the live object."""

    def __init__(self, loader):
        from _griffe.enumerations import Kind
        from _griffe.models import Alias
        self.nodes = []
        self.objs = []
        self.ids = {}
        self.Alias = Alias
        self.Kind = Kind
        self.pending = []
        self.collection = [[name, self.add(m)] for name, m in loader.modules_collection.members.items()]
        while self.pending:
            i = self.pending.pop()
            self.nodes[i][3] = self.ref(self.objs[i]._target)

    def add(self, o) -> int:
        k = id(o)
        if k in self.ids:
            return self.ids[k]
        i = len(self.nodes)
        self.ids[k] = i
        self.nodes.append(None)
        self.objs.append(o)
        if o.is_alias:
            self.nodes[i] = ["alias", o.path, o.target_path.split("."), None, bool(o._passed_through), o.name.endswith("/*")]
            self.pending.append(i)
        else:
            self.nodes[i] = ["obj", o.path, o.kind in (self.Kind.MODULE, self.Kind.CLASS), None]
            self.nodes[i][3] = [[name, self.add(m)] for name, m in o.members.items()]
        return i

    def ref(self, t):
        if t is None:
            return []
        if t.is_alias and isinstance(t._parent, self.Alias) and id(t) not in self.ids:
            # an alias manufactured by Alias.members: resolved by construction onto a member of a real object
            return ["virt", t.path, self.add(t._target)]
        return ["real", self.add(t)]

    def alias_ids(self):
        return [i for i, n in enumerate(self.nodes) if n[0] == "alias"]

    def describe_target(self, o):
        """Observable description of an alias' link, by paths (ids may be renumbered between snapshots)."""
        t = o._target
        if t is None:
            return []
        if t.is_alias and isinstance(t._parent, self.Alias) and id(t) not in self.ids:
            return ["virt", t.path, t._target.path]
        return ["real", t.path]

    def state(self):
        return [[self.nodes[i][1], self.describe_target(self.objs[i]), bool(self.objs[i]._passed_through)] for i in self.alias_ids()]

    def term(self):
        return [self.collection, self.nodes]


def deref(o):
    """The observable of dereferencing one alias."""
    from _griffe.exceptions import AliasResolutionError, CyclicAliasError
    try:
        ft = o.final_target
    except AliasResolutionError as e:
        return ["are", e.alias.path]
    except CyclicAliasError:
        return ["cyc"]
    if ft.is_alias:
        return ["final-is-alias", ft.path]
    return ["ok", ft.path]


def expand_all(loader):
    for m in list(loader.modules_collection.members.values()):
        loader.expand_wildcards(m, external=False)


def structure(loader):
    s = Snapshot(loader)
    return [s.collection, s.nodes]


def run_impl(files: dict, loads: list, root: str, interleave: bool = False, ops=("resolve", "resolve", "deref", "resolve")):
    """Load the packages in `loads` order into one collection, then run `ops`. Everything observable is returned.

    rec = {"stage": None | name of the stage that failed, "fail": guarded() failure tuple,
           "heap": model input term (abstracted before the first op), "obs": [per-op observation], "states": [...]}"""
    import griffe
    write_packages(files, root)
    rec = {"stage": None, "fail": None, "heap": None, "obs": [], "states": [], "pre_unstable": False, "mid": []}
    loader = griffe.GriffeLoader(search_paths=[root], allow_inspection=False)
    rec["loader"] = loader
    for k, pkg in enumerate(loads):
        r = guarded(lambda: loader.load(pkg, try_relative_path=False))
        if r[0] != "ok":
            rec["stage"], rec["fail"] = f"load:{pkg}", r
            return rec
        if interleave and k + 1 < len(loads):
            r = guarded(lambda: loader.resolve_aliases(implicit=True, external=False))
            if r[0] != "ok":
                rec["stage"], rec["fail"] = f"resolve-after:{pkg}", r
                return rec
            rec["mid"].append(sorted(r[1][0]))
    # resolve_aliases starts by expanding wildcards in every module of the collection; do that here (same calls) until
    # the tree is stable, so that the heap handed to the model is the heap the resolution loop really starts from
    prev = None
    for _ in range(4):
        r = guarded(lambda: expand_all(loader))
        if r[0] != "ok":
            rec["stage"], rec["fail"] = "expand", r
            return rec
        cur = structure(loader)
        if cur == prev:
            break
        prev = cur
    else:
        rec["pre_unstable"] = True
    snap = Snapshot(loader)
    rec["snap"] = snap
    rec["heap"] = snap.term()
    rec["states"].append(snap.state())
    for op in ops:
        if op == "resolve":
            r = guarded(lambda: loader.resolve_aliases(implicit=True, external=False))
            if r[0] != "ok":
                rec["stage"], rec["fail"] = f"op{len(rec['obs'])}:resolve", r
                return rec
            rec["obs"].append(["resolve", sorted(r[1][0]), r[1][1]])
        else:
            out = []
            for i in snap.alias_ids():
                r = guarded(lambda i=i: deref(snap.objs[i]))
                if r[0] != "ok":
                    rec["stage"], rec["fail"] = f"op{len(rec['obs'])}:deref:{snap.nodes[i][1]}", r
                    return rec
                out.append(r[1])
            rec["obs"].append(["deref", out])
        rec["states"].append(snap.state())
    rec["post_structure_same"] = (structure(loader)[0] == snap.collection)
    return rec


# --------------------------------------------------------------------------------------------------------------------
# generators
# --------------------------------------------------------------------------------------------------------------------
NAMES = ["x", "y", "_z"]
MODS5 = ["p", "p.a", "p.b", "p.s", "p.s.c"]


def slot_options(mods, names, extra_targets):
    """Statements that may bind `name` in a module: nothing, a definition, or `from T import n as name`."""
    targets = list(mods) + list(extra_targets)
    return [None, "def"] + [("from", t, n) for t in targets for n in names]


def render_slot(name, opt):
    if opt is None:
        return []
    if opt == "def":
        return [f"def {name}(): ..."]
    _, t, n = opt
    return [f"from {t} import {n}" + ("" if n == name else f" as {name}")]


def exhaustive_chain_graphs(mods, names, extra_targets):
    """Every assignment of one option to each (module, name) slot."""
    opts = slot_options(mods, names, extra_targets)
    slots = [(m, n) for m in mods for n in names]
    for choice in itertools.product(range(len(opts)), repeat=len(slots)):
        files = {m: [] for m in mods}
        for (m, n), c in zip(slots, choice):
            files[m] += render_slot(n, opts[c])
        yield {m: "\n".join(ls) + "\n" for m, ls in files.items()}


def wildcard_family(mods, name, targets):
    """Exhaustive second family: per module one optional binding of `name` and one optional wildcard import."""
    bind = [None, "def"] + [("from", t, name) for t in targets]
    wild = [None] + list(targets)
    per_mod = [(b, w, order) for b in bind for w in wild for order in ((0, 1) if (b and w) else (0,))]
    for choice in itertools.product(per_mod, repeat=len(mods)):
        files = {}
        for m, (b, w, order) in zip(mods, choice):
            ls = render_slot(name, b)
            ws = [f"from {w} import *"] if w else []
            files[m] = "\n".join((ls + ws) if order == 0 else (ws + ls)) + "\n"
        yield files


def random_graph(rng, mods, names, pkgs=("p",), p_wild=0.18, p_through=0.2, maxlines=4):
    """Random import graph: definitions, from-imports (plain, renamed, relative, through an alias member, from missing
    modules and from other packages), plain imports, wildcard imports, __all__, a class that imports in its body."""
    files = {}
    others = [f"{q}" for q in ("p", "q", "r") if q not in pkgs] + ["zz"]
    for m in mods:
        lines = []
        top = m.split(".")[0]
        for _ in range(rng.randint(0, maxlines)):
            k = rng.random()
            nm = rng.choice(names)
            r = rng.random()
            if r < p_through:
                tgt = rng.choice(mods) + "." + rng.choice(names + ["K"])   # a path that runs through a member
            elif r < p_through + 0.12:
                tgt = rng.choice([top + ".missing", rng.choice(others), rng.choice(mods) + ".missing"])
            else:
                tgt = rng.choice(mods)
            if k < 0.17:
                lines.append(f"{nm} = 1")
            elif k < 0.25:
                lines.append(f"def {nm}(): ...")
            elif k < 0.30:
                lines.append(f"class K:\n    {rng.choice(names)} = 1\n    from {tgt} import {rng.choice(names)}")
            elif k < 0.58:
                src = rng.choice(names + ["K"])
                lines.append(f"from {tgt} import {src} as {nm}" if rng.random() < .5 else f"from {tgt} import {nm}")
            elif k < 0.58 + p_wild:
                lines.append(f"from {tgt} import *")
            elif k < 0.86:
                leaf = rng.choice(["a", "b", "s", "c", nm])
                form = rng.random()
                if form < 0.4:
                    lines.append(f"from . import {leaf}")
                elif form < 0.7:
                    lines.append(f"from . import {leaf} as {nm}")
                elif form < 0.85:
                    lines.append(f"from .{leaf} import {rng.choice(names)}")
                else:
                    lines.append(f"from .. import {leaf}")
            elif k < 0.91:
                lines.append(f"__all__ = {[rng.choice(names) for _ in range(rng.randint(0, 2))]!r}")
            else:
                lines.append(f"import {tgt}" + (f" as {nm}" if rng.random() < .6 else ""))
        files[m] = "\n".join(lines) + "\n"
    return files


def graph_features(files):
    """Structural facts about an import graph used by the known-finding classifiers (source level)."""
    import ast
    wild = []
    for m, src in files.items():
        for node in ast.walk(ast.parse(src)):
            if isinstance(node, ast.ImportFrom) and any(a.name == "*" for a in node.names):
                wild.append((m, node.module, node.level))
    return {"wildcards": wild, "has_wildcard": bool(wild)}
