"""C17 — Static and dynamic analysis agree on the API skeleton.

(T) Gen/C17_tables.v regenerated from runtime.py (ObjectNode.kind ladder with every is_* predicate inlined), enumerations.py
    (ObjectKind values), inspector.py (inspect_<kind> handlers and their labels, _kind_map), visitor.py (decorator tables)
(C) model inspector_okind / inspect_member   vs  ObjectNode(obj, name, parent).kind and Inspector.inspect on a zoo of live objects
    model alias_target_path / inspect_child  vs  ObjectNode.alias_target_path / the member the Inspector created (generated packages, stdlib)
    model visitor_member / visit_importfrom  vs  the member the Visitor created for each generated definition / import statement
    model visit_attribute / inspector_xmember vs the two members of names bound by assignment / annotated names
    model visit_import / inspect_import      vs  the two members of `import a.b.c [as x]` statements (self imports, built-in _x modules)
    model static_bases / inspector_bases     vs  the resolved bases of the visited class / the bases of the inspected class
    model griffe_star                        vs  is_wildcard_exposed over the source module's members;  griffe_binder vs the loaded member
    model relative_to_absolute               vs  _griffe.agents.nodes.imports.relative_to_absolute (every depth x level, incl. beyond top)
    model static_final                       vs  Alias.final_target.path through generated re-export chains (wildcard hops included)
    model visitor_parameters / inspector_parameters vs Function.parameters of the two loads
    model static_doc / dynamic_doc           vs  Docstring.value of the two loads;  model same_components vs runtime._same_components
(O) model observe(pyobj)                     vs  inspect.* / callable / isinstance on live objects of every constructor (zoo + every member)
    model runtime_features(defform)          vs  real introspection of the generated code
    model cpython_bases                      vs  cls.__bases__ of every generated class; generated base denotations vs the live heads
    model cpython_star / cpy_binder          vs  executing `from m import *` / importing the module
    model cpy_from_module                    vs  importlib.util.resolve_name;  cpy_chain_ok vs the package actually importing
    model inspect_signature                  vs inspect.signature (class methods: of __func__);  model cleandoc vs inspect.cleandoc
direct: griffe.load(pkg, allow_inspection=False) vs griffe.load(pkg, force_inspection=True) on the same generated package: member names,
    kinds, shared labels, parameters, base class paths, docstrings, alias final targets at every nesting level, modulo the allowed
    differences encoded in compare_trees(); the bases of every class three ways (static, inspected, cls.__bases__); which statement binds a
    name next to wildcard imports (static vs imported module); every third package loaded again on both agents with a passive extension that
    walks the trees with Extension.generic_visit / generic_inspect from node hooks: neither tree may change; histories of loads sharing the
    lines_collection / modules_collection options (dynamic+static in both orders, static-edit-static) against loads with fresh collections.  Anything else must satisfy a known-gap classifier confirmed by the model's
    verdict (F4, F6, F8, F9, F10, F12) or is a VIOLATION.
    corpus/C17: the witnesses of the repaired defects (F1 F2 F3 F5 F7, twin modules, built-in _x modules, wrapped class methods), on which
    the two agents must now agree completely.
"""
from __future__ import annotations

import ast
import functools
import importlib
import importlib.util
import inspect
import json
import re
import signal
import sys
import types
from pathlib import Path

from harness.translate import c17_tables

ID = "C17"
LEVEL_TEXT = ("Theorems (42, all closed under the global context). Kinds: for each of the 24 definition forms the member the Inspector derives from "
              "what CPython reports has the same Griffe kind and shared labels as the Visitor's -- stated both over the tabulated observations and "
              "over observations DERIVED from a small object semantics stated once (attribute access on a class/module, inspect.is*, callable, what "
              "each statement stores; C17_observations_derived proves the table is the derived one); the ladder always has a handler; the "
              "Inspector's member is a plain attribute iff the ladder ends on ATTRIBUTE (every observation vector), hence NAME = <value> agrees "
              "exactly when the value is plain (equivalence; F9 = the negation), annotated names with a value agree, without a value they are "
              "static-only and fall under 'instance attributes' exactly in a class body without ClassVar (F10 otherwise). Imports: "
              "relative_to_absolute = importlib for every depth/level, clamps where CPython refuses; re-export chains of every length end where the "
              "Inspector's alias points (modulo F4); imported plain values are attributes (stated exception); `import a.b.c [as x]` gives the "
              "same alias on both sides unless it binds the module it is written in (F6, exact) (built-in `_x` modules and underscore twins included since the repairs). Wildcard imports: "
              "the names expand_wildcards brings are the names CPython's import * binds (every member list, every __all__), and for every "
              "interleaving of definitions and wildcard imports the surviving binder is the same statement. Rebinding: for every list of imports, "
              "definitions and assignments of one name, when the statements CPython skips are exactly the branch assignments the visitor "
              "skips, the kept binding is the surviving one (F12 otherwise, e.g. TYPE_CHECKING import + else fallback); the places and conditions "
              "(TYPE_CHECKING, its negation, version tests, except handlers) are in the model, so F12 is an exact decidable predicate over "
              "the source and the kept member is proved to be a runtime one. Read-only extension hooks: ObjectNode.children's cached value is "
              "regenerated from the source, and for every object tree and every history of reads by extensions the Inspector traverses the "
              "whole tree, as without extensions (refuted for a one-shot iterator). Bases: for every class statement in "
              "any nesting of class bodies with any number of written bases Name / Name[...] / root.attr[...], each well bound (defined in an "
              "enclosing scope, imported through a chain of any length, external, builtin), the resolved static base paths equal the "
              "Inspector's, which are CPython's __bases__ without object -- unless class creation rewrites the bases through __mro_entries__ "
              "(F8: `rewrites`, decidable; a syntactic criterion for its absence is proved; two refutation witnesses); the path stored for a base "
              "name is the binding CPython's scoping finds (C04's theorem instantiated on class-statement scopes). Parameters (every signature, via "
              "C02), required-ness = CPython's binder, docstrings cleaned once, _pick_member. Ladder, handlers, decorator tables, _kind_map are "
              "regenerated from the source every run; every model part is tied to both agents on generated packages, live objects and stdlib "
              "modules, and the two agents and CPython (__bases__, import *, namespaces) are compared directly on every package.")
LEVEL_NOTE = ("Trusted: Coq kernel, extraction, translator harness/translate/c17_tables.py; the object semantics of Model/C17_pyobj.v (checked "
              "against live objects of every constructor: zoo + every generated member, by an independent Python evaluation of the 14 "
              "observations); typing's __mro_entries__ as modelled in Model/C17_bases.v for CPython 3.12 (checked against cls.__bases__ of every "
              "generated class); CPython's introspection / importlib / inspect.cleandoc / import * as authorities. inspect.getmembers and vars() "
              "are CPython's. The well_bound hypothesis of the bases theorem is discharged per binding kind by the alias-chain theorem and C04's "
              "resolution theorem, not by one closed composition over whole programs. static_final assumes the loaded tree holds exactly the "
              "generated members. Wildcard expansion is modelled per source module (names) and per importing body (binder), not the loader's "
              "recursion over modules (C05/C06/C18). Annotation/default expression text is opaque (C03).")
MODEL = ("Model.C17_run", "run_C17_all")
COQ_TARGETS = ["Proofs/C17_agents.vo", "Proofs/C17_bases.vo", "Proofs/C17_pyobj.vo", "Proofs/C17_star.vo", "Proofs/C17_rebind.vo", "Proofs/C17_hooks.vo", "Model/C17_run.vo"]
TRANSLATOR_NAME = "harness/translate/c17_tables.py"
RULE = ("seeded random importable packages (7-11 modules over 3 nesting levels, every definition form, signatures from C02's count vectors, "
        "plain / multiple / imported / builtin / explicit-object bases, generic and protocol hierarchies (Generic[T], typing.Generic[T], "
        "Protocol, Protocol[T], G, G[int], G[T]+Generic[T], Generic[T]+G[T], P+Protocol, List[int], Dict[...], list[int]) through names and "
        "attribute chains, nested classes with bases found in enclosing scopes, names bound by assignment to lambdas / partial objects / "
        "functions / classes, annotated names with and without value and with ClassVar, docstrings of random indentation shapes, "
        "absolute/relative/as-named imports of classes, functions, coroutines, modules and values incl. re-export chains, wildcard imports "
        "(one or two per module, sources with and without __all__, transitive), class-body imports, `import x.y`, self imports, imports of "
        "built-in underscore modules, names re-bound in branches that are not taken (try-import/except fallback, `if sys.version_info`, on "
        "imports, functions, classes, values) and TYPE_CHECKING-import/else-fallback, methods below functools.wraps decorators, __all__, "
        "computed parameter defaults (nested calls with keyword arguments, lists, dicts, lambdas), folders without __init__.py inside the regular packages (data files and / or Python files) imported by the package, optional underscore twin modules, modules named like the stdlib / top-level module they import "
        "from, quoted annotations that do not resolve at runtime), loaded statically and dynamically and imported; a zoo of live objects for "
        "every ladder rung and every object constructor; 150+ small packages interleaving definitions and wildcard imports; 40+ small packages loaded "
        "in histories sharing lines_collection / modules_collection (both orders, edit in between); exhaustive "
        "relative-import grid depth<=4 x level<=5; random docstring line lists; random dotted paths. non-trivial package = has at least one "
        "import chain; distinct by rendered source")
TRUSTED = ["translator harness/translate/c17_tables.py (whitelisted AST shapes of runtime.py / inspector.py / visitor.py / enumerations.py; fails closed)",
           "harness prims_of(): independent evaluation of the 14 primitive observations on a live object; pyobj_of(): classification of a live "
           "namespace entry by its exact type into the model's object universe",
           "Model/C17_pyobj.v (object semantics) and Model/C17_bases.v (__mro_entries__ of typing, CPython 3.12): stated once, tied by oracle checks"]
ASSUMPTIONS = ["generated modules bind literal values, def/async def, lambdas, partial objects, classes and import statements only (decorators: "
               "staticmethod/classmethod/property/cached_property/setter)",
               "docstring content atoms carry no trailing whitespace; tabs are not generated",
               "base classes are classes of the generated package, typing.Generic/Protocol/List/Dict, list, object or Exception; NamedTuple and "
               "TypedDict bases (F8 family, many injected members) are covered by the finding's witness only",
               "wildcard imports read from plain modules (not packages): submodule exposure is C05/C18's subject",
               "`object` as a base is compared as absent (whether it was written is knowable to the static agent only); names stored by "
               "typing.Protocol / abc machinery in classes below Protocol are treated like interpreter-provided attributes (exact table PROTOCOL_PROVIDED)"]

PRIM_NAMES = ["ismodule", "isclass", "parent_is_class", "dict_static", "dict_classm", "cached", "isfunctype", "isbuiltin", "iscoroutine",
              "ismethoddescriptor", "isfunction", "callable", "isgetset", "isproperty"]
SHARED = ["async", "staticmethod", "classmethod", "property", "cached"]
KINDS = {"positional-only": "PO", "positional or keyword": "PK", "variadic positional": "VP", "keyword-only": "KO", "variadic keyword": "VK"}
INSPECT_KINDS = {inspect.Parameter.POSITIONAL_ONLY: "PO", inspect.Parameter.POSITIONAL_OR_KEYWORD: "PK",
                 inspect.Parameter.VAR_POSITIONAL: "VP", inspect.Parameter.KEYWORD_ONLY: "KO", inspect.Parameter.VAR_KEYWORD: "VK"}


def render_sig(v, ann: bool):
    """v = (npo, nar, va, nko, kw, ndef, kwmask). Returns parameter-list text; atoms: annotations A<k>, defaults 100+k."""
    npo, nar, va, nko, kw, ndef, kwmask = v
    parts = []
    k = 0
    pos = [f"p{i}" for i in range(npo)] + [f"q{i}" for i in range(nar)]
    first_def = len(pos) - ndef
    for i, n in enumerate(pos):
        s = n
        if ann:
            s += f": A{k}"
        if i >= first_def:
            s += (" = " if ann else "=") + str(100 + k)
        k += 1
        parts.append(s)
        if i == npo - 1:
            parts.append("/")
    if va:
        parts.append("*r" + (f": A{k}" if ann else ""))
        k += 1
    elif nko:
        parts.append("*")
    for i in range(nko):
        s = f"k{i}"
        if ann:
            s += f": A{k}"
        if kwmask >> i & 1:
            s += (" = " if ann else "=") + str(100 + k)
        k += 1
        parts.append(s)
    if kw:
        parts.append("**w" + (f": A{k}" if ann else ""))
    return ", ".join(parts)


def _atom(node):
    if node is None:
        return None
    if isinstance(node, ast.Name) and node.id[0] == "A":
        return int(node.id[1:])
    if isinstance(node, ast.Constant) and isinstance(node.value, int):
        return node.value
    raise ValueError(ast.dump(node))


def abstract_arguments(a: ast.arguments):
    """ast.arguments -> the model's `arguments` record (Model/C02_params.v dec_arguments)"""
    arg = lambda x: [x.arg, [] if x.annotation is None else [_atom(x.annotation)]]
    return [[arg(x) for x in a.posonlyargs], [arg(x) for x in a.args], [] if a.vararg is None else [arg(a.vararg)],
            [arg(x) for x in a.kwonlyargs], [[] if d is None else [_atom(d)] for d in a.kw_defaults],
            [] if a.kwarg is None else [arg(a.kwarg)], [_atom(d) for d in a.defaults]]


def translate(ctx):
    c17_tables.translate(ctx)


# ------------------------------------------------------------------------------------------------------------------
# primitive observations on live objects (independent of ObjectNode)

def prims_of(parent_obj, name, raw, has_parent=True):
    obj = raw
    try:
        obj = inspect.unwrap(obj)
    except Exception:  # noqa: BLE001
        pass
    out = set()
    if isinstance(obj, functools.cached_property):
        out.add("cached")
        obj = obj.func
    tests = [("ismodule", inspect.ismodule), ("isclass", inspect.isclass), ("isbuiltin", inspect.isbuiltin),
             ("iscoroutine", inspect.iscoroutinefunction), ("ismethoddescriptor", inspect.ismethoddescriptor),
             ("isfunction", inspect.isfunction), ("callable", callable),
             ("isfunctype", lambda o: isinstance(o, types.FunctionType)), ("isgetset", lambda o: isinstance(o, types.GetSetDescriptorType)),
             ("isproperty", lambda o: isinstance(o, property))]
    for n, t in tests:
        if t(obj):
            out.add(n)
    if has_parent:
        if inspect.isclass(parent_obj):
            out.add("parent_is_class")
        d = getattr(parent_obj, "__dict__", None)
        if d is not None:
            v = d.get(name, None)
            if isinstance(v, staticmethod):
                out.add("dict_static")
            if isinstance(v, classmethod):
                out.add("dict_classm")
    return sorted(out), obj


def module_path_of(obj, enclosing_module):
    """What ObjectNode.module_path reports, recomputed from the object."""
    try:
        return obj.__module__
    except AttributeError:
        module = inspect.getmodule(obj) or enclosing_module
        try:
            return module.__spec__.name
        except AttributeError:
            return getattr(module, "__name__", None)


def opt_path(s):
    return [s.split(".")] if s else []


# ------------------------------------------------------------------------------------------------------------------
# package generator

DOC_WORDS = ["alpha", "beta", "gamma", "delta", "eps"]


def gen_doc(rng):
    """Returns (source literal body lines relative to the definition's indentation, abstract lines) or None."""
    r = rng.random()
    if r < 0.25:
        return None
    n = rng.randint(1, 4)
    lines = []
    for i in range(n):
        if rng.random() < 0.2:
            lines.append((rng.choice([0, 0, 2, 4, 6]), None))
        else:
            lines.append((rng.choice([0, 2, 4, 4, 6, 8]), rng.randrange(len(DOC_WORDS))))
    if rng.random() < 0.5:
        lines[0] = (0, lines[0][1] if lines[0][1] is not None else 0)          # common: text starts right after the quotes
    elif rng.random() < 0.6:
        lines[0] = (0, None)                                                    # common: blank first line
    return lines


def doc_text(lines):
    return "\n".join(" " * i + (DOC_WORDS[t] if t is not None else "") for i, t in lines)


def doc_abstract(lines):
    return [[i, [] if t is None else [t]] for i, t in lines]


def abstract_text(s):
    """Docstring.value -> abstract lines ([] for the empty text)."""
    if s == "":
        return []
    out = []
    for ln in s.split("\n"):
        body = ln.lstrip(" ")
        out.append([len(ln) - len(body), [DOC_WORDS.index(body)] if body else []])
    return out


def render_doc(lines, indent):
    if lines is None:
        return []
    text = doc_text(lines)
    # the literal sits at `indent`; continuation lines are written verbatim (their own indentation is part of the value)
    return [" " * indent + '"""' + text + '"""']


def _shadow_table():
    """stdlib modules and names defined in them (obj.__module__ is the module itself), so the expected alias is <module>.<name>"""
    table = {"logging": ["Logger", "getLogger"], "enum": ["Enum", "unique"], "json": ["dumps", "loads"], "types": ["SimpleNamespace", "new_class"]}
    out = {}
    for modname, names in table.items():
        m = importlib.import_module(modname)
        ok = [(n, "class" if inspect.isclass(getattr(m, n)) else "func") for n in names
              if getattr(getattr(m, n), "__module__", None) == modname and getattr(getattr(m, n), "__qualname__", None) == n]
        if ok:
            out[modname] = ok
    return out


SHADOWS = _shadow_table()
FALLBACK = "-17"          # the value of every fallback assignment (no generated value equals it)
def expr_default(rng, mk):
    """A default expression that evaluates at import time: calls with keyword arguments nested in keyword arguments, lists, dicts, lambdas."""
    return rng.choice([f"{mk}(x={mk}(y=1))", f"{mk}(1, p={mk}(q={mk}(r=2)))", f"[{mk}(z=1), {mk}(w={mk}(v=3))]", f"{mk}(**{mk}(a=1))", f"{mk}(a=1)",
                       f"(lambda: {mk}(k={mk}(j=2)))", "{'k': %s(x=%s(y=1))}" % (mk, mk), f"{mk}({mk}(a=1))", f"{mk}(a={mk}(1))", f"{mk}(a=[{mk}(b=2)])"])


TAGS = {"core": "c", "_core": "u", "util": "t", "inner": "i", "deep": "d", "leaf": "l", "sub": "s"}
VALUES = ["1", repr("s"), "(1, 2)", "None", "[1]", "{1: 2}", "1.5", "True"]


class Gen:
    """One random package.
    self.meta[dotted member path] = {"form": defform sexp | "module" | "instance" | "extimport", "doc": lines, "sig": text, ...}
    self.exports[module][name] = {"kind", "defmod", "defname", "chain": [hop, ...]}; hop = {"mod","init","imp","cur","src","srcname"}:
    the import statement `imp` in module `mod` (scope path `cur`) reading `srcname` from module `src`; chain = [] for local definitions."""

    def __init__(self, rng, pkg, quick=True):
        self.rng = rng
        self.pkg = pkg
        self.files = {}
        self.meta = {}
        self.exports = {}
        self.twin = rng.random() < 0.35
        self.self_import = rng.random() < 0.06
        self.twin_module = False
        self.twin_module_in_class = False
        self.extra_tops = []
        self.n_annotated = 0
        self.ann_pool = ["Missing", "N0"]
        self.need_sys = set()  # modules that test sys.version_info
        self.need_wrap = set() # modules that use the functools.wraps decorator helper
        self.need_mk = set()   # modules whose functions have computed defaults (calls with keyword arguments, nested)
        self.ns = {}           # module -> {name bound when its body has run: {"cat": "thing" | "ext" | "assigned" | "module-import", ...}}
        self.all_of = {}       # module -> its __all__ (list) or None
        self.static_only = {}  # module -> names the visitor records although nothing binds them (annotation-only)
        self.cinfo = {}        # (defining module, qualified name) -> {"params", "gensub", "is_protocol", "proto_desc"}
        self.ext = {}          # module -> {name bound by an import from outside the package: dotted target}
        self.mods = self.layout()
        shadows = self.gen_shadows()
        self.mods = shadows + self.mods
        for m in self.mods[len(shadows):]:
            self.gen_module(m)

    def gen_shadows(self):
        """Package modules named like the top-level module they import from: pkg/logging.py doing `from logging import Logger`,
        and the intra-project shape pkg/<name>.py importing from a top-level <name>.py of the same source root."""
        rng = self.rng
        out = []
        if rng.random() < 0.35:
            name = rng.choice(sorted(SHADOWS))
            self.add_shadow(f"{self.pkg}.{name}", name, SHADOWS[name])
            out.append((f"{self.pkg}.{name}", False))
        if rng.random() < 0.25:
            name = f"ext_{self.pkg}"
            self.files[f"{name}.py"] = "class ExtK:\n    pass\ndef ext_f(a, b=1):\n    pass\n"
            self.extra_tops.append(name)
            self.add_shadow(f"{self.pkg}.{name}", name, [("ExtK", "class"), ("ext_f", "func")])
            out.append((f"{self.pkg}.{name}", False))
        return out

    def add_shadow(self, mod, source, names):
        self.files[self.path_of(mod, False)] = f"from {source} import {', '.join(n for n, _ in names)}\n"
        self.meta[mod] = {"form": "module", "doc": None}
        for n, kind in names:
            self.meta[f"{mod}.{n}"] = {"form": ["imported", "mod", kind], "external": f"{source}.{n}", "name": n}
        self.exports[mod] = {}

    def layout(self):
        p = self.pkg
        order = [(f"{p}.core", False), (f"{p}.util", False)]
        if self.twin:
            order = [(f"{p}._core", False)] + order
        order += [(f"{p}.sub.deep.inner", False), (f"{p}.sub.deep", True), (f"{p}.sub.leaf", False), (f"{p}.sub", True), (p, True)]
        return order

    def path_of(self, mod, init):
        return "/".join(mod.split(".")) + ("/__init__.py" if init else ".py")

    def rand_sig(self):
        rng = self.rng
        if rng.random() < 0.5:
            v = (rng.randint(0, 1), rng.randint(0, 2), rng.randint(0, 1), rng.randint(0, 2), rng.randint(0, 1))
        else:
            v = (rng.randint(0, 2), rng.randint(0, 3), rng.randint(0, 1), rng.randint(0, 3), rng.randint(0, 1))
        npo, nar, va, nko, kw = v
        return (npo, nar, va, nko, kw, rng.randint(0, npo + nar), rng.getrandbits(nko) if nko else 0)

    def sig_pair(self, first=None):
        """(plain parameter list, parameter list as written, return annotation as written).  About a third of the definitions carry
        quoted annotations naming things that do not exist in the function's globals at runtime: a name imported only under
        `if typing.TYPE_CHECKING:`, a nested class (class-scope name), or nothing at all.  `first, <any legal list>` is always legal."""
        rng = self.rng
        v = self.rand_sig()
        plain = render_sig(v, False)
        src, ret = plain, ""
        if rng.random() < 0.3:
            src = re.sub(r": A\d+", lambda m: ': "%s"' % rng.choice(self.ann_pool), render_sig(v, True))
            if rng.random() < 0.5:
                ret = ' -> "%s"' % rng.choice(self.ann_pool)
            if src != plain or ret:
                self.n_annotated += 1
        if first:
            plain = f"{first}, {plain}" if plain else first
            src = f"{first}, {src}" if src else first
        return plain, src, ret

    def gen_module(self, modinit):
        mod, init = modinit
        rng = self.rng
        tag = "p" if mod == self.pkg else TAGS[mod.rsplit(".", 1)[1]]
        L = []
        exports = {}
        doc = gen_doc(rng)
        L += render_doc(doc, 0)
        self.meta[mod] = {"form": "module", "doc": doc}
        need_functools = False
        body = []
        self.ann_pool = ["Missing", "N0"]
        guarded = []
        names_in_order = [m for m, _ in self.mods]
        # wildcard imports are the first statements of the module: whatever the module binds itself afterwards wins on both sides
        stars = []
        star_srcs = [m for m, i in self.mods[: names_in_order.index(mod)] if not i and m in self.ns and not same_components(m, mod)]
        if star_srcs and rng.random() < 0.22:
            for src in rng.sample(star_srcs, min(len(star_srcs), rng.choice([1, 1, 2]))):
                stmt, imp = self.render_import(mod, init, src, "*", None)
                stars.append((src, stmt, imp))
        lower_classes = [(src, n) for src in names_in_order[: names_in_order.index(mod)]
                         for n, o in self.exports[src].items() if o["kind"] == "class" and not o["chain"]]
        if lower_classes and rng.random() < 0.3:
            src, n = rng.choice(lower_classes)
            guarded = ["import typing", "if typing.TYPE_CHECKING:", f"    from {src} import {n} as Tc{n}"]
            self.meta[f"{mod}.typing"] = {"form": "extimport", "target": "typing"}
            self.meta[f"{mod}.Tc{n}"] = {"form": "typeguarded", "target": f"{src}.{n}"}
            r = rng.random()
            if r < 0.2:
                # ... with a runtime fallback in the else branch: the visitor keeps the import, CPython executes the assignment (F12)
                guarded += ["else:", f"    Tc{n} = {FALLBACK}"]
                self.meta[f"{mod}.Tc{n}"].update({"rebind": [["import", ["then", "tc"]], ["assign", ["else", "tc"]]], "fallback": [1]})
            elif r < 0.35:
                # ... the same with the negated test: the import sits in the (type-checking-only) else branch
                guarded = ["import typing", "if not typing.TYPE_CHECKING:", f"    Tc{n} = {FALLBACK}", "else:", f"    from {src} import {n} as Tc{n}"]
                self.meta[f"{mod}.Tc{n}"].update({"rebind": [["assign", ["then", "nottc"]], ["import", ["else", "nottc"]]], "fallback": [0]})
            self.ann_pool = [f"Tc{n}", f"Tc{n}", "Missing", "N0"]
        kit = None
        self.ext[mod] = {}
        if rng.random() < 0.55:
            # generic / protocol classes: `from typing import ...` (names) or `import typing` (attribute chains)
            kit = {"style": rng.choice(["from", "attr"]), "tv": f"TV{tag}"}
            if kit["style"] == "from":
                names = ["Generic", "TypeVar", "Protocol", "List", "Dict"]
                body.append("from typing import " + ", ".join(names))
                for n in names:
                    self.meta[f"{mod}.{n}"] = {"form": "extimport", "target": f"typing.{n}"}
                    self.ext[mod][n] = f"typing.{n}"
                body.append(f'{kit["tv"]} = TypeVar("{kit["tv"]}")')
            else:
                if not guarded:
                    body.append("import typing")
                    self.meta[f"{mod}.typing"] = {"form": "extimport", "target": "typing"}
                body.append(f'{kit["tv"]} = typing.TypeVar("{kit["tv"]}")')
            self.meta[f"{mod}.{kit['tv']}"] = {"form": ["value", "mod"], "value": "TypeVar"}
            exports[kit["tv"]] = {"kind": "value", "defmod": mod, "defname": kit["tv"], "chain": []}
        if guarded or (kit and kit["style"] == "attr"):
            self.ext[mod]["typing"] = "typing"
        for i in range(rng.randint(0, 2)):
            name = f"V{i}{tag}"
            value = rng.choice(VALUES)
            body.append(f"{name} = {value}")
            self.meta[f"{mod}.{name}"] = {"form": ["value", "mod"], "value": value}
            exports[name] = {"kind": "value", "defmod": mod, "defname": name, "chain": []}
            if rng.random() < 0.08:
                body += ["try:", "    pass", "except ImportError:", f"    {name} = {FALLBACK}"]
                self.meta[f"{mod}.{name}"].update({"rebind": [["assign", "top"], ["assign", "except"]], "fallback": [1]})
        for i in range(rng.randint(1, 3)):
            name = f"f{i}{tag}"
            is_async = rng.random() < 0.3
            sig, src_sig, ret = self.sig_pair()
            d = gen_doc(rng)
            body.append(f"{'async ' if is_async else ''}def {name}({src_sig}){ret}:")
            body += render_doc(d, 4) or ["    pass"]
            self.meta[f"{mod}.{name}"] = {"form": ["func", "mod", is_async], "doc": d, "sig": sig, "bound": False}
            exports[name] = {"kind": "asyncfunc" if is_async else "func", "defmod": mod, "defname": name, "chain": []}
            if rng.random() < 0.08:
                body += ["if sys.version_info < (3, 0):", f"    {name} = {FALLBACK}"]
                self.need_sys.add(mod)
                self.meta[f"{mod}.{name}"].update({"rebind": [["def", "top"], ["assign", ["then", "false"]]], "fallback": [1]})
        if rng.random() < 0.3:
            self.need_mk.add(mod)
            name = f"e0{tag}"
            d = gen_doc(rng)
            mk = f"_mk{tag}"
            body.append(f"def {name}(a, b={expr_default(rng, mk)}, c={expr_default(rng, mk)}, *, d, e={expr_default(rng, mk)}):")
            body += render_doc(d, 4) or ["    pass"]
            self.meta[f"{mod}.{name}"] = {"form": ["func", "mod", False], "doc": d, "bound": False, "exprdefaults": True}
            exports[name] = {"kind": "func", "defmod": mod, "defname": name, "chain": []}
        # imports from lower modules come after this module's own functions/values and before its classes (imported bases)
        body += self.gen_imports(mod, init, exports)
        local_classes = []          # [(name, info)] in definition order
        for i in range(rng.randint(1, 3 if kit else 2)):
            name = f"K{i}{tag}"
            specs = self.choose_bases(mod, exports, local_classes, kit)
            lines, nf = self.gen_class(mod, init, (name,), specs, 0, exports, [n for n, _ in local_classes])
            need_functools |= nf
            body += lines
            local_classes.append((name, self.cinfo[(mod, name)]))
            exports[name] = {"kind": "class", "defmod": mod, "defname": name, "chain": []}
            if rng.random() < 0.06 and i > 0:
                # (only a class that no later class statement of this module can name as a base... the last ones)
                body += ["if sys.version_info < (3, 0):", f"    {name} = {FALLBACK}"]
                self.need_sys.add(mod)
                self.meta[f"{mod}.{name}"].update({"rebind": [["def", "top"], ["assign", ["then", "false"]]], "fallback": [1]})
        # names bound by assignment to something that is not a plain value; annotated names with and without a value
        self.static_only[mod] = []
        funcs = [(n, o) for n, o in exports.items() if o["kind"] in ("func", "asyncfunc") and not o["chain"]]
        if rng.random() < 0.15:
            kinds = ["lambda", "ann-unbound", "ann-bound"] + (["partial", "funcalias"] if funcs else []) + (["clsalias"] if local_classes else [])
            for k, kind in enumerate(rng.sample(kinds, rng.randint(1, min(3, len(kinds))))):
                name = f"x{k}{tag}"
                if kind == "lambda":
                    text, obj = f"{name} = lambda a, b=1: a", ["function", 0]
                elif kind == "partial":
                    fn, fo = rng.choice(funcs)
                    need_functools = True
                    text, obj = f"{name} = functools.partial({fn})", ["partial", ["function", 1 if fo["kind"] == "asyncfunc" else 0]]
                elif kind == "funcalias":
                    fn, fo = rng.choice(funcs)
                    text, obj = f"{name} = {fn}", ["function", 1 if fo["kind"] == "asyncfunc" else 0]
                elif kind == "clsalias":
                    text, obj = f"{name} = {rng.choice(local_classes)[0]}", ["class"]
                elif kind == "ann-unbound":
                    body.append(f"{name}: int")
                    self.meta[f"{mod}.{name}"] = {"form": ["annotated", "mod", 0, 0]}
                    self.static_only[mod].append(name)
                    continue
                else:
                    body.append(f"{name}: int = 3")
                    self.meta[f"{mod}.{name}"] = {"form": ["annotated", "mod", 0, 1]}
                    exports[name] = {"kind": "value", "defmod": mod, "defname": name, "chain": []}
                    continue
                body.append(text)
                self.meta[f"{mod}.{name}"] = {"form": ["assigned", "mod", obj], "text": text}
                exports[name] = {"kind": "assigned", "obj": obj, "defmod": mod, "defname": name, "chain": [], "special": True}
        lower = names_in_order[: names_in_order.index(mod)]
        if not init and rng.random() < 0.05:
            # `import <this module> as me`: binds the module it is written in (F6, general form)
            body.append(f"import {mod} as me_{tag}")
            self.meta[f"{mod}.me_{tag}"] = {"form": "selfimport", "import_stmt": [mod.split("."), [f"me_{tag}"]]}
        if rng.random() < 0.06:
            # a built-in module whose name starts with an underscore (aliased under its own name since the repair of F11)
            bm, asn = rng.choice([("_io", None), ("_thread", f"th_{tag}"), ("_operator", None), ("_functools", f"ft_{tag}")])
            body.append(f"import {bm}" + (f" as {asn}" if asn else ""))
            self.meta[f"{mod}.{asn or bm}"] = {"form": "builtinimport", "import_stmt": [[bm], [asn] if asn else []]}
            self.ext[mod][asn or bm] = bm
        if init and rng.random() < 0.25:
            # a folder of this package WITHOUT __init__.py (data files, plug-ins: an implicit namespace sub-package), imported by the package
            folder = f"tpl{tag}"
            base = "/".join(mod.split(".")) + f"/{folder}"
            variant = rng.choice(["data", "data+py", "py"])
            if variant != "py":
                self.files[f"{base}/page.txt"] = "Hello {name}\n"
            if variant != "data":
                self.files[f"{base}/plug.py"] = "def hook(a, b=1):\n    pass\n"
            stmt = rng.choice([f"from . import {folder}", f"from . import {folder} as data{tag}"] + ([f"from .{folder} import plug as plug{tag}"] if variant != "data" else []))
            body.append(stmt)
            self.meta[mod]["nsfolder"] = {"folder": folder, "variant": variant, "stmt": stmt}
            for bound in ([f"data{tag}"] if " as data" in stmt else []) + ([f"plug{tag}"] if "plug" in stmt else []):
                self.meta[f"{mod}.{bound}"] = {"form": "nsfolder-import"}
        all_names = None
        if rng.random() < 0.4:
            names = [n for n in exports if not n.startswith("_")]
            all_names = sorted(rng.sample(names, min(len(names), rng.randint(1, 3))))
            body.append(f"__all__ = {all_names!r}")
            self.meta[f"{mod}.__all__"] = {"form": ["value", "mod"], "value": repr(all_names)}
        L += [stmt for _, stmt, _ in stars]
        if mod in self.need_mk:
            body[:0] = [f"def _mk{tag}(*r, **w):", "    return dict(w, _=1)"]
            self.meta[f"{mod}._mk{tag}"] = {"form": ["func", "mod", False], "doc": None, "sig": "*r, **w", "bound": False}
        if mod in self.need_wrap:
            need_functools = True
            body[:0] = [f"def _wr{tag}(fn):", "    @functools.wraps(fn)", "    def w(*a, **k):", "        return fn(*a, **k)", "    return w"]
            self.meta[f"{mod}._wr{tag}"] = {"form": ["func", "mod", False], "doc": None, "sig": "fn", "bound": False}
        if need_functools:
            L.append("import functools")
            self.meta[f"{mod}.functools"] = {"form": "extimport", "target": "functools"}
            self.ext[mod]["functools"] = "functools"
        if mod in self.need_sys:
            L.append("import sys")
            self.meta[f"{mod}.sys"] = {"form": "extimport", "target": "sys"}
            self.ext[mod]["sys"] = "sys"
        L += guarded
        L += body
        self.files[self.path_of(mod, init)] = "\n".join(L) + "\n"
        self.files_mods = {m for m, _ in self.mods}
        # the namespace of this module when its body has run: its own names ...
        ns = {}
        for n, o in exports.items():
            if o.get("special"):
                ns[n] = {"cat": "assigned", "obj": o["obj"], "source": f"{mod}.{n}"}
            elif o.get("via_import"):
                ns[n] = {"cat": "module-import", "target": ((o["defmod"] + ".") if o["defmod"] else "") + o["defname"]}
            else:
                ns[n] = {"cat": "thing", "o": o}
        for n, t in self.ext[mod].items():
            ns[n] = {"cat": "ext", "target": t}
        for k, m in self.meta.items():
            if k.startswith(mod + ".Tc") and m.get("rebind"):
                ns[k[len(mod) + 1:]] = {"cat": "f12", "source": k}
        if f"{mod}.me_{tag}" in self.meta:
            ns[f"me_{tag}"] = {"cat": "module-import", "target": mod}
        own = set(ns) | set(self.static_only[mod]) | {k[len(mod) + 1:] for k in self.meta if k.startswith(mod + ".") and "." not in k[len(mod) + 1:]}
        # ... and what the wildcard imports brought and nothing replaced afterwards (a later wildcard replaces an earlier one)
        self.meta[mod]["stars"] = []
        for src, stmt, imp in stars:
            brought = self.star_names(src)
            self.meta[mod]["stars"].append({"src": src, "imp": imp, "init": init, "names": brought})
            for n in brought + [x for x in self.star_static_only(src) if x not in brought]:
                e = self.ns[src].get(n)
                if n in own:
                    own_meta = self.meta.get(f"{mod}.{n}", {})
                    if e and e["cat"] == "f12" and own_meta.get("form") == "typeguarded" and not own_meta.get("rebind"):
                        ns[n] = dict(e)     # only a TYPE_CHECKING import of its own: the value the wildcard import brought stays bound
                    continue
                hop = {"mod": mod, "init": init, "imp": [imp[0], imp[1], n, []], "cur": mod, "src": src, "srcname": n}
                if e is None:
                    # only the visitor has this name in the source module (annotation without value)
                    up = self.meta.get(f"{src}.{n}", {})
                    self.meta[f"{mod}.{n}"] = {"form": "starred", "cat": "static-only", "source": up["source"] if up.get("form") == "starred" else f"{src}.{n}"}
                    self.static_only[mod].append(n)
                    continue
                if e["cat"] == "thing":
                    o = e["o"]
                    chain = [hop] + o["chain"]
                    self.meta.setdefault(f"{mod}.{n}", {}).update({"form": ["imported", "mod", o["kind"]], "chain": chain, "origin": o, "name": n, "star": True})
                    exports[n] = {"kind": o["kind"], "defmod": o["defmod"], "defname": o["defname"], "chain": chain}
                    ns[n] = {"cat": "thing", "o": exports[n]}
                else:
                    self.meta.setdefault(f"{mod}.{n}", {}).update({"form": "starred", **e})
                    ns[n] = dict(e)
        self.ns[mod] = ns
        self.all_of[mod] = all_names
        self.exports[mod] = exports

    def star_names(self, src):
        """The names `from src import *` binds: CPython's rule on the namespace of src."""
        al = self.all_of[src]
        return [n for n in self.ns[src] if (n in al if al is not None else not n.startswith("_"))]

    def star_static_only(self, src):
        """Names only the visitor has in src and exposes to a wildcard import."""
        return [n for n in self.static_only.get(src, []) if self.all_of[src] is None and not n.startswith("_")]

    def choose_bases(self, mod, exports, local_classes, kit):
        """Base list of a module-level class: [{"src", "expr", "val", "info"?}].  expr: ["name", n] | ["attr", root, [segs]] | ["sub", e];
        val (what the head denotes at runtime): ["class", path, Generic-in-MRO] | ["typingalias", written path, origin path]."""
        rng = self.rng

        def cls_spec(bound, defmod, defname, sub=None):
            info = self.cinfo[(defmod, defname)]
            expr, src = ["name", bound], bound
            if sub:
                expr, src = ["sub", expr], f"{bound}[{sub}]"
            return {"src": src, "expr": expr, "val": ["class", defmod.split(".") + defname.split("."), 1 if info["gensub"] else 0], "info": info, "sub": sub}

        def typ_spec(n, sub=None, val=None):
            if kit["style"] == "from":
                expr, src = ["name", n], n
            else:
                expr, src = ["attr", "typing", [n]], f"typing.{n}"
            if sub:
                expr, src = ["sub", expr], f"{src}[{sub}]"
            return {"src": src, "expr": expr, "val": val or ["class", ["typing", n], 1], "typing": n, "sub": sub}

        def builtin_spec(n, sub=None):
            expr, src = ["name", n], n
            if sub:
                expr, src = ["sub", expr], f"{n}[{sub}]"
            return {"src": src, "expr": expr, "val": ["class", ["builtins", n], 0], "builtin": n, "sub": sub}

        known = [(n, mod, n) for n, _ in local_classes]
        known += [(n, o["defmod"], o["defname"]) for n, o in exports.items() if o["kind"] == "class" and o["chain"] and (o["defmod"], o["defname"]) in self.cinfo]
        info_of = lambda k: self.cinfo[(k[1], k[2])]
        generics = [k for k in known if info_of(k)["params"]]
        protos = [k for k in known if info_of(k)["is_protocol"]]
        options = [("plain", 40), ("object", 3), ("list", 3)]
        if kit:
            options += [("generic-root", 14), ("protocol-root", 8), ("typing-alias", 3 if kit["style"] == "from" else 0)]
            options += [("generic-sub", 22 if generics else 0), ("protocol-sub", 10 if protos else 0)]
        pick = rng.choices([o for o, _ in options], [w for _, w in options])[0]
        tv = kit["tv"] if kit else None
        if pick == "generic-root":
            return [typ_spec("Generic", tv)]
        if pick == "protocol-root":
            return [typ_spec("Protocol", tv if rng.random() < 0.5 else None)]
        if pick == "generic-sub":
            g = rng.choice(generics)
            q = rng.random()
            if q < 0.3:
                return [cls_spec(*g)]                                  # plain subclass of a generic class (no __orig_bases__ of its own)
            if q < 0.6:
                return [cls_spec(*g, sub="int")]
            if q < 0.9:
                return [cls_spec(*g, sub=tv), typ_spec("Generic", tv)]
            return [typ_spec("Generic", tv), cls_spec(*g, sub=tv)]     # CPython drops this Generic[T] (a later base is a generic alias)
        if pick == "protocol-sub":
            g = rng.choice(protos)
            q = rng.random()
            if q < 0.5:
                return [cls_spec(*g)]                                  # explicit implementation of a protocol
            if q < 0.75 or not info_of(g)["params"]:
                return [cls_spec(*g), typ_spec("Protocol")]
            return [cls_spec(*g, sub="int"), typ_spec("Protocol")]
        if pick == "typing-alias":
            n, sub, origin = rng.choice([("List", "int", "list"), ("Dict", "str, int", "dict")])
            return [typ_spec(n, sub if rng.random() < 0.7 else None, ["typingalias", ["typing", n], ["builtins", origin]])]
        if pick == "object":
            return [builtin_spec("object")]
        if pick == "list":
            return [builtin_spec("list", "int")]
        roots = [k for k in known if info_of(k)["root"] and k[1] == mod]
        plain = [("single", 30 if known else 0), ("two-roots", 12 if len(roots) >= 2 else 0), ("exception", 8), ("none", 50)]
        pick = rng.choices([o for o, _ in plain], [w for _, w in plain])[0]
        if pick == "single":
            return [cls_spec(*rng.choice(known))]
        if pick == "two-roots":
            return [cls_spec(*k) for k in rng.sample(roots, 2)]
        if pick == "exception":
            return [builtin_spec("Exception")]
        return []

    def gen_class(self, mod, init, qual, specs, depth, exports, outer=()):
        rng = self.rng
        ind1 = " " * (4 * depth + 4)
        path = f"{mod}." + ".".join(qual)
        bases = [sp["src"] for sp in specs]
        L = [f"{' ' * (4 * depth)}class {qual[-1]}{'(' + ', '.join(bases) + ')' if bases else ''}:"]
        d = gen_doc(rng)
        L += render_doc(d, 4 * depth + 4)
        self.meta[path] = {"form": ["class", "cls" if depth else "mod"], "doc": d, "bases": specs, "mod": mod, "qual": list(qual)}
        direct_t = [sp.get("typing") for sp in specs]
        infos = [sp["info"] for sp in specs if "info" in sp]
        info = {"params": any(sp.get("typing") in ("Generic", "Protocol") and sp.get("sub") for sp in specs) or any("info" in sp and sp.get("sub") not in (None, "int") for sp in specs),
                "gensub": any(t is not None for t in direct_t) or any(i["gensub"] for i in infos),
                "is_protocol": "Protocol" in direct_t,
                "proto_desc": "Protocol" in direct_t or any(i["proto_desc"] for i in infos),
                "root": not specs}
        self.cinfo[(mod, ".".join(qual))] = info
        need_functools = False
        n_before = len(L)
        if rng.random() < 0.5:
            value = rng.choice(["1", repr("c"), "(1,)", "None"])
            L.append(f"{ind1}C0 = {value}")
            self.meta[f"{path}.C0"] = {"form": ["value", "cls"], "value": value}
        if rng.random() < 0.1:
            kinds = ["ann-unbound", "ann-bound", "lambda"] + (["classvar", "classvar-unbound"] if "typing" in self.ext.get(mod, {}) else [])
            for k, kind in enumerate(rng.sample(kinds, rng.randint(1, 2))):
                name = f"y{k}"
                if kind == "lambda":
                    L.append(f"{ind1}{name} = lambda self, a=1: a")
                    self.meta[f"{path}.{name}"] = {"form": ["assigned", "cls", ["function", 0]]}
                else:
                    cv = kind.startswith("classvar")
                    hv = kind in ("ann-bound", "classvar")
                    L.append(f"{ind1}{name}: {'typing.ClassVar[int]' if cv else 'int'}" + (" = 2" if hv else ""))
                    self.meta[f"{path}.{name}"] = {"form": ["annotated", "cls", 1 if cv else 0, 1 if hv else 0]}
        forms = ["method", "method", "async_method", "static", "async_static", "classm", "async_classm", "prop", "prop_setter", "cached", "init"]
        forms += [f for f in ("wrapped_method", "wrapped_classm", "wrapped_static") if rng.random() < 0.25]
        if rng.random() < 0.12:
            self.need_mk.add(mod)
            mk = "_mk" + ("p" if mod == self.pkg else TAGS[mod.rsplit(".", 1)[1]])
            L += [f"{ind1}def me(self, a, b={expr_default(rng, mk)}, *, c={expr_default(rng, mk)}, d):", f"{ind1}    pass"]
            self.meta[f"{path}.me"] = {"form": ["func", "cls", False], "doc": None, "bound": False, "exprdefaults": True}
        wr = "_wr" + ("p" if mod == self.pkg else TAGS[mod.rsplit(".", 1)[1]])
        for i, form in enumerate(rng.sample(forms, rng.randint(1, 5))):
            name = "__init__" if form == "init" else f"m{i}"
            dd = gen_doc(rng)
            wrapped = form.startswith("wrapped_")
            if wrapped:
                # a functools.wraps decorator below staticmethod / classmethod / nothing: ObjectNode unwraps down to the written function
                form = form[8:]
                self.need_wrap.add(mod)
                need_functools = True
            is_async = form.startswith("async_")
            base = form[6:] if is_async else form
            pre = (f"@{wr}\n{ind1}" if wrapped else "") + ("async def" if is_async else "def")
            dl = render_doc(dd, 4 * depth + 8)
            if base in ("method", "init"):
                sig, src_sig, ret = self.sig_pair("self")
                L.append(f"{ind1}{pre} {name}({src_sig}){ret}:")
                L += dl
                if base == "init":
                    L.append(f"{ind1}    self.inst_attr = 1")
                    self.meta[f"{path}.inst_attr"] = {"form": "instance"}
                elif not dl:
                    L.append(f"{ind1}    pass")
                self.meta[f"{path}.{name}"] = {"form": ["func", "cls", is_async], "doc": dd, "sig": sig, "bound": False, "wrapped": wrapped}
            elif base == "static":
                sig, src_sig, ret = self.sig_pair()
                L += [f"{ind1}@staticmethod", f"{ind1}{pre} {name}({src_sig}){ret}:"] + (dl or [f"{ind1}    pass"])
                self.meta[f"{path}.{name}"] = {"form": ["static", is_async], "doc": dd, "sig": sig, "bound": False, "wrapped": wrapped}
            elif base == "classm":
                sig, src_sig, ret = self.sig_pair("cls")
                L += [f"{ind1}@classmethod", f"{ind1}{pre} {name}({src_sig}){ret}:"] + (dl or [f"{ind1}    pass"])
                self.meta[f"{path}.{name}"] = {"form": ["classm", is_async], "doc": dd, "sig": sig, "bound": True, "wrapped": wrapped}
            elif base in ("prop", "prop_setter"):
                L += [f"{ind1}@property", f"{ind1}def {name}(self):"] + dl + [f"{ind1}    return 1"]
                if base == "prop_setter":
                    L += [f"{ind1}@{name}.setter", f"{ind1}def {name}(self, value):", f"{ind1}    pass"]
                self.meta[f"{path}.{name}"] = {"form": ["prop"], "doc": dd}
            elif base == "cached":
                need_functools = True
                L += [f"{ind1}@functools.cached_property", f"{ind1}def {name}(self):"] + dl + [f"{ind1}    return 1"]
                self.meta[f"{path}.{name}"] = {"form": ["cachedprop"], "doc": dd}
        # class-body import: repeat one of this module's own from-imports inside the class
        cands = [(n, o) for n, o in exports.items() if o["chain"] and not o.get("via_import") and not o.get("special")]
        if cands and rng.random() < 0.25:
            n, o = rng.choice(cands)
            h = o["chain"][0]
            bound = f"ci_{n}"
            if o["kind"] == "module" and same_components(f"{o['defmod']}.{o['defname']}", mod):
                self.twin_module_in_class = True        # (once F4's module variant: inspect_module replaced the tree under construction)
            stmt, imp = self.render_import(mod, init, h["src"], h["srcname"], bound, force_abs=rng.random() < 0.5)
            L.append(f"{ind1}{stmt}")
            hop = {"mod": mod, "init": init, "imp": imp, "cur": path, "src": h["src"], "srcname": h["srcname"]}
            self.meta[f"{path}.{bound}"] = {"form": ["imported", "cls", o["kind"]], "origin": o, "chain": [hop] + o["chain"][1:], "name": bound}
        if depth < 2 and rng.random() < (0.45 if depth == 0 else 0.3):
            nspecs = []
            if outer and rng.random() < 0.35:
                # a base named in a class body: looked up in the enclosing scopes (here: found in the module)
                b = rng.choice(list(outer))
                nspecs = [{"src": b, "expr": ["name", b], "val": ["class", mod.split(".") + [b], 1 if self.cinfo[(mod, b)]["gensub"] else 0], "info": self.cinfo[(mod, b)], "sub": None}]
            nname = f"N{depth}"
            lines, nf = self.gen_class(mod, init, qual + (nname,), nspecs, depth + 1, exports, outer)
            L += lines
            need_functools |= nf
            if rng.random() < 0.25:
                # a sibling nested class deriving from it: the base name is bound in the class body itself
                sib = ".".join(qual + (nname,))
                sspec = [{"src": nname, "expr": ["name", nname], "val": ["class", mod.split(".") + list(qual) + [nname], 1 if self.cinfo[(mod, sib)]["gensub"] else 0], "info": self.cinfo[(mod, sib)], "sub": None}]
                lines, nf = self.gen_class(mod, init, qual + (nname + "b",), sspec, depth + 1, exports, ())
                L += lines
                need_functools |= nf
        if len(L) == n_before:
            L.append(f"{ind1}pass")
        return L, need_functools

    def render_import(self, mod, init, from_mod, name, asname, force_abs=False):
        """`from <from_mod> import <name> [as asname]` written absolutely or relatively from `mod`. Returns (text, model import)."""
        rng = self.rng
        package = mod if init else mod.rsplit(".", 1)[0]
        pk = package.split(".")
        fm = from_mod.split(".")
        as_part = f" as {asname}" if asname and asname != name else ""
        as_opt = [asname] if as_part else []
        if not force_abs and rng.random() < 0.6:
            k = 0
            while k < len(pk) and k < len(fm) and pk[k] == fm[k]:
                k += 1
            level = len(pk) - k + 1
            rest = fm[k:]
            return f"from {'.' * level}{'.'.join(rest)} import {name}{as_part}", [level, rest, name, as_opt]
        return f"from {from_mod} import {name}{as_part}", [0, fm, name, as_opt]

    def add_from_import(self, mod, init, exports, src, name, o, bound, L, force_abs=False):
        stmt, imp = self.render_import(mod, init, src, name, bound, force_abs=force_abs)
        rebind = None
        r = self.rng.random()
        if r < 0.08:
            # the optional-accelerator idiom: the import succeeds, the fallback in the handler is never executed
            L += ["try:", f"    {stmt}", "except ImportError:", f"    {bound} = {FALLBACK}"]
            rebind = [["import", "top"], ["assign", "except"]]
        elif r < 0.15:
            L += [stmt, "if sys.version_info < (3, 0):", f"    {bound} = {FALLBACK}"]
            self.need_sys.add(mod)
            rebind = [["import", "top"], ["assign", ["then", "false"]]]
        elif r < 0.21:
            L += ["if sys.version_info >= (3, 0):", f"    {stmt}", "else:", f"    {bound} = {FALLBACK}"]
            self.need_sys.add(mod)
            rebind = [["import", ["then", "true"]], ["assign", ["else", "true"]]]
        else:
            L.append(stmt)
        hop = {"mod": mod, "init": init, "imp": imp, "cur": mod, "src": src, "srcname": name}
        chain = [hop] + o["chain"]
        # (the key may be a submodule's own path: `from . import leaf` -- keep that module's docstring entry)
        self.meta.setdefault(f"{mod}.{bound}", {}).update({"form": ["imported", "mod", o["kind"]], "chain": chain, "origin": o, "name": bound})
        if rebind:
            self.meta[f"{mod}.{bound}"].update({"rebind": rebind, "fallback": [1]})
        exports[bound] = {"kind": o["kind"], "defmod": o["defmod"], "defname": o["defname"], "chain": chain}

    def gen_imports(self, mod, init, exports):
        rng = self.rng
        names = [m for m, _ in self.mods]
        lower = names[: names.index(mod)]
        L = []
        if not lower:
            return L
        top = self.pkg
        for _ in range(rng.randint(1, 5)):
            src = rng.choice(lower)
            if rng.random() < 0.2:
                # a module object: `from <parent> import <leaf> [as x]` or `import a.b.c as x`
                parent, leaf = src.rsplit(".", 1)
                o = {"kind": "module", "defmod": parent, "defname": leaf, "chain": []}
                if rng.random() < 0.3:
                    asname = f"im_{leaf.strip('_')}{len(L)}"
                    L.append(f"import {src} as {asname}")
                    self.meta[f"{mod}.{asname}"] = {"form": ["imported", "mod", "module"], "import_stmt": [src.split("."), [asname]], "origin": o, "name": asname}
                    exports[asname] = {**o, "chain": [], "via_import": True}
                    continue
                bound = rng.choice([leaf, f"fm_{leaf.strip('_')}"])
                if bound in exports:
                    continue
                if same_components(src, mod):
                    self.twin_module = True
                self.add_from_import(mod, init, exports, parent, leaf, o, bound, L)
                continue
            cands = [(n, o) for n, o in self.exports[src].items() if not o.get("via_import") and not o.get("special") and n != "__all__"]
            if not cands:
                continue
            name, o = rng.choice(cands)
            bound = rng.choice([name, name, f"{name}_as"])
            if bound in exports:
                continue
            self.add_from_import(mod, init, exports, src, name, o, bound, L)
        if rng.random() < 0.12 and (mod != top or self.self_import) and top not in exports:
            # plain `import a.b.c`: binds the top-level package
            L.append(f"import {rng.choice(lower)}")
            self.meta[f"{mod}.{top}"] = {"form": ["imported", "mod", "module"], "import_stmt": [[top], []], "name": top,
                                        "origin": {"kind": "module", "defmod": "", "defname": top, "chain": []}}
            exports[top] = {"kind": "module", "defmod": "", "defname": top, "chain": [], "via_import": True}
        if self.twin and mod == f"{self.pkg}.core":
            # F4 trigger: core re-exports from its underscore twin
            for name, o in list(self.exports[f"{self.pkg}._core"].items())[:3]:
                if name == "__all__" or o.get("via_import") or o.get("special") or f"tw_{name}" in exports:
                    continue
                self.add_from_import(mod, init, exports, f"{self.pkg}._core", name, o, f"tw_{name}", L, force_abs=rng.random() < 0.5)
        return L

    def write(self, root: Path):
        for rel, text in self.files.items():
            p = root / rel
            p.parent.mkdir(parents=True, exist_ok=True)
            p.write_text(text)


# ------------------------------------------------------------------------------------------------------------------
# loading and summarising

class Timeout(Exception):
    pass


def _alarm(signum, frame):
    raise Timeout()


def walker_extension():
    """A passive extension: from the module / class node hooks it walks the tree it is handed with the documented helpers
    (Extension.generic_visit / generic_inspect, recursing through visit_* / inspect_* methods) and only counts what it sees."""
    import griffe

    class Walker(griffe.Extension):
        def __init__(self):
            self.seen = 0

        def _walk(self, node):
            if isinstance(node, ast.AST):
                self.generic_visit(node)
            else:
                self.generic_inspect(node)

        def on_module_node(self, *, node, agent, **kwargs):
            self._walk(node)

        def on_class_node(self, *, node, agent, **kwargs):
            self._walk(node)

        def visit_classdef(self, node):
            self.seen += 1
            self.generic_visit(node)

        def visit_functiondef(self, node):
            self.seen += 1

        def inspect_class(self, node):
            self.seen += 1
            self.generic_inspect(node)

        def inspect_function(self, node):
            self.seen += 1

        def inspect_method(self, node):
            self.seen += 1

    return Walker()


def load_both(pkg, root, walking=False):
    """The package loaded statically and dynamically; walking=True: each load with a fresh passive walking extension."""
    import griffe
    signal.signal(signal.SIGALRM, _alarm)
    signal.alarm(60)
    try:
        ext = (lambda: {"extensions": griffe.load_extensions(walker_extension())}) if walking else dict
        st = griffe.load(pkg, search_paths=[str(root)], allow_inspection=False, **ext())
        dy = griffe.load(pkg, search_paths=[str(root)], force_inspection=True, **ext())
    finally:
        signal.alarm(0)
    return st, dy


def purge_modules(pkg):
    for k in [k for k in sys.modules if k == pkg or k.startswith(pkg + ".") or k == "ext_" + pkg]:
        del sys.modules[k]
    importlib.invalidate_caches()


def follow_static(collection, path):
    """A dotted path followed through the aliases of the loaded collection as far as it goes (Alias.final_target, also when an
    alias sits at a proper prefix of the path, also when the chain leaves the loaded packages: the last target is returned).
    Returns (path, resolved)."""
    for _ in range(40):
        try:
            o = collection[path]
        except Exception:  # noqa: BLE001
            parts = path.split(".")
            for k in range(len(parts) - 1, 0, -1):
                try:
                    q = collection[".".join(parts[:k])]
                except Exception:  # noqa: BLE001
                    continue
                if q.is_alias:
                    path = ".".join([q.target_path] + parts[k:])
                    break
                return path, False
            else:
                return path, False
            continue
        if not o.is_alias:
            return o.path, True
        path = o.target_path
    return path, False


def final_path(alias):
    path, ok = follow_static(alias.modules_collection, alias.target_path)
    return path if ok else f"<unresolved>{path}"


def base_path(cls, b):
    p = b if isinstance(b, str) else b.canonical_path
    return follow_static(cls.modules_collection, p)[0]


def summarize(obj):
    out = {}
    for name, m in obj.members.items():
        if m.is_alias:
            out[name] = {"t": "alias", "target": m.target_path, "final": final_path(m), "runtime": bool(m.runtime)}
            continue
        d = {"t": m.kind.value, "labels": sorted(m.labels), "doc": None if m.docstring is None else m.docstring.value}
        if m.kind.value == "function":
            # (the text of a computed default is the static agent's, its value's repr the dynamic one's: only literal defaults are compared as text)
            d["params"] = [[p.name, KINDS.get(p.kind.value) if p.kind else None,
                            None if p.default is None else (str(p.default) if re.fullmatch(r"-?\d+|\(\)|\{\}", str(p.default)) else "<expr>"), bool(p.required)]
                           for p in m.parameters]
        if m.kind.value == "class":
            d["bases"] = [base_path(m, b) for b in m.bases]
        if m.kind.value in ("module", "class"):
            d["members"] = summarize(m)
        if m.kind.value == "module":
            d["exports"] = None if m.exports is None else [str(x) for x in m.exports]
        out[name] = d
    return out


def summarize_root(mod):
    return {"t": "module", "labels": [], "doc": None if mod.docstring is None else mod.docstring.value, "members": summarize(mod),
            "exports": None if mod.exports is None else [str(x) for x in mod.exports]}


def is_dunder(n):
    return n.startswith("__") and n.endswith("__") and len(n) > 4


def same_components(a, b):
    return [c.lstrip("_") for c in a.split(".")] == [c.lstrip("_") for c in b.split(".")]


def lookup_summary(tree, rel):
    cur = tree
    for part in rel:
        cur = cur.get("members", {}).get(part)
        if cur is None:
            return None
    return cur


def norm_bases(bases):
    """Base paths as compared between the agents: builtins are written without their module, and `object` -- which every class has
    at runtime whether it was written or not (only the static agent can know that it was) -- is left out."""
    out = [x[9:] if x.startswith("builtins.") else x for x in bases]
    return [x for x in out if x != "object"]


# names that typing.Protocol's __init_subclass__ / abc.ABCMeta store in every class below Protocol (stdlib-provided, not written in the
# class body): name -> what the Inspector makes of them
PROTOCOL_PROVIDED = {"_abc_impl": ("attribute", None), "_is_protocol": ("attribute", None),
                     "__subclasshook__": ("alias", "typing._proto_hook"), "__init__": ("alias", "typing._no_init_or_replace_init")}


def live_object(path):
    """The runtime object at a dotted path of an imported package (module prefix from sys.modules, then own attributes), or None."""
    parts = path.split(".")
    for k in range(len(parts), 0, -1):
        m = sys.modules.get(".".join(parts[:k]))
        if m is not None:
            obj = m
            try:
                for part in parts[k:]:
                    obj = vars(obj)[part]
            except (KeyError, TypeError):
                return None
            return obj
    return None


def below_protocol(path):
    import typing
    cls = live_object(path)
    return inspect.isclass(cls) and typing.Protocol in cls.__mro__


def compare_trees(st, dy, path, top_st, diffs, in_class=False):
    """Append (path, what, static, dynamic, classifier_hint) for every difference outside the allowed ones."""
    sm, dm = st.get("members", {}), dy.get("members", {})
    for name in sorted(set(sm) | set(dm)):
        p = f"{path}.{name}"
        a, b = sm.get(name), dm.get(name)
        if a is None:
            # allowed: interpreter-provided dunder attributes
            if is_dunder(name) and b["t"] == "attribute":
                continue
            # allowed: what the typing / abc machinery stores in the classes below typing.Protocol
            if in_class and name in PROTOCOL_PROVIDED and below_protocol(path):
                kind, target = PROTOCOL_PROVIDED[name]
                if b["t"] == kind and (target is None or b.get("target") == target):
                    continue
            diffs.append((p, "only-dynamic", None, b, {}))
            continue
        if b is None:
            # allowed: instance attributes assigned in __init__
            if a["t"] == "attribute" and "instance-attribute" in a["labels"] and "class-attribute" not in a["labels"] and in_class:
                continue
            # allowed: a name imported only for type checkers (`if TYPE_CHECKING:`) is never bound at runtime
            if a["t"] == "alias" and a.get("runtime") is False:
                continue
            diffs.append((p, "only-static", a, None, {}))
            continue
        if a["t"] == "alias" and b["t"] == "alias":
            if a["final"] != b["final"]:
                diffs.append((p, "alias-final-target", a, b, {}))
            continue
        if a["t"] == "alias" or b["t"] == "alias":
            if a["t"] == "alias" and b["t"] == "attribute" and "property" not in b["labels"]:
                # allowed: origin of imported plain values (the static target must be a plain attribute)
                tgt = lookup_summary(top_st, a["final"].split(".")[1:]) if not a["final"].startswith("<") else None
                if tgt is not None and tgt["t"] == "attribute" and "property" not in tgt["labels"]:
                    continue
            diffs.append((p, "alias-vs-object", a, b, {}))
            continue
        if a["t"] != b["t"]:
            diffs.append((p, "kind", a["t"], b["t"], {}))
            continue
        sa = [l for l in a["labels"] if l in SHARED]
        sb = [l for l in b["labels"] if l in SHARED]
        if sa != sb:
            diffs.append((p, "shared-labels", sa, sb, {"in_class": in_class}))
        if a["t"] == "function" and a["params"] != b["params"]:
            diffs.append((p, "params", a["params"], b["params"], {"labels": sa}))
        if a["t"] == "class":
            if norm_bases(a["bases"]) != norm_bases(b["bases"]):
                diffs.append((p, "bases", a["bases"], b["bases"], {}))
        if a["t"] in ("module", "class", "function") or "property" in sa:
            if a["doc"] != b["doc"]:
                diffs.append((p, "docstring", a["doc"], b["doc"], {}))
        if a["t"] == "module" and a.get("exports") != b.get("exports"):
            diffs.append((p, "exports", a.get("exports"), b.get("exports"), {}))
        if a["t"] in ("module", "class"):
            compare_trees(a, b, p, top_st, diffs, in_class=a["t"] == "class")


def hops_of(chain):
    return [[[x["mod"].split("."), 1 if x["init"] else 0], x["imp"]] for x in chain]


def scope_frames(gen, mod, qual):
    """The scopes a `class` statement is written in, innermost first, as the model's frames: [is_class, name, [[name, binding]]];
    binding = ["local"] | ["chain", hops, defining module, defined name] | ["ext", target path]."""
    frames = []
    for k in range(len(qual) - 1, 0, -1):
        prefix = f"{mod}." + ".".join(qual[:k]) + "."
        table = []
        for path, m in gen.meta.items():
            if path.startswith(prefix) and "." not in path[len(prefix):] and isinstance(m.get("form"), list):
                if m["form"][0] == "imported" and m.get("chain"):
                    o = m["origin"]
                    table.append([path[len(prefix):], ["chain", hops_of(m["chain"]), o["defmod"].split("."), o["defname"]]])
                else:
                    table.append([path[len(prefix):], ["local"]])
        frames.append([1, qual[k - 1], table])
    table = []
    for name, o in gen.exports.get(mod, {}).items():
        if o.get("via_import"):
            table.append([name, ["ext", ((o["defmod"] + ".") if o["defmod"] else "").split(".")[:-1] + [o["defname"]]]])
        elif o["chain"]:
            table.append([name, ["chain", hops_of(o["chain"]), o["defmod"].split("."), o["defname"]]])
        else:
            table.append([name, ["local"]])
    for name, target in gen.ext.get(mod, {}).items():
        table.append([name, ["ext", target.split(".")]])
    frames.append([0, mod, table])
    return frames


def bases_query(gen, meta):
    return ["bases", scope_frames(gen, meta["mod"], meta["qual"]), [[sp["expr"], sp["val"]] for sp in meta["bases"]]]


def rewrites_py(specs):
    """Python mirror of the Coq predicate `rewrites` on the generated base shapes (used only when the model is unavailable)."""
    kinds = []
    for sp in specs:
        if sp["val"][0] == "typingalias":
            kinds.append("typing-alias")
        elif sp.get("typing") == "Generic" and sp.get("sub"):
            kinds.append("generic-t")
        elif sp.get("sub") and sp["val"][0] == "class" and sp["val"][2]:
            kinds.append("alias")
        elif sp.get("typing") == "Protocol":
            kinds.append("protocol-t" if sp.get("sub") else "protocol")
        else:
            kinds.append("class")
    for i, k in enumerate(kinds):
        if k == "typing-alias":
            return True
        if k == "generic-t" and ("protocol" in kinds or any(x in ("alias", "typing-alias", "protocol-t") for x in kinds[i + 1:])):
            return True
    return False


def check_bases_cpython(st, dy, path, diffs):
    """Every class: the Inspector's bases against CPython's __bases__ (exactly, `object` left out), and the static bases against them
    (modulo norm_bases).  Appended like compare_trees differences."""
    sm, dm = st.get("members", {}), dy.get("members", {})
    for name, a in sm.items():
        p = f"{path}.{name}"
        b = dm.get(name)
        if a["t"] == "class":
            cls = live_object(p)
            if inspect.isclass(cls):
                cpy = [f"{x.__module__}.{x.__qualname__}" for x in cls.__bases__ if x is not object]
                if b is not None and b["t"] == "class" and b["bases"] != cpy:
                    diffs.append((p, "bases-dynamic-vs-cpython", cpy, b["bases"], {}))
                if norm_bases(a["bases"]) != norm_bases(cpy):
                    diffs.append((p, "bases-static-vs-cpython", a["bases"], cpy, {}))
        if a["t"] in ("module", "class") and b is not None and b["t"] == a["t"]:
            check_bases_cpython(a, b, p, diffs)


def classify(diff, gen, ctx, dyn_tree=None):
    """Known-gap classifiers (Python mirrors of the Coq predicates / the model's verdict). Returns a finding id or None."""
    p, what, a, b, hint = diff
    meta = gen.meta.get(p, {}) if gen is not None else {}
    if what == "alias-vs-object" and isinstance(a, dict) and a["t"] == "alias" and b["t"] in ("function", "class"):
        cur_mod = meta["chain"][0]["mod"] if meta.get("chain") else None
        origin = meta.get("origin")
        if cur_mod and origin and cur_mod != origin["defmod"] and same_components(cur_mod, origin["defmod"]):
            return "C17-F4"
    if what in ("bases", "bases-static-vs-cpython") and meta.get("bases") and gen is not None:
        # F8: class creation rewrites the written bases (__mro_entries__); the faithful model must reproduce both lists
        if ctx is not None and ctx.driver is not None:
            out = ctx.model([bases_query(gen, meta)])[0]
            if out != ["bad-input"] and out[3] == 1 and out[0] == a and out[2]:
                runtime = out[1][0] if what == "bases" else [x for x in out[2][0] if x != "builtins.object"]
                if runtime == b:
                    return "C17-F8"
        elif rewrites_py(meta["bases"]):
            return "C17-F8"
    have_model = ctx is not None and ctx.driver is not None
    form = meta.get("form")
    if what == "only-static" and isinstance(a, dict) and a["t"] == "alias" and gen is not None:
        # an `import` statement that binds the module it is written in (`import pkg.sub` inside pkg/__init__.py, `import pkg.m as me`
        # inside pkg/m.py): the object is its own ancestor and _pick_member skips it
        stmt = meta if "import_stmt" in meta else ({"import_stmt": [[gen.pkg], []]} if p == f"{gen.pkg}.{gen.pkg}" and a["final"] == gen.pkg else None)
        if stmt is not None:
            if not have_model:
                return "C17-F6" if a["final"] == p.rsplit(".", 1)[0] else None
            out = ctx.model([import_query(gen, p, stmt)])[0]
            if out != ["bad-input"] and out[3] == 1 and out[2] == ["nothing"] and (norm_member(out[1]) == enc_member_impl(a) or form == "starred"):
                return "C17-F6"
    if meta.get("rebind") and what == "alias-vs-object" and isinstance(a, dict) and a["t"] == "alias" and b["t"] == "attribute" and gen is not None:
        # F12: the visitor keeps the first binding of an if/else (or try/except) although CPython executes the other branch
        if not have_model:
            return "C17-F12"
        out = ctx.model([["rebindc", meta["rebind"]]])[0]
        if out != ["bad-input"] and out[3] == 1 and out[0] == ["import"] and out[2] == ["assign"] and out[1] == [1 if a["runtime"] else 0]:
            return "C17-F12"
    if form == "typeguarded" and not meta.get("rebind") and what == "alias-vs-object" and isinstance(a, dict) and a.get("runtime") is False \
            and b["t"] == "attribute" and gen is not None:
        # F12 through a wildcard import: the module's own TYPE_CHECKING-only import of the name, and the runtime value brought by `import *`
        holder, nm = p.rsplit(".", 1)
        for star in gen.meta.get(holder, {}).get("stars") or []:
            e = gen.ns.get(star["src"], {}).get(nm)
            if nm in star["names"] and e and e.get("cat") == "f12":
                src_meta = gen.meta.get(e["source"], {})
                if src_meta.get("rebind") and (not have_model or ctx.model([["rebindc", src_meta["rebind"]]])[0][3] == 1):
                    return "C17-F12"
    if form == "starred" and meta.get("cat") == "f12" and what == "only-dynamic" and b["t"] == "attribute" and gen is not None:
        src_meta = gen.meta.get(meta["source"], {})
        if src_meta.get("rebind") and (not have_model or ctx.model([["rebindc", src_meta["rebind"]]])[0][3] == 1):
            return "C17-F12"
    if isinstance(form, list) and form[0] in ("assigned", "annotated") and gen is not None:
        # F9: a name bound by assignment to a callable / class / descriptor; F10: an annotation without value, outside the
        # "instance attribute" exception.  Both verdicts and both members must be the model's.
        if not have_model:
            return {"assigned": "C17-F9", "annotated": "C17-F10"}[form[0]] if what in ("kind", "alias-vs-object", "only-static") else None
        out = ctx.model([xform_query(gen, p, form)])[0]
        dyn = lookup_summary(dyn_tree, p.split(".")[1:]) if dyn_tree is not None else None
        if out != ["bad-input"] and norm_member(out[2]) == enc_member_impl(dyn):
            if form[0] == "assigned" and out[3] == 1 and what in ("kind", "alias-vs-object"):
                return "C17-F9"
            if form[0] == "annotated" and out[4] == 1 and what == "only-static":
                return "C17-F10"
    if form == "starred" and gen is not None:
        # the same, seen through a wildcard import of the defining module
        src_meta = gen.meta.get(meta.get("source", ""), {})
        src_form = src_meta.get("form")
        if meta.get("cat") == "static-only" and what == "only-static" and isinstance(src_form, list) and src_form[0] == "annotated":
            if not have_model or ctx.model([xform_query(gen, meta["source"], src_form)])[0][4] == 1:
                return "C17-F10"
        if meta.get("cat") == "assigned" and isinstance(src_form, list) and what in ("alias-final-target", "alias-vs-object"):
            if not have_model:
                return "C17-F9"
            out = ctx.model([xform_query(gen, meta["source"], src_form), child_query(gen, p)[0]])
            dyn = lookup_summary(dyn_tree, p.split(".")[1:]) if dyn_tree is not None else None
            if out[0] != ["bad-input"] and out[0][3] == 1 and isinstance(a, dict) and a.get("final") == meta["source"] \
                    and norm_member(out[1][1]) == enc_member_impl(dyn):
                return "C17-F9"
    return None


# ------------------------------------------------------------------------------------------------------------------
# model ties on one generated package

def enc_member_impl(m):
    """A Griffe member -> the model's member encoding (labels sorted)."""
    if m is None:
        return ["nothing"]
    if m["t"] == "alias":
        return ["alias", m["target"].split(".")]
    if m["t"] == "module":
        return ["nothing"]      # a submodule attached by the loader, not a member created by the agent
    # "writable" / "deletable" come from setter/deleter attachment (C02's subject), not from the definition form itself
    return ["obj", m["t"], sorted(l for l in m["labels"] if l not in ("writable", "deletable"))]


def norm_member(x):
    if x and x[0] == "obj":
        return ["obj", x[1], sorted(x[2])]
    return x


def params_from_summary(ps):
    out = []
    for name, kind, default, required in ps:
        if default is None:
            d = []
        elif kind in ("VP", "VK"):
            d = [1, default]
        else:
            d = [0, int(default)]
        out.append([name, [], kind, d, 1 if required else 0])
    return out


def oracle_signature(obj):
    out = []
    for p in inspect.signature(obj).parameters.values():
        k = INSPECT_KINDS[p.kind]
        d = [] if p.default is inspect.Parameter.empty else [p.default]
        req = 1 if (p.default is inspect.Parameter.empty and k not in ("VP", "VK")) else 0
        out.append([p.name, [], k, d, req])
    return out


def live_lookup(path, gen):
    """dotted member path -> (parent object, name, raw member, module object, chain of (name, obj) from the module down)."""
    mod = path.rsplit(".", 1)[0]
    while mod not in gen.files_mods:
        mod = mod.rsplit(".", 1)[0]
    module = sys.modules[mod]
    rest = path[len(mod) + 1:].split(".") if path != mod else []
    parent = module
    for part in rest[:-1]:
        parent = parent.__dict__[part]
    return parent, rest[-1], getattr(parent, rest[-1]), module, mod, rest


def object_node(gen, mod, rest):
    from _griffe.agents.nodes.runtime import ObjectNode
    parts = mod.split(".")
    node = None
    for part in parts[:-1]:
        node = ObjectNode(None, name=part, parent=node)
    obj = sys.modules[mod]
    node = ObjectNode(obj, parts[-1], parent=node)
    for part in rest:
        obj = getattr(obj, part)
        node = ObjectNode(obj, part, parent=node)
    return node


def pyobj_of(stored, depth=0):
    """A live namespace entry -> the model's pyobj (Model/C17_pyobj.v) by its exact type, or None when it is outside that universe."""
    if depth > 4 or hasattr(stored, "__wrapped__"):
        return None
    sub = lambda x: pyobj_of(x, depth + 1)
    wrap = lambda tag, inner: None if inner is None else [tag, inner]
    if isinstance(stored, staticmethod):
        return wrap("staticmethod", sub(stored.__func__))
    if isinstance(stored, classmethod):
        return wrap("classmethod", sub(stored.__func__))
    if isinstance(stored, functools.cached_property):
        return wrap("cached_property", sub(stored.func))
    if isinstance(stored, property):
        return ["property"]
    if isinstance(stored, types.FunctionType):
        return ["function", 1 if stored.__code__.co_flags & inspect.CO_COROUTINE else 0]
    if isinstance(stored, types.MethodType):
        return wrap("boundmethod", sub(stored.__func__))
    if isinstance(stored, type):
        return ["class"]
    if isinstance(stored, types.ModuleType):
        return ["module"]
    if isinstance(stored, types.BuiltinFunctionType):
        return ["builtin"]
    if isinstance(stored, (types.MethodDescriptorType, types.WrapperDescriptorType)):
        return ["method_descriptor"]
    if isinstance(stored, types.GetSetDescriptorType):
        return ["getset_descriptor"]
    if isinstance(stored, functools.partial):
        return wrap("partial", sub(stored.func))
    if isinstance(stored, (types.ClassMethodDescriptorType, types.MemberDescriptorType, types.MethodWrapperType)):
        return None
    if callable(stored):
        return ["callable_instance"] if isinstance(getattr(type(stored), "__call__", None), types.FunctionType) else None
    if hasattr(type(stored), "__get__") or hasattr(type(stored), "__set__"):
        return None
    return ["value"]


def import_query(gen, path, meta):
    """The model query for an `import a.b.c [as x]` statement found at member `path` (a module or class body)."""
    name, asn = meta["import_stmt"]
    holder = path.rsplit(".", 1)[0]
    mod = holder
    while mod not in gen.files_mods:
        mod = mod.rsplit(".", 1)[0]
    return ["importstmt", "mod" if holder == mod else "cls", mod.split("."), holder.split("."), name, asn, list(sys.builtin_module_names), 0]


def xform_query(gen, path, form):
    """The model query for a name bound by assignment / an annotated name at `path` (env from the live object when there is one)."""
    holder, name = path.rsplit(".", 1)
    try:
        q, _ = child_query(gen, path)
        env, hf = q[2], q[5]
    except (KeyError, AttributeError):
        env, hf = [1, [], [], [], []], 0
    return ["xform", form, env, holder.split("."), name, hf]


def child_query(gen, path):
    """The model query for what Inspector.generic_inspect makes of the live member at `path` (and its ObjectNode)."""
    parent, name, raw, module, mod, rest = live_lookup(path, gen)
    prims, unwrapped = prims_of(parent, name, raw)
    node = object_node(gen, mod, rest)
    child_mod = module_path_of(unwrapped, module)
    parent_mod = module_path_of(parent, module)
    fallback = node.path[len(node.module.path) + 1:]
    qual = getattr(unwrapped, "__qualname__", fallback)
    env = [1, opt_path(child_mod), opt_path(parent_mod), qual.split(".") if isinstance(qual, str) else [], list(sys.builtin_module_names)]
    return ["child", prims, env, path.rsplit(".", 1)[0].split("."), name, 1 if hasattr(unwrapped, "__file__") else 0], node


def check_package(ctx, gen, root, st, dy, a, b):
    """(C)/(O) ties for every generated member of one loaded package."""
    q = []          # (tag, query, callback)

    def ask(query, cb):
        q.append((query, cb))

    builtins_list = list(sys.builtin_module_names)
    for path, meta in gen.meta.items():
        form = meta.get("form")
        rel = path.split(".")[1:]
        sa, da = lookup_summary(a, rel), lookup_summary(b, rel)
        # docstrings
        if meta.get("doc") is not None and form != "instance":
            lines = meta["doc"]
            raw = doc_text(lines)

            def cb_doc(out, path=path, raw=raw, sa=sa, da=da):
                ctx.count("doc_ties")
                if out[0] != abstract_text(inspect.cleandoc(raw)):
                    ctx.tie_failure("oracle", "cleandoc(model) vs inspect.cleandoc", {"model": out[0], "cpython": inspect.cleandoc(raw)}, {"raw": raw})
                if sa is not None and sa.get("doc") is not None and out[1] != abstract_text(sa["doc"]):
                    ctx.tie_failure("correspondence", "static_doc(model) vs static Docstring.value", {"model": out[1], "impl": sa["doc"]}, {"raw": raw, "path": path})
                if da is not None and da.get("doc") is not None and out[2] != abstract_text(da["doc"]):
                    ctx.tie_failure("correspondence", "dynamic_doc(model) vs inspected Docstring.value", {"model": out[2], "impl": da["doc"]}, {"raw": raw, "path": path})
                ctx.observe("doc_shape", f"first_blank={out[3]} differ={int(out[1] != out[2])}")
            ask(["doc", doc_abstract(lines)], cb_doc)
        if meta.get("rebind"):
            stmts = meta["rebind"]

            def cb_rebind(out, path=path, stmts=stmts, sa=sa, da=da, meta=meta):
                ctx.count("rebind_ties")
                ctx.observe("rebind", "/".join(f"{k}@{p if isinstance(p, str) else p[0] + '-' + p[1]}" for k, p in stmts) + f" F12={out[3]}")
                kind_of = lambda m: None if m is None else {"alias": "import", "function": "def", "class": "def", "attribute": "assign"}.get(m["t"])
                # (a name that is also a submodule is overwritten by the loader: the agent's own member is not observable)
                if path not in gen.files_mods and [kind_of(sa)] != out[0]:
                    ctx.tie_failure("correspondence", "visit_all_c(model) vs the member the visitor keeps", {"model": out[0], "impl": kind_of(sa)}, {"path": path, "stmts": stmts})
                if path not in gen.files_mods and sa is not None and sa["t"] == "alias" and out[1] != [1 if sa["runtime"] else 0]:
                    ctx.tie_failure("correspondence", "runtime flag of the kept member (model) vs Alias.runtime", {"model": out[1], "impl": sa["runtime"]}, {"path": path, "stmts": stmts})
                live = live_object(path)
                taken = [i for i, t in enumerate(out[4]) if t]
                executed = bool(taken) and taken[-1] in meta.get("fallback", [])
                if (live == int(FALLBACK) and type(live) is int) != executed:
                    ctx.tie_failure("oracle", "place_taken(model) vs the value bound at runtime", {"model": out[4], "cpython": repr(live)[:60]}, {"path": path, "stmts": stmts})
                origin_value = isinstance(meta.get("form"), list) and meta["form"][0] == "imported" and meta["form"][2] == "value"
                # (F4: a function / class of the underscore twin is inlined by the inspector; reported by the direct comparison)
                f4 = bool(meta.get("origin")) and meta.get("chain") and meta["chain"][0]["mod"] != meta["origin"]["defmod"] \
                    and same_components(meta["chain"][0]["mod"], meta["origin"]["defmod"])
                if da is not None and da["t"] != "module" and not origin_value and not f4 and [kind_of(da)] != out[2]:
                    ctx.tie_failure("correspondence", "run_all(model) vs the member the inspector creates", {"model": out[2], "impl": kind_of(da)}, {"path": path, "stmts": stmts})
            ask(["rebindc", stmts], cb_rebind)
        if form in ("selfimport", "builtinimport"):
            def cb_imps(out, path=path, sa=sa, da=da, form=form):
                ctx.count("import_stmt_ties")
                ctx.observe("import_stmt", f"{form} binds_ancestor={out[3]}")
                if out[0] != path.rsplit(".", 1)[1] or norm_member(out[1]) != enc_member_impl(sa):
                    ctx.tie_failure("correspondence", "visit_import(model) vs griffe static member", {"model": out[:2], "impl": enc_member_impl(sa)}, {"path": path})
                if norm_member(out[2]) != enc_member_impl(da):
                    ctx.tie_failure("correspondence", "inspect_import(model) vs griffe inspected member", {"model": out[2], "impl": enc_member_impl(da)}, {"path": path})
            ask(import_query(gen, path, meta), cb_imps)
            continue
        if isinstance(form, list) and form[0] in ("assigned", "annotated"):
            ctx.observe("defform", "/".join(str(x) if not isinstance(x, list) else x[0] for x in form))
            holder = live_object(path.rsplit(".", 1)[0])
            nm = path.rsplit(".", 1)[1]
            bound_live = holder is not None and nm in vars(holder)

            def cb_x(out, path=path, form=form, sa=sa, da=da, holder=holder, nm=nm, bound_live=bound_live):
                ctx.count("xform_ties")
                ctx.observe("xform", f"{form[0]}/{form[1]} bound={out[0]} F9={out[3]} F10={out[4]}")
                if out[0] != (1 if bound_live else 0):
                    ctx.tie_failure("oracle", "x_bound(model) vs the name being bound at runtime", {"model": out[0], "cpython": bound_live}, {"path": path, "form": form})
                if bound_live:
                    raw = getattr(holder, nm)
                    prims, _ = prims_of(holder, nm, raw)
                    if sorted(out[5]) != prims:
                        ctx.tie_failure("oracle", "observe(model) vs introspection of the assigned value", {"model": sorted(out[5]), "cpython": prims}, {"path": path, "form": form})
                    if form[0] == "assigned" and pyobj_of(vars(holder)[nm]) != form[2]:
                        ctx.tie_failure("oracle", "generated value kind vs the live object", {"generator": form[2], "cpython": pyobj_of(vars(holder)[nm])}, {"path": path})
                if norm_member(out[1]) != enc_member_impl(sa):
                    ctx.tie_failure("correspondence", "visit_attribute(model) vs griffe static member", {"model": out[1], "impl": enc_member_impl(sa)}, {"path": path, "form": form})
                if norm_member(out[2]) != enc_member_impl(da):
                    ctx.tie_failure("correspondence", "inspector_xmember(model) vs griffe inspected member", {"model": out[2], "impl": enc_member_impl(da)}, {"path": path, "form": form})
            ask(xform_query(gen, path, form), cb_x)
            continue
        if not isinstance(form, list):
            continue
        ctx.observe("defform", "/".join(str(x) for x in form))
        try:
            parent, name, raw, module, mod, rest = live_lookup(path, gen)
        except (KeyError, AttributeError):
            ctx.tie_failure("harness", "live_lookup", f"{path} not found at runtime", {"path": path})
            continue
        prims, _ = prims_of(parent, name, raw)
        po = pyobj_of(vars(parent).get(name))
        if po is not None:
            def cb_obs(out, path=path, prims=prims, po=po):
                ctx.count("obs_ties")
                if sorted(out) != prims:
                    ctx.tie_failure("oracle", "observe(model) vs inspect.* / callable / isinstance on the live member", {"model": sorted(out), "cpython": prims, "pyobj": po}, {"path": path})
            ask(["obs", 1 if inspect.isclass(parent) else 0, po], cb_obs)

        def cb_form(out, path=path, form=form, prims=prims, sa=sa, da=da, meta=meta):
            ctx.count("form_ties")
            if sorted(out[0]) != prims and not meta.get("wrapped"):
                ctx.tie_failure("oracle", "runtime_features(model) vs introspection of the generated code", {"model": sorted(out[0]), "cpython": prims}, {"path": path, "form": form})
            if form[0] != "imported":
                if sa is not None and norm_member(out[1]) != enc_member_impl(sa):
                    ctx.tie_failure("correspondence", "visitor_member(model) vs griffe static member", {"model": out[1], "impl": enc_member_impl(sa)}, {"path": path, "form": form})
                if da is not None and norm_member(out[2]) != enc_member_impl(da):
                    ctx.tie_failure("correspondence", "inspect_member(model) vs griffe inspected member", {"model": out[2], "impl": enc_member_impl(da)}, {"path": path, "form": form})
        ask(["form", form], cb_form)

        # live ObjectNode: kind and alias_target_path
        node = object_node(gen, mod, rest)

        def cb_kind(out, path=path, node=node, prims=prims):
            if out[0] != node.kind.value:
                ctx.tie_failure("correspondence", "inspector_okind(model) vs ObjectNode.kind", {"model": out[0], "impl": node.kind.value, "prims": prims}, {"path": path})
            ctx.observe("okind", out[0])
        ask(["kind", prims], cb_kind)

        # _pick_member: the ancestors' objects are the module and the enclosing classes; submodules also have placeholder parents
        ancestors = [module]
        for part in rest[:-1]:
            ancestors.append(ancestors[-1].__dict__[part])
        placeholders = len(mod.split(".")) - 1
        pick_q = ["pick", name, 1 if raw is type else 0, 1 if raw is object else 0, 1 if any(raw is x for x in ancestors) else 0,
                  1 if raw is None else 0, placeholders, 1 if name in vars(parent) else 0]
        picked = {}

        def cb_pick(out, path=path, node=node, raw=raw, name=name, picked=picked, placeholders=placeholders):
            ctx.count("pick_ties")
            impl_pick = 1 if node.parent._pick_member(name, raw) else 0
            ctx.observe("pick_member", f"picked={out[0]} none={int(raw is None)} placeholders={min(placeholders, 1)}")
            picked["v"] = out[0]
            if out[0] != impl_pick:
                ctx.tie_failure("correspondence", "pick_member(model) vs ObjectNode._pick_member", {"model": out, "impl": impl_pick}, {"path": path})
        ask(pick_q, cb_pick)

        child_q, _ = child_query(gen, path)

        def cb_child(out, path=path, node=node, da=da, form=form, picked=picked):
            ctx.count("child_ties")
            if picked.get("v") == 0:
                out = [out[0], ["nothing"]]         # never reaches generic_inspect
            impl_t = node.alias_target_path
            got = [] if impl_t is None else [impl_t.split(".")]
            if out[0] != got:
                ctx.tie_failure("correspondence", "alias_target_path(model) vs ObjectNode.alias_target_path", {"model": out[0], "impl": impl_t}, {"path": path})
            if norm_member(out[1]) != enc_member_impl(da):
                ctx.tie_failure("correspondence", "inspect_child(model) vs griffe inspected member", {"model": out[1], "impl": enc_member_impl(da)}, {"path": path, "form": form, "pkg": gen.pkg, "files": gen.files})
            ctx.observe("inspect_child", out[1][0] if out[1][0] != "obj" else out[1][1])
        ask(child_q, cb_child)

        if form[0] == "class" and "bases" in meta:
            specs = meta["bases"]

            def cb_bases(out, path=path, sa=sa, da=da, raw=raw, specs=specs):
                ctx.count("bases_ties")
                ctx.observe("bases_shape", ",".join(("typing." + sp["typing"] if "typing" in sp else sp.get("builtin") or "class") + ("[]" if sp.get("sub") else "")
                                                    for sp in specs) or "-")
                ctx.observe("bases_rewritten", out[3])
                live = [f"{x.__module__}.{x.__qualname__}" for x in raw.__bases__]
                if out[2] != [live]:
                    ctx.tie_failure("oracle", "cpython_bases(model) vs cls.__bases__", {"model": out[2], "cpython": live}, {"path": path, "bases": [sp["src"] for sp in specs]})
                if sa is not None and sa["t"] == "class" and out[0] != sa["bases"]:
                    ctx.tie_failure("correspondence", "static_bases(model) vs the visited Class.bases (resolved)", {"model": out[0], "impl": sa["bases"]}, {"path": path, "bases": [sp["src"] for sp in specs]})
                if da is not None and da["t"] == "class" and out[1] != [da["bases"]]:
                    ctx.tie_failure("correspondence", "inspector_bases(model) vs the inspected Class.bases", {"model": out[1], "impl": da["bases"]}, {"path": path, "bases": [sp["src"] for sp in specs]})
            ask(bases_query(gen, meta), cb_bases)
            # (O) what each written base head denotes at runtime
            for sp in specs:
                head = sp["expr"]
                while head[0] == "sub":
                    head = head[1]
                obj = None
                if head[0] == "name":
                    for holder in [parent] + ([module] if parent is not module else []):
                        if head[1] in vars(holder):
                            obj = vars(holder)[head[1]]
                            break
                    else:
                        import builtins
                        obj = getattr(builtins, head[1], None)
                else:
                    obj = vars(module).get(head[1])
                    for seg in head[2]:
                        obj = getattr(obj, seg, None)
                import typing
                if inspect.isclass(obj):
                    got = ["class", obj.__module__.split(".") + obj.__qualname__.split("."), 1 if typing.Generic in obj.__mro__ else 0]
                elif isinstance(obj, typing._BaseGenericAlias) and getattr(obj, "_name", None):
                    got = ["typingalias", ["typing", obj._name], obj.__origin__.__module__.split(".") + [obj.__origin__.__qualname__]]
                else:
                    got = ["other", repr(obj)]
                if got != sp["val"]:
                    ctx.tie_failure("oracle", "generated base head denotation vs the live object", {"generator": sp["val"], "cpython": got}, {"path": path, "base": sp["src"]})

        if form[0] == "imported" and meta.get("chain"):
            chain = meta["chain"]
            h = chain[0]
            minfo = [h["mod"].split("."), 1 if h["init"] else 0]

            def cb_rel(out, path=path, h=h, sa=sa, meta=meta, form=form):
                ctx.count("rel_ties")
                # (a name that is also a submodule is overwritten by the loader: the agent's own member is not observable)
                # (a module brought by two wildcard imports keeps the alias of the first one: expand_wildcards does not replace an
                #  alias to a module by another alias to the same module; the final targets are compared by the chain tie)
                twice = meta.get("star") and form[2] == "module" and sa is not None and sa["t"] == "alias"
                if path not in gen.files_mods and not twice and norm_member(out[1]) != enc_member_impl(sa):
                    ctx.tie_failure("correspondence", "visit_importfrom(model) vs griffe static member", {"model": out[1], "impl": enc_member_impl(sa)}, {"path": path, "import": h["imp"]})
                level, modparts, nm, _ = h["imp"]
                package = h["mod"] if h["init"] else h["mod"].rsplit(".", 1)[0]
                cpy = importlib.util.resolve_name("." * level + ".".join(modparts), package) if level else ".".join(modparts)
                if out[2] != [(cpy + "." + nm).split(".")]:
                    ctx.tie_failure("oracle", "cpy_from_module(model) vs importlib.util.resolve_name", {"model": out[2], "cpython": cpy}, {"import": h["imp"], "module": h["mod"]})
                ctx.observe("import_level", level)
            ask(["rel", h["cur"].split("."), minfo, h["imp"]], cb_rel)
            o = meta["origin"]
            hops = [[[x["mod"].split("."), 1 if x["init"] else 0], x["imp"]] for x in chain]

            def cb_chain(out, path=path, sa=sa, o=o, chain=chain):
                ctx.count("chain_ties")
                ctx.observe("chain_len", len(chain))
                if out[1] != 1:
                    ctx.tie_failure("oracle", "cpy_chain_ok(model) false on a chain CPython executed", out, {"path": path})
                impl = sa["final"].split(".") if sa is not None and sa["t"] == "alias" and not sa["final"].startswith("<") else None
                if sa is not None and sa["t"] == "alias" and out[0] != ([impl] if impl else []):
                    ctx.tie_failure("correspondence", "static_final(model) vs Alias.final_target.path", {"model": out[0], "impl": sa["final"]}, {"path": path})
            ask(["chain", hops, o["defmod"].split("."), o["defname"]], cb_chain)
        if form[0] == "imported" and "import_stmt" in meta:
            nm, asn = meta["import_stmt"]

            def cb_imp(out, path=path, sa=sa):
                if [out[0], norm_member(out[1])] != [path.rsplit(".", 1)[1], enc_member_impl(sa)]:
                    ctx.tie_failure("correspondence", "visit_import(model) vs griffe static member", {"model": out, "impl": enc_member_impl(sa)}, {"path": path})
            # the statement imports some lower module; the alias only depends on the first component / the as-name
            ask(["import", nm if asn else [gen.pkg, "x"], asn], cb_imp)

        if "sig" in meta:
            fn_src = f"def f({meta['sig']}): ...\n"
            args = abstract_arguments(ast.parse(fn_src).body[0].args)

            def cb_params(out, path=path, sa=sa, da=da, raw=raw, meta=meta, parent=parent, name=name):
                ctx.count("param_ties")
                ctx.observe("n_params", len(out[2]))
                if sa is not None and sa["t"] == "function" and out[0] != ["ok", params_from_summary(sa["params"])]:
                    ctx.tie_failure("correspondence", "visitor_parameters(model) vs static Function.parameters", {"model": out[0], "impl": sa["params"]}, {"path": path, "sig": meta["sig"]})
                if da is not None and da["t"] == "function" and out[1] != params_from_summary(da["params"]):
                    ctx.tie_failure("correspondence", "inspector_parameters(model) vs inspected Function.parameters", {"model": out[1], "impl": da["params"]}, {"path": path, "sig": meta["sig"]})
                fn = parent.__dict__[name]
                fn = fn.__func__ if isinstance(fn, (staticmethod, classmethod)) else fn
                if out[2] != oracle_signature(fn):
                    ctx.tie_failure("oracle", "inspect_signature(model) vs inspect.signature", {"model": out[2], "cpython": oracle_signature(fn)}, {"sig": meta["sig"]})
            ask(["params", args], cb_params)

    # ObjectNode.children read several times (what a walking extension does before the Inspector)
    from _griffe.agents.nodes.runtime import ObjectNode
    for path, meta in gen.meta.items():
        f = meta.get("form")
        if f == "module" or (isinstance(f, list) and f[0] == "class"):
            obj = live_object(path)
            if obj is None or (f != "module" and not inspect.isclass(obj)):
                continue
            node = ObjectNode(obj, path.rsplit(".", 1)[-1])
            members = [n for n, m in inspect.getmembers(obj) if node._pick_member(n, m)]
            k = ctx.rng.randint(0, 2)
            got = None
            for _ in range(k + 1):
                got = [c.name for c in node.children]

            def cb_children(out, path=path, k=k, got=got, members=members):
                ctx.count("children_ties")
                ctx.observe("children_reads_before", k)
                if out != got:
                    ctx.tie_failure("correspondence", "seen_after(children_impl)(model) vs reading ObjectNode.children again", {"model": out[:8], "impl": got[:8], "earlier_reads": k}, {"path": path})
                if got != members:
                    ctx.property_failure({"files": gen.files, "pkg": gen.pkg, "member": path}, {"what": "children-depend-on-earlier-reads", "earlier_reads": k, "members": members[:12], "children": got[:12]})
            ask(["children", k, members], cb_children)

    # wildcard imports: which names they bring
    for path, meta in gen.meta.items():
        for star in (meta.get("stars") or []) if meta.get("form") == "module" else []:
            src = star["src"]
            try:
                st_src = st.modules_collection[src]
                live_src = sys.modules[src]
            except KeyError:
                ctx.tie_failure("harness", "wildcard source not loaded", src)
                continue
            members = [[m.name, 1 if m.runtime else 0, 1 if m.is_alias else 0, 1 if (not m.is_alias and m.is_module) else 0,
                        1 if m.is_imported else 0] for m in st_src.members.values()]
            impl_names = [m.name for m in st_src.members.values() if m.is_wildcard_exposed]
            all_ = getattr(live_src, "__all__", None)
            nsx = {}
            exec(compile(f"from {src} import *", "<star>", "exec", dont_inherit=True), nsx)
            cpy_names = sorted(k for k in nsx if k != "__builtins__")

            def cb_star(out, src=src, impl_names=impl_names, cpy_names=cpy_names, star=star, path=path):
                ctx.count("star_ties")
                ctx.observe("star", f"all={int(getattr(sys.modules[src], '__all__', None) is not None)} names={min(len(cpy_names), 9)} static_only={len(set(impl_names) - set(cpy_names))}")
                if out[0] != impl_names:
                    ctx.tie_failure("correspondence", "griffe_star(model) vs is_wildcard_exposed on the source's members", {"model": out[0], "impl": impl_names}, {"module": path, "source": src})
                if not out[1] or sorted(out[1][0]) != cpy_names:
                    ctx.tie_failure("oracle", "cpython_star(model) vs executing the import statement", {"model": out[1], "cpython": cpy_names}, {"module": path, "source": src})
                if sorted(star["names"]) != cpy_names:
                    ctx.tie_failure("oracle", "generated wildcard names vs executing the import statement", {"generator": sorted(star["names"]), "cpython": cpy_names}, {"module": path, "source": src})
            ask(["star", [] if all_ is None else [list(all_)], members, list(vars(live_src))], cb_star)

    outs = ctx.model([x for x, _ in q])
    for (query, cb), out in zip(q, outs):
        if out == ["bad-input"]:
            ctx.tie_failure("harness", "model rejected query", query[:2])
            continue
        cb(out)


def run_packages(ctx, n, label):
    root = ctx.scratch / "pkgs"
    root.mkdir(parents=True, exist_ok=True)

    def model_doc(lines):
        return ctx.model([["doc", lines]])[0]

    for i in range(n):
        pkg = f"c17_{ctx.seed}_{label}_{i}"
        gen = Gen(ctx.rng, pkg)
        gen.write(root)
        has_chain = any(len(m.get("chain", [])) > 1 for m in gen.meta.values())
        ctx.case({"files": gen.files}, has_chain)
        ctx.observe("twin", f"twin={int(gen.twin)} twin_module={int(gen.twin_module)}")
        ctx.observe("shadow_modules", len([m for m in gen.meta.values() if m.get("external")]) // 2)
        ctx.observe("unresolvable_annotations", min(gen.n_annotated, 5))
        for m in gen.meta.values():
            if m.get("nsfolder"):
                ctx.observe("init_less_folder", f"{m['nsfolder']['variant']} / {m['nsfolder']['stmt'].split(' import ')[0].split()[-1][:1]} {'as' if ' as ' in m['nsfolder']['stmt'] else 'plain'}")
        try:
            try:
                st, dy = load_both(pkg, root)
            except Exception as e:  # noqa: BLE001
                # is the package importable at all? (O: CPython refuses => generator defect, not a property matter)
                sys.path.insert(0, str(root))
                try:
                    purge_modules(pkg)
                    for m, _ in gen.mods:
                        importlib.import_module(m)
                    importable = True
                except Exception:  # noqa: BLE001
                    importable = False
                finally:
                    sys.path.remove(str(root))
                if importable:
                    ctx.observe("difference", "load-raised:UNEXPLAINED")
                    ctx.property_failure({"files": gen.files, "pkg": pkg}, {"load raised": f"{type(e).__name__}: {e}"})
                else:
                    ctx.count("generated_package_not_importable")
                continue
            a, b = summarize_root(st), summarize_root(dy)
            diffs = []
            compare_trees(a, b, pkg, a, diffs)
            check_bases_cpython(a, b, pkg, diffs)
            ctx.count("packages")
            ctx.count("members_compared", sum(1 for m in gen.meta.values() if isinstance(m.get("form"), list)))
            for d in diffs:
                fid = classify(d, gen, ctx, b)
                ctx.observe("difference", f"{d[1]}:{fid or 'UNEXPLAINED'}")
                ctx.property_failure({"files": gen.files, "pkg": pkg, "member": d[0]}, {"what": d[1], "static": d[2], "dynamic": d[3]}, finding=fid)
            if i % 3 == 0:
                # agreement must not depend on a passive extension being present: same trees with a walking extension on both agents
                try:
                    st2, dy2 = load_both(pkg, root, walking=True)
                    for side, plain, walked in (("static", a, summarize_root(st2)), ("dynamic", b, summarize_root(dy2))):
                        ctx.count("walking_extension_loads")
                        if plain != walked:
                            wd = []
                            compare_trees(plain, walked, pkg, plain, wd)
                            first = wd[0] if wd else (pkg, "tree", None, None, {})
                            ctx.property_failure({"files": gen.files, "pkg": pkg, "member": first[0], "extension": "passive walker (generic_visit / generic_inspect from on_module_node, on_class_node)"},
                                                 {"what": f"{side}-tree-changes-with-a-passive-extension:{first[1]}", "without": first[2], "with": first[3]})
                except Exception as e:  # noqa: BLE001
                    ctx.property_failure({"files": gen.files, "pkg": pkg, "extension": "passive walker"}, {"load with a passive extension raised": f"{type(e).__name__}: {e}"})
            if ctx.driver is not None:
                check_package(ctx, gen, root, st, dy, a, b)
        finally:
            purge_modules(pkg)


# ------------------------------------------------------------------------------------------------------------------
# zoo of live objects: every rung of the ladder, through ObjectNode.kind and Inspector.inspect

def build_zoo():
    import collections
    import os

    class Callable_:
        def __call__(self):
            return 0

    async def coro():
        return 0

    def plain(a, b=1):
        return a

    class Z:
        K = 1
        inst = Callable_()
        part = functools.partial(plain, 1)
        lam = lambda self: 0  # noqa: E731
        blt = len
        joined = str.join
        real = int.real

        def m(self):
            return 0

        async def am(self):
            return 0

        @staticmethod
        def s():
            return 0

        @staticmethod
        async def as_():
            return 0

        @classmethod
        def c(cls):
            return 0

        @classmethod
        async def ac(cls):
            return 0

        @property
        def p(self):
            return 0

        @functools.cached_property
        def cp(self):
            return 0

        @functools.wraps(plain)
        def wrapped(self, *a, **k):
            return 0

        class N:
            pass

    mod = types.ModuleType("c17zoo")
    mod.__dict__.update({"plain": plain, "coro": coro, "Z": Z, "inst": Callable_(), "part": functools.partial(plain, 1), "lam": lambda: 0,
                         "blt": len, "joined": str.join, "real": int.real, "value": 3, "none": None, "txt": "s", "os": os, "prop": property(plain),
                         "cp": functools.cached_property(plain), "sm": staticmethod(plain), "cm": classmethod(plain), "od": collections.OrderedDict,
                         "fromkeys": dict.fromkeys, "append": [].append, "typ": type, "obj": object})
    items = [(mod, n) for n in mod.__dict__ if not n.startswith("__")]
    items += [(Z, n) for n in vars(Z) if not n.startswith("__")]
    items += [(dict, "fromkeys"), (dict, "get"), (str, "join"), (int, "real"), (int, "numerator"), (collections.OrderedDict, "move_to_end"),
              (types.FunctionType, "__code__"), (object, "__init__"), (object, "__doc__"), (type, "__dict__"), (float, "fromhex")]
    return mod, items


def check_zoo(ctx):
    from _griffe.agents.inspector import Inspector
    from _griffe.agents.nodes.runtime import ObjectNode
    from _griffe.extensions.base import load_extensions
    from _griffe.models import Class, Module
    mod, items = build_zoo()
    queries, impl = [], []
    obs_q, obs_want = [], []
    for parent, name in items:
        raw = getattr(parent, name)
        prims, _ = prims_of(parent, name, raw)
        pnode = ObjectNode(parent, getattr(parent, "__name__", "p"))
        node = ObjectNode(raw, name, parent=pnode)
        kind = node.kind.value
        ins = Inspector("c17zoo", None, load_extensions())
        top = Module("c17zoo")
        ins.current = top
        if inspect.isclass(parent):
            cls = Class("P")
            top.set_member("P", cls)
            ins.current = cls
        holder = ins.current
        try:
            ins.inspect(node)
            m = holder.members.get(name)
            got = ["nothing"] if m is None else ["obj", m.kind.value, sorted(m.labels)]
        except Exception as e:  # noqa: BLE001
            got = ["raised", type(e).__name__]
        queries.append(["kind", prims])
        impl.append((f"{getattr(parent, '__name__', parent)}.{name}", prims, kind, got))
        po = pyobj_of(vars(parent)[name]) if name in vars(parent) and parent is not type else None     # (type's own metatype is type)
        if po is not None:
            obs_q.append(["obs", 1 if inspect.isclass(parent) else 0, po])
            obs_want.append((f"{getattr(parent, '__name__', parent)}.{name}", prims, po))
    for (label, prims, po), out in zip(obs_want, ctx.model(obs_q)):
        ctx.count("zoo_obs_cases")
        ctx.observe("zoo_pyobj", po[0])
        if sorted(out) != prims:
            ctx.tie_failure("oracle", "observe(model) vs inspect.* / callable / isinstance (zoo)", {"model": sorted(out), "cpython": prims, "pyobj": po}, {"object": label})
    outs = ctx.model(queries)
    for (label, prims, kind, got), out in zip(impl, outs):
        ctx.count("zoo_cases")
        ctx.observe("zoo_okind", kind)
        ctx.case({"zoo": label, "prims": prims}, True)
        if out[0] != kind:
            ctx.tie_failure("correspondence", "inspector_okind(model) vs ObjectNode.kind (zoo)", {"model": out[0], "impl": kind, "prims": prims}, {"object": label})
        # modules and classes recurse into generic_inspect; compare only the created object's kind for them
        want = norm_member(out[1])
        if kind == "module":
            continue        # inspect_module() starts a new Module instead of adding a member
        if kind == "class":
            if got[:2] != want[:2]:
                ctx.tie_failure("correspondence", "inspect_member(model) vs Inspector.inspect (zoo)", {"model": want, "impl": got}, {"object": label})
        elif got != want:
            ctx.tie_failure("correspondence", "inspect_member(model) vs Inspector.inspect (zoo)", {"model": want, "impl": got}, {"object": label})


def check_stdlib_aliases(ctx):
    """alias_target_path on children of real stdlib modules: cyclic relationships (os/posix), builtin lstrip (_io -> io), C functions."""
    from _griffe.agents.nodes.runtime import ObjectNode
    builtins_list = list(sys.builtin_module_names)
    queries, impl = [], []
    for modname in ["os", "io", "collections", "json", "posixpath", "functools", "_io", "itertools", "importlib", "json.decoder", "collections.abc"]:
        module = importlib.import_module(modname)
        parts = modname.split(".")
        pnode = None
        for part in parts[:-1]:
            pnode = ObjectNode(None, part, parent=pnode)
        node = ObjectNode(module, parts[-1], parent=pnode)
        for child in node.children:
            raw = getattr(module, child.name)
            prims, unwrapped = prims_of(module, child.name, raw)
            child_mod = module_path_of(unwrapped, module)
            parent_mod = module_path_of(module, module)
            if not isinstance(child_mod, (str, type(None))):
                continue
            fallback = child.path[len(node.path) + 1:]
            qual = getattr(unwrapped, "__qualname__", fallback)
            if not isinstance(qual, str):
                continue
            env = [1, opt_path(child_mod), opt_path(parent_mod), qual.split("."), builtins_list]
            queries.append(["child", prims, env, parts, child.name, 1 if hasattr(unwrapped, "__file__") else 0])
            impl.append((f"{modname}.{child.name}", child.alias_target_path, child.kind.value))
    outs = ctx.model(queries)
    for (label, t, kind), out, qy in zip(impl, outs, queries):
        ctx.count("stdlib_alias_cases")
        got = [] if t is None else [t.split(".")]
        ctx.observe("stdlib_alias", "alias" if t else "none")
        if out[0] != got:
            ctx.tie_failure("correspondence", "alias_target_path(model) vs ObjectNode.alias_target_path (stdlib)", {"model": out[0], "impl": t, "env": qy[2][:4]}, {"object": label})


def check_relative_grid(ctx):
    """relative_to_absolute on every (depth<=4, init?, level<=5, module part?) incl. the levels CPython refuses."""
    from _griffe.agents.nodes.imports import relative_to_absolute
    from _griffe.models import Module
    queries, impl = [], []
    for depth in range(1, 5):
        for init in (False, True):
            parts = [f"a{i}" for i in range(depth)]
            m = None
            for i, p in enumerate(parts):
                last = i == depth - 1
                fp = Path("/x/" + "/".join(parts[: i + 1]) + ("/__init__.py" if (not last or init) else ".py"))
                m = Module(p, filepath=fp, parent=m)
            for level in range(0, 6):
                for modpart in ([], ["z"], ["y", "z"]):
                    if level == 0 and not modpart:
                        continue
                    src = f"from {'.' * level}{'.'.join(modpart)} import n"
                    node = ast.parse(src).body[0]
                    got = relative_to_absolute(node, node.names[0], m)
                    package = ".".join(parts) if init else ".".join(parts[:-1])
                    try:
                        cpy = importlib.util.resolve_name("." * level + ".".join(modpart), package) if level else ".".join(modpart)
                        cpy = [(cpy + ".n").split(".")]
                    except ImportError:
                        cpy = []
                    queries.append(["rel", parts, [parts, 1 if init else 0], [level, modpart, "n", []]])
                    impl.append((src, parts, init, got, cpy))
    outs = ctx.model(queries)
    for (src, parts, init, got, cpy), out in zip(impl, outs):
        ctx.count("relative_grid_cases")
        ctx.case({"rel": src, "module": parts, "init": init}, True)
        ctx.observe("relative_grid", "resolves" if cpy else "beyond-top")
        if out[0] != got.split("."):
            ctx.tie_failure("correspondence", "relative_to_absolute(model) vs imports.relative_to_absolute", {"model": out[0], "impl": got}, {"stmt": src, "module": parts, "init": init})
        if out[2] != cpy:
            ctx.tie_failure("oracle", "cpy_from_module(model) vs importlib.util.resolve_name", {"model": out[2], "cpython": cpy}, {"stmt": src, "module": parts, "init": init})
        if cpy and [got.split(".")] != cpy:
            ctx.property_failure({"stmt": src, "module": ".".join(parts), "init": init}, {"griffe": got, "cpython": cpy})


def check_same_components(ctx, n):
    from _griffe.agents.nodes.runtime import _same_components
    comps = ["a", "_a", "__a", "b", "_b", "a_", "_", "", "ab", "_ab"]
    pairs = []
    for _ in range(n):
        x = [ctx.rng.choice(comps) for _ in range(ctx.rng.randint(1, 3))]
        y = list(x) if ctx.rng.random() < 0.5 else [ctx.rng.choice(comps) for _ in range(ctx.rng.randint(1, 3))]
        if ctx.rng.random() < 0.2 and len(x) > 1:
            y = x[ctx.rng.randint(1, len(x) - 1):]            # a dotted suffix (pkg.logging vs logging)
        if ctx.rng.random() < 0.5:
            y = [("_" + c if ctx.rng.random() < 0.4 else c.lstrip("_") if ctx.rng.random() < 0.4 else c) for c in y]
        pairs.append((x, y))
    outs = ctx.model([["samecomp", x, y] for x, y in pairs])
    for (x, y), out in zip(pairs, outs):
        ctx.count("same_components_cases")
        impl = 1 if _same_components(".".join(x), ".".join(y)) else 0
        ctx.observe("same_components", impl)
        if out != impl:
            ctx.tie_failure("correspondence", "same_components(model) vs runtime._same_components", {"model": out, "impl": impl}, {"a": x, "b": y})


def check_docstrings(ctx, n):
    """Random line lists: model cleandoc vs inspect.cleandoc; static_doc vs Docstring(value).value; dynamic_doc vs Inspector._get_docstring."""
    from _griffe.agents.inspector import Inspector
    from _griffe.agents.nodes.runtime import ObjectNode
    from _griffe.extensions.base import load_extensions
    from _griffe.models import Docstring
    ins = Inspector("m", None, load_extensions())
    cases = []
    for _ in range(n):
        k = ctx.rng.randint(0, 5)
        lines = [(ctx.rng.choice([0, 0, 1, 2, 4, 7]), None if ctx.rng.random() < 0.3 else ctx.rng.randrange(len(DOC_WORDS))) for _ in range(k)]
        cases.append(lines)
    outs = ctx.model([["doc", doc_abstract(l)] for l in cases])
    for lines, out in zip(cases, outs):
        raw = doc_text(lines)
        ctx.count("docstring_cases")
        ctx.case({"doc": raw}, len(lines) > 1)

        def holder():
            pass
        holder.__doc__ = raw
        st = Docstring(raw).value
        dyn = ins._get_docstring(ObjectNode(holder, "holder")).value
        ctx.observe("docstring", f"first_blank={out[3]} differ={int(st != dyn)}")
        if out[0] != abstract_text(inspect.cleandoc(raw)):
            ctx.tie_failure("oracle", "cleandoc(model) vs inspect.cleandoc", {"model": out[0], "cpython": inspect.cleandoc(raw)}, {"raw": raw})
        if out[1] != abstract_text(st):
            ctx.tie_failure("correspondence", "static_doc(model) vs Docstring(value).value", {"model": out[1], "impl": st}, {"raw": raw})
        if out[2] != abstract_text(dyn):
            ctx.tie_failure("correspondence", "dynamic_doc(model) vs Inspector._get_docstring", {"model": out[2], "impl": dyn}, {"raw": raw})
        if st != dyn:
            ctx.property_failure({"docstring": raw}, {"static": st, "dynamic": dyn})


def check_binders(ctx, n):
    """Small packages whose module body interleaves definitions and wildcard imports of two source modules: which statement a name
    ends up bound by -- model (griffe_binder, cpy_binder) vs the statically loaded tree vs the imported module."""
    import griffe
    root = ctx.scratch / "binders"
    root.mkdir(parents=True, exist_ok=True)
    pool = ["a", "b", "c", "d"]
    sys.path.insert(0, str(root))
    try:
        for i in range(n):
            pkg = f"c17b_{ctx.seed}_{i}"
            srcs = {}
            files = {f"{pkg}/__init__.py": ""}
            for sname in ("s1", "s2"):
                names = ctx.rng.sample(pool, ctx.rng.randint(1, 3)) + (["_p"] if ctx.rng.random() < 0.3 else [])
                all_ = sorted(ctx.rng.sample(names, ctx.rng.randint(1, len(names)))) if ctx.rng.random() < 0.3 else None
                files[f"{pkg}/{sname}.py"] = "".join(f"def {x}(): return '{sname}'\n" for x in names) + (f"__all__ = {all_!r}\n" if all_ is not None else "")
                srcs[sname] = all_ if all_ is not None else [x for x in names if not x.startswith("_")]
            events, lines = [], []
            for k in range(ctx.rng.randint(2, 6)):
                if ctx.rng.random() < 0.5:
                    sname = ctx.rng.choice(["s1", "s2"])
                    lines.append(ctx.rng.choice([f"from .{sname} import *", f"from {pkg}.{sname} import *"]))
                    events.append(["star", srcs[sname], sname])
                else:
                    x = ctx.rng.choice(pool)
                    lines.append(f"def {x}(): return {k}")
                    events.append(["bind", x])
            files[f"{pkg}/m.py"] = "\n".join(lines) + "\n"
            for rel, text in files.items():
                q = root / rel
                q.parent.mkdir(parents=True, exist_ok=True)
                q.write_text(text)
            ctx.case({"files": files}, any(e[0] == "star" for e in events) and any(e[0] == "bind" for e in events))
            try:
                st = griffe.load(pkg, search_paths=[str(root)], allow_inspection=False)
                live = importlib.import_module(f"{pkg}.m")
            except Exception as e:  # noqa: BLE001
                ctx.tie_failure("harness", "binder package", f"{type(e).__name__}: {e}", {"files": files})
                purge_modules(pkg)
                continue
            outs = ctx.model([["binder", x, [e[:2] for e in events]] for x in pool]) if ctx.driver is not None else [None] * len(pool)
            for x, out in zip(pool, outs):
                ctx.count("binder_cases")
                origin = lambda idx: None if idx is None else (("own", idx) if events[idx][0] == "bind" else ("src", events[idx][2]))
                m = st["m"].members.get(x)
                if m is None:
                    s_origin = None
                elif m.is_alias:
                    s_origin = ("src", m.target_path.split(".")[-2])
                    s_index = m.alias_lineno - 1
                else:
                    s_origin = ("own", m.lineno - 1)
                    s_index = m.lineno - 1
                f = vars(live).get(x)
                r_origin = None if f is None else (("own", f()) if f.__module__ == f"{pkg}.m" else ("src", f()))
                ctx.observe("binder", "unbound" if r_origin is None else r_origin[0])
                if s_origin != r_origin:
                    ctx.property_failure({"files": files, "pkg": pkg, "member": f"{pkg}.m.{x}"}, {"what": "wildcard-binder", "static": s_origin, "dynamic": r_origin})
                if out is None:
                    continue
                g = out[0][0] if out[0] else None
                c = out[1][0] if out[1] else None
                if origin(c) != r_origin:
                    ctx.tie_failure("oracle", "cpy_binder(model) vs the imported module", {"model": origin(c), "cpython": r_origin}, {"files": files, "name": x})
                if origin(g) != s_origin or (g is not None and events[g][0] == "bind" and g != s_index):
                    ctx.tie_failure("correspondence", "griffe_binder(model) vs the loaded member", {"model": [g, origin(g)], "impl": s_origin}, {"files": files, "name": x})
            purge_modules(pkg)
    finally:
        sys.path.remove(str(root))


def check_shared_collections(ctx, n):
    """Histories of loads that share the documented `lines_collection=` / `modules_collection=` options: a dynamic and a static load in
    both orders, and a static load, an edit of a source file, a static load again.  Every load must give the tree that a load with fresh
    collections gives at that moment (static analysis describes the current source; sharing a collection is not an input of the skeleton)."""
    import griffe
    root = ctx.scratch / "shared"
    root.mkdir(parents=True, exist_ok=True)
    S = summarize_root
    seps = ["\x0c", "\x0b", "\x1c", "\x85", " "]           # line boundaries of str.splitlines other than \n

    def fresh(pkg, **kw):
        return griffe.load(pkg, search_paths=[str(root)], **kw)

    for i in range(n):
        pkg = f"c17s_{ctx.seed}_{i}"
        mk = "_mk"
        doc = lambda: "alpha" + ctx.rng.choice(seps) + "beta"
        mod_src = lambda k: (f'"""{doc()}"""\ndef _mk(*r, **w):\n    return dict(w, _=1)\n'
                             f'def f{k}(a, b={expr_default(ctx.rng, mk)}, *, c={ctx.rng.randint(1, 9)}):\n    """{doc()}\n    second"""\n'
                             f'class K{k}:\n    """{doc()}"""\n    def m(self, q={expr_default(ctx.rng, mk)}):\n        pass\n')
        files = {f"{pkg}/__init__.py": f'"""{doc()}"""\nfrom .core import f0\n', f"{pkg}/core.py": mod_src(0), f"{pkg}/util.py": mod_src(1)}
        for rel, text in files.items():
            q = root / rel
            q.parent.mkdir(parents=True, exist_ok=True)
            q.write_text(text, encoding="utf8")
        ctx.case({"files": files, "shared": True}, True)
        try:
            a, b = S(fresh(pkg, allow_inspection=False)), S(fresh(pkg, force_inspection=True))
            histories = []
            lc, mc = griffe.LinesCollection(), griffe.ModulesCollection()
            share = ctx.rng.choice([{"lines_collection": lc}, {"lines_collection": lc, "modules_collection": mc}, {"modules_collection": mc}])
            d1 = S(fresh(pkg, force_inspection=True, **share))
            s1 = S(fresh(pkg, allow_inspection=False, **share))
            histories.append(("dynamic-then-static " + "+".join(sorted(share)), s1 == a and d1 == b, {"static": s1 == a, "dynamic": d1 == b}))
            lc2 = griffe.LinesCollection()
            s2 = S(fresh(pkg, allow_inspection=False, lines_collection=lc2))
            d2 = S(fresh(pkg, force_inspection=True, lines_collection=lc2))
            histories.append(("static-then-dynamic lines_collection", s2 == a and d2 == b, {"static": s2 == a, "dynamic": d2 == b}))
            # an edit between two static loads that share the lines collection (and, for half of them, one loader)
            lc3 = griffe.LinesCollection()
            before = S(fresh(pkg, allow_inspection=False, lines_collection=lc3))
            edited = files[f"{pkg}/core.py"].replace("def f0(a, b=", "def f0(a, new_required, b=") + f'def added(z={expr_default(ctx.rng, mk)}):\n    """{doc()}"""\n'
            (root / pkg / "core.py").write_text(edited, encoding="utf8")
            after_shared = S(fresh(pkg, allow_inspection=False, lines_collection=lc3))
            after_fresh = S(fresh(pkg, allow_inspection=False))
            histories.append(("static, edit, static with the same lines_collection", after_shared == after_fresh and before == a, {"stale": after_shared == before}))
            for what, ok, detail in histories:
                ctx.count("shared_collection_histories")
                ctx.observe("shared_collections", what.split(" ")[0])
                if not ok:
                    ctx.property_failure({"files": files, "pkg": pkg, "history": what, "edited_core": edited if "edit" in what else None},
                                         {"what": "a load sharing collections with an earlier load differs from a load with fresh collections", "history": what, **detail})
        except Exception as e:  # noqa: BLE001
            ctx.property_failure({"files": files, "pkg": pkg, "history": "shared collections"}, {"load raised": f"{type(e).__name__}: {e}"})
        finally:
            purge_modules(pkg)


# ------------------------------------------------------------------------------------------------------------------
# witnesses of the known findings, replayed on the implementation every run

WITNESS_FILES = {
    "__init__.py": '"""w"""\nimport {pkg}.sub\n',
    "sub.py": "",
    "_a.py": "def tw(): ...\n",
    "a.py": "from {pkg}._a import tw\n",
    "gen.py": "from typing import Generic, List, TypeVar\nT = TypeVar('T')\nclass G(Generic[T]): ...\nclass L(List[int]): ...\nclass K(Generic[T], G[T]): ...\n",
    "w12.py": "import functools\nimport typing\nif typing.TYPE_CHECKING:\n    from {pkg}._a import tw as T\nelse:\n    T = None\nif not typing.TYPE_CHECKING:\n    U = None\nelse:\n    from {pkg}._a import tw as U\ndef deco(fn):\n    @functools.wraps(fn)\n    def w(*a, **k): return fn(*a, **k)\n    return w\nclass C:\n    @classmethod\n    @deco\n    def cm(cls, a, b=1): ...\n",
    "w9.py": "import functools\nimport typing\nimport _io\nimport {pkg}.w9 as me\ndef h(a): ...\nlam = lambda a: a\npart = functools.partial(h)\nx: int\nclass K:\n    c: typing.ClassVar[int]\n",
}


def replay_witnesses(ctx):
    pkg = f"c17w_{ctx.seed}"
    root = ctx.scratch / "witness"
    (root / pkg).mkdir(parents=True, exist_ok=True)
    for name, text in WITNESS_FILES.items():
        (root / pkg / name).write_text(text.replace("{pkg}", pkg))
    try:
        st, dy = load_both(pkg, root)
        seen = {
            "C17-F4": st["a"].members["tw"].is_alias and not dy["a"].members["tw"].is_alias,
            "C17-F6": pkg in st.members and pkg not in dy.members and "me" in st["w9"].members and "me" not in dy["w9"].members,
            "C17-F9": st["w9.lam"].kind.value == "attribute" and dy["w9.lam"].kind.value == "function" and st["w9.part"].kind.value == "attribute"
                      and dy["w9"].members["part"].is_alias and dy["w9"].members["part"].target_path == "functools.part",
            "C17-F10": "x" in st["w9"].members and "x" not in dy["w9"].members and "c" in st["w9.K"].members and "c" not in dy["w9.K"].members,
            "C17-F12": st["w12"].members["T"].is_alias and dy["w12"].members["T"].kind.value == "attribute"
                       and st["w12"].members["U"].is_alias and not st["w12"].members["U"].runtime and dy["w12"].members["U"].kind.value == "attribute",
            "C17-F8": ([base_path(st["gen.L"], x) for x in st["gen.L"].bases], [str(x) for x in dy["gen.L"].bases],
                       [base_path(st["gen.K"], x) for x in st["gen.K"].bases], [str(x) for x in dy["gen.K"].bases])
                      == (["typing.List"], ["builtins.list", "typing.Generic"], ["typing.Generic", f"{pkg}.gen.G"], [f"{pkg}.gen.G"]),
        }
    except Exception as e:  # noqa: BLE001
        ctx.tie_failure("harness", "witness replay", f"{type(e).__name__}: {e}")
        return
    finally:
        purge_modules(pkg)
    for fid in ctx.known:
        ctx.witness(fid, seen.get(fid, False))


def replay_corpus(ctx):
    """corpus/C17/*.json: packages that once showed a (now repaired) defect; the two agents must agree on them completely."""
    from harness.common.framework import VERIF
    for f in sorted((VERIF / "corpus" / "C17").glob("*.json")):
        case = json.loads(f.read_text())
        root = ctx.scratch / "corpus" / f.stem
        for rel, text in case["files"].items():
            p = root / rel
            p.parent.mkdir(parents=True, exist_ok=True)
            p.write_text(text)
        try:
            st, dy = load_both(case["pkg"], root)
            a, b = summarize_root(st), summarize_root(dy)
            diffs = []
            compare_trees(a, b, case["pkg"], a, diffs)
            check_bases_cpython(a, b, case["pkg"], diffs)
            ctx.count("corpus_cases")
            ctx.case({"corpus": f.name}, True)
            for d in diffs:
                ctx.property_failure({"files": case["files"], "pkg": case["pkg"], "member": d[0], "corpus": f.name},
                                     {"what": d[1], "static": d[2], "dynamic": d[3]})
        except Exception as e:  # noqa: BLE001
            ctx.property_failure({"files": case["files"], "pkg": case["pkg"], "corpus": f.name}, {"load raised": f"{type(e).__name__}: {e}"})
        finally:
            purge_modules(case["pkg"])


def explore(ctx):
    sys.dont_write_bytecode = True
    replay_witnesses(ctx)
    replay_corpus(ctx)
    if ctx.driver is None:
        raise_unavailable(ctx)          # the framework then calls search(): implementation-vs-implementation only
    check_zoo(ctx)
    check_stdlib_aliases(ctx)
    check_relative_grid(ctx)
    check_same_components(ctx, ctx.budget(400, 4000))
    check_docstrings(ctx, ctx.budget(600, 6000))
    check_binders(ctx, ctx.budget(150, 1200))
    check_shared_collections(ctx, ctx.budget(40, 300))
    run_packages(ctx, ctx.budget(110, 900), "q" if ctx.quick else "t")
    if not ctx.quick:
        sample = [["form", f] for f in ALL_FORMS] + [["stored", f] for f in ALL_FORMS] + [
            ["doc", [[0, []], [2, [1]], [0, [2]]]], ["samecomp", ["a", "_b"], ["_a", "b"]],
            ["rel", ["a", "b"], [["a", "b"], 0], [2, ["z"], "n", []]],
            ["obs", 1, ["classmethod", ["function", 1]]], ["obs", 0, ["partial", ["function", 0]]], ["obs", 1, ["cached_property", ["function", 0]]],
            ["xform", ["assigned", "mod", ["partial", ["function", 0]]], [1, [["functools"]], [["p", "m"]], ["x"], []], ["p", "m"], "x", 0],
            ["xform", ["annotated", "cls", 1, 0], [1, [], [], [], []], ["p", "m", "K"], "c", 0],
            ["importstmt", "mod", ["p", "m"], ["p", "m"], ["p", "m"], ["me"], ["_io"], 0],
            ["importstmt", "cls", ["p"], ["p", "K"], ["_io"], [], ["_io"], 0],
            ["star", [["f"]], [["f", 1, 0, 0, 0], ["_g", 1, 0, 0, 0], ["sub", 1, 0, 1, 0]], ["f", "_g"]],
            ["star", [], [["f", 1, 0, 0, 0], ["_g", 1, 0, 0, 0], ["T", 0, 1, 0, 1]], ["f", "_g"]],
            ["binder", "f", [["bind", "f"], ["star", ["f", "g"]], ["bind", "g"], ["star", ["g"]]]],
            ["rebindc", [["import", ["then", "tc"]], ["assign", ["else", "tc"]]]], ["rebindc", [["assign", ["then", "nottc"]], ["import", ["else", "nottc"]]]],
            ["rebindc", [["import", "top"], ["assign", "except"], ["assign", ["then", "false"]], ["def", ["then", "true"]]]],
            ["rebind", [["import", 0, 1], ["assign", 1, 0]]], ["children", 0, ["a", "b"]], ["children", 2, ["a", "b"]],
            ["bases", [[1, "K", [["N0", ["local"]]]], [0, "p.m", [["G", ["local"]], ["K", ["local"]], ["Generic", ["ext", ["typing", "Generic"]]],
                                                                  ["Imp", ["chain", [[[["p", "m"], 0], [1, ["b"], "Imp", []]]], ["p", "b"], "Imp"]]]]],
             [[["sub", ["name", "G"]], ["class", ["p", "m", "G"], 1]], [["name", "Imp"], ["class", ["p", "b", "Imp"], 0]],
              [["sub", ["name", "Generic"]], ["class", ["typing", "Generic"], 1]], [["name", "Exception"], ["class", ["builtins", "Exception"], 0]]]],
            ["bases", [[0, "p.m", [["List", ["ext", ["typing", "List"]]]]]], [[["sub", ["name", "List"]], ["typingalias", ["typing", "List"], ["builtins", "list"]]]]]]
        ctx.cross_check_extraction(sample)


ALL_FORMS = ([["func", sc, a] for sc in ("mod", "cls") for a in (0, 1)] + [["static", a] for a in (0, 1)] + [["classm", a] for a in (0, 1)]
             + [["prop"], ["cachedprop"]] + [["class", sc] for sc in ("mod", "cls")] + [["value", sc] for sc in ("mod", "cls")]
             + [["imported", sc, t] for sc in ("mod", "cls") for t in ("func", "asyncfunc", "class", "module", "value")])


def raise_unavailable(ctx):
    from harness.common.framework import ModelUnavailable
    raise ModelUnavailable(ctx.model_log)


def search(ctx):
    """A tie broke and no failing input is known: evaluate the property itself (static vs dynamic) on more packages; no model needed."""
    driver, ctx.driver = ctx.driver, None
    try:
        ctx.scratch.mkdir(parents=True, exist_ok=True)
        run_packages(ctx, 120, "s")
        check_binders(ctx, 150)
        check_shared_collections(ctx, 40)
    finally:
        ctx.driver = driver


def replay(ctx, data):
    case = data.get("failing_input") or {}
    if "files" not in case:
        print(json.dumps(case, indent=1))
        print("replay names no package:", data.get("no_longer_checks"))
        return 0
    root = ctx.scratch / "replay"
    for rel, text in case["files"].items():
        p = root / rel
        p.parent.mkdir(parents=True, exist_ok=True)
        p.write_text(text)
    pkg = case["pkg"]
    try:
        st, dy = load_both(pkg, root)
        a, b = summarize_root(st), summarize_root(dy)
        diffs = []
        compare_trees(a, b, pkg, a, diffs)
        check_bases_cpython(a, b, pkg, diffs)
        for d in diffs:
            print(d[0], d[1], json.dumps(d[2])[:300], "|", json.dumps(d[3])[:300])
    finally:
        purge_modules(pkg)
        import shutil
        shutil.rmtree(root, ignore_errors=True)
    return 0
