"""C13 — Well-formed docstrings parse back to the structure that was written.

(T) the regex texts, keyword tables and Sphinx field-name sets of the three parsers are compared with the copies the Coq
    model was built from (fail closed); Gen/C13_tables.v (section keyword -> kind tables) is regenerated from the source
(C) model g_parse / n_parse / s_parse on the rendered lines      vs  Docstring(text, parent).parse(style, **options)
    model render_google / render_numpy / render_sphinx           vs  this harness's renderers (the documented syntax)
(O) model string functions (split at first colon, strip, lstrip, the hand-compiled regexes)  vs  CPython str / re
direct: what was written  vs  [s.as_dict() for s in Docstring(text, parent).parse(style, **options)]
"""
from __future__ import annotations

import inspect
import json
import logging
import re

ID = "C13"

# ------------------------------------------------------------------ documented syntax (docs/reference/docstrings.md)
ITEM_KINDS = ["parameters", "other parameters", "raises", "warns", "attributes", "functions", "classes", "modules",
              "returns", "yields", "receives"]
# header spellings the docs list for each style (title + aliases), keyed by kind
DOC_HEADERS = {
    "google": {
        "parameters": ["Parameters", "Args", "Arguments", "Params"],
        "other parameters": ["Other Parameters", "Keyword Args", "Keyword Arguments", "Other Args", "Other Arguments", "Other Params"],
        "raises": ["Raises", "Exceptions"], "warns": ["Warns", "Warnings"], "attributes": ["Attributes"],
        "functions": ["Functions", "Methods"], "classes": ["Classes"], "modules": ["Modules"],
        "returns": ["Returns"], "yields": ["Yields"], "receives": ["Receives"], "examples": ["Examples"],
    },
    "numpy": {
        "parameters": ["Parameters", "Args", "Arguments", "Params"],
        "other parameters": ["Other Parameters", "Keyword Args", "Keyword Arguments", "Other Args", "Other Arguments", "Other Params"],
        "raises": ["Raises", "Exceptions"], "warns": ["Warns"], "attributes": ["Attributes"],
        "functions": ["Functions", "Methods"], "classes": ["Classes"], "modules": ["Modules"],
        "returns": ["Returns"], "yields": ["Yields"], "receives": ["Receives"], "examples": ["Examples"],
        "deprecated": ["Deprecated"],
    },
}
ADMONITION_IDS = ["Note", "Tip", "See also", "Warning", "Example", "Important", "Danger", "To do", "Notes", "My-thing", "Info 2"]
SPHINX_FIELDS = {"param": ["param", "parameter", "arg", "argument", "key", "keyword"], "var": ["var", "ivar", "cvar"],
                 "returns": ["returns", "return"], "raises": ["raises", "raise", "except", "exception"]}

ANNOTS = ["int", "str", "bool", "float", "list[int]", "dict[str, int]", "int | None", "Optional[Union[int, Tuple[float, float]]]",
          "my_mod.MyType", "Callable[[int], str]", "tuple[int, ...]", "Integer", "list of int", "String", "a.b.C[d]"]
SIMPLE_ANNOTS = ["int", "str", "bool", "float", "bytes", "complex", "list[int]", "dict[str, int]", "Foo", "a.B"]
EXCEPTIONS = ["ValueError", "KeyError", "my_exceptions.MyError", "OSError", "RuntimeError", "CustomWarning", "UserWarning"]
DEFAULTS = ["1", "None", "'x'", "3.5", "True", "()", "[1, 2]"]
# characters at which str.splitlines() cuts but "\n".split does not (a docstring line ends at "\n" only)
LINE_BOUNDARY_ASCII = ["\x0b", "\x0c", "\x1c", "\x1d", "\x1e", "\r"]
LINE_BOUNDARY_CHARS = LINE_BOUNDARY_ASCII + ["\x85", "\u2028", "\u2029"]
NON_ASCII_LETTERS = ["\u00e9", "\u00df", "\u03bb", "\u6570", "\u00a0", "\u2014"]
WORDS = ["alpha", "beta", "gamma", "delta", "value", "the", "of", "when", "result", "item", "number", "path", "flag", "mode"]


class Gen:
    """Seeded generator of documented structures. Every name / prose word carries a serial number, so content is distinct."""

    def __init__(self, rng, exotic: float = 0.0, ascii_only: bool = False):
        self.rng = rng
        self.n = 0
        self.exotic = exotic            # probability that a prose word carries a character outside printable ASCII
        self.ascii_only = ascii_only

    def uid(self) -> int:
        self.n += 1
        return self.n

    def word(self) -> str:
        w = f"{self.rng.choice(WORDS)}{self.uid()}"
        if self.exotic and self.rng.random() < self.exotic:
            # prose is arbitrary text: control characters that str.splitlines (but not split("\n")) treats as line
            # boundaries, a lone carriage return, non-ASCII letters.  Placed INSIDE the word, so no strip() can touch it.
            r = self.rng.random()
            if r < 0.75 or self.ascii_only:
                ch = self.rng.choice(LINE_BOUNDARY_ASCII if self.ascii_only else LINE_BOUNDARY_CHARS)
            else:
                ch = self.rng.choice(NON_ASCII_LETTERS)
            i = self.rng.randint(1, len(w) - 1)
            w = w[:i] + ch + w[i:]
        return w

    def ident(self, prefix="n") -> str:
        return f"{prefix}{self.uid()}"

    def prose(self, lo=1, hi=5) -> str:
        return " ".join(self.word() for _ in range(self.rng.randint(lo, hi)))

    def cont_line(self, style: str) -> str:
        """A continuation line of a description: anything that is not blank (extra indentation, colons, keywords, markup)."""
        r = self.rng.random()
        w = self.prose(1, 4)
        if r < 0.40:
            return w + "."
        if r < 0.48:
            return "    " + w                     # deeper indentation (code block / nested list) is preserved
        if r < 0.54:
            return f"{self.word()}: {w}"           # looks like an item
        if r < 0.60:
            return self.rng.choice(["Returns:", "Args:", "Note:", "Parameters", "Yields:", "Raises"])
        if r < 0.66:
            return f"- {w}"
        if r < 0.72:
            return f"call({self.word()}): {w}"     # contains "):"
        if r < 0.78:
            return f"`{self.word()}` ({w})"
        if r < 0.82:
            return ">>> " + w
        if r < 0.86:
            if style != "sphinx":
                return f":param {self.word()}: {w}"
            # Sphinx: a continuation line is ANY more-indented line, also one that begins with a colon: an inline role at the
            # start of a wrapped line, or text that reads like a field
            return self.rng.choice([f":class:`{self.word()}` {w}", f":func:`{self.word()}`", f":exc:`{self.word()}`: {w}",
                                    f":param {self.word()}: {w}", f":type {self.word()}: int", f":returns: {w}", f": {w}", f":{w}"])
        if r < 0.90:
            return "* " + w
        if r < 0.93:
            # a dash-only / equals-only line right under a text line: Markdown setext heading, RST sub-heading or table
            # border, horizontal rule.  Inside an (indented) item description it is ordinary text in every style.
            return self.rng.choice(["-----", "---", "-" * self.rng.randint(2, 12), "=====", "- - -"])
        return w

    def first_line(self) -> str:
        r = self.rng.random()
        w = self.prose(1, 4)
        if r < 0.55:
            return w + "."
        if r < 0.65:
            return f"{w}: {self.word()}"
        if r < 0.75:
            return f"({self.word()}) {w}"
        if r < 0.82:
            return f"`{self.word()}` {w}"
        if r < 0.88:
            return f"{w} (see {self.word()})."
        return w

    def description(self, style: str, *, may_start_empty=False, paren_colon=False) -> list[str]:
        """Description lines. lines[0] is what follows the item head on the same line (Google) or the first body line (Numpy)."""
        first = self.first_line()
        if paren_colon:
            first = f"calls {self.word()}({self.word()}): {first}"
        n = self.rng.choice([0, 0, 0, 1, 1, 2, 3, 5])
        rest = []
        for _ in range(n):
            if rest and rest[-1] != "" and self.rng.random() < 0.25:
                rest.append("")
            rest.append(self.cont_line(style))
        if may_start_empty and rest and rest[0] != "" and self.rng.random() < 0.15:
            first = ""
        return [first, *rest]

    def text_lines(self, *, fences=True) -> list[str]:
        """Free text: unindented prose paragraphs separated by blank lines, optionally with fenced code blocks."""
        out = []
        for p in range(self.rng.choice([1, 1, 1, 2, 3])):
            if out:
                out.append("")
                if self.rng.random() < 0.1:
                    out.append("")
            if fences and self.rng.random() < 0.2:
                out.append("```" + self.rng.choice(["", "python", "pycon"]))
                for _ in range(self.rng.randint(1, 3)):
                    r = self.rng.random()
                    out.append(("    " if r < 0.3 else "") + (self.rng.choice(["Args:", "Note:", "Returns", "-------"]) if 0.3 <= r < 0.5 else self.prose(1, 3)))
                out.append("```")
                continue
            for _ in range(self.rng.randint(1, 3)):
                r = self.rng.random()
                w = self.prose(1, 5)
                if r < 0.7:
                    out.append(w + ".")
                elif r < 0.8:
                    out.append(f"{w}: {self.word()}")      # matches the admonition regex, but nothing indented follows
                elif r < 0.87:
                    out.append(f"{self.word()}:")
                elif r < 0.93:
                    out.append(f"- {w}")
                else:
                    out.append(f"({w})")
        return out


# ------------------------------------------------------------------ parents
def gen_parent(g: Gen, kind: str) -> dict:
    rng = g.rng
    if kind == "none":
        return {"kind": "none"}
    if kind in ("func", "gen", "init"):
        params = []
        for i in range(rng.randint(0, 4)):
            params.append({"name": g.ident("p"), "ann": rng.choice([None, *SIMPLE_ANNOTS[:6]]), "default": rng.choice([None, None, *DEFAULTS[:5]]), "star": ""})
        # defaults must be trailing for valid Python
        seen = False
        for p in params:
            if p["default"] is not None:
                seen = True
            elif seen:
                p["default"] = "0"
        if rng.random() < 0.3:
            params.append({"name": g.ident("args"), "ann": rng.choice([None, "str"]), "default": None, "star": "*"})
        if rng.random() < 0.3:
            params.append({"name": g.ident("kw"), "ann": rng.choice([None, "int"]), "default": None, "star": "**"})

        def part():
            r = rng.random()
            if r < 0.15:
                return None
            if r < 0.6:
                return ["name", rng.choice(SIMPLE_ANNOTS)]
            return ["tuple", [rng.choice(SIMPLE_ANNOTS) for _ in range(rng.randint(2, 3))]]
        if kind == "gen":
            if rng.random() < 0.5:
                ret = ["gen", part() or ["name", "int"], part() or ["name", "str"], part() or ["name", "None"]]
            else:
                ret = ["iter", part() or ["name", "int"]]
        else:
            ret = part()
        return {"kind": kind, "params": params, "ret": ret}
    if kind in ("cls", "mod"):
        attrs = [{"name": g.ident("at"), "ann": rng.choice([None, *SIMPLE_ANNOTS[:6]])} for _ in range(rng.randint(0, 4))]
        return {"kind": kind, "attrs": attrs}
    if kind == "prop":
        return {"kind": "prop", "ret": ["name", rng.choice(SIMPLE_ANNOTS[:5])]}
    raise ValueError(kind)


def ann_text(part) -> str | None:
    if part is None:
        return None
    if part[0] == "name":
        return part[1]
    if part[0] == "tuple":
        return "tuple[" + ", ".join(part[1]) + "]"
    if part[0] == "iter":
        return f"Iterator[{ann_text(part[1])}]"
    if part[0] == "gen":
        return "Generator[" + ", ".join(ann_text(p) for p in part[1:]) + "]"
    raise ValueError(part)


def parent_source(parent: dict) -> tuple[str, tuple]:
    k = parent["kind"]
    if k in ("func", "gen", "init"):
        ps = []
        for p in parent["params"]:
            s = p["star"] + p["name"]
            if p["ann"] is not None:
                s += f": {p['ann']}"
            if p["default"] is not None:
                s += (" = " if p["ann"] is not None else "=") + p["default"]
            ps.append(s)
        r = ann_text(parent["ret"])
        ret = f" -> {r}" if r is not None else ""
        head = "from typing import Iterator, Generator\n"
        if k == "init":
            return head + f"class K:\n    def __init__(self{''.join(', ' + s for s in ps)}){ret}: ...\n", ("K", "__init__")
        return head + f"def f({', '.join(ps)}){ret}: ...\n", ("f",)
    if k == "cls":
        body = "".join(f"    {a['name']}: {a['ann']} = 0\n" if a["ann"] else f"    {a['name']} = 0\n" for a in parent["attrs"]) or "    pass\n"
        return "class K:\n" + body, ("K",)
    if k == "mod":
        return "".join(f"{a['name']}: {a['ann']} = 0\n" if a["ann"] else f"{a['name']} = 0\n" for a in parent["attrs"]) or "pass\n", ()
    if k == "prop":
        return f"class K:\n    @property\n    def pr(self) -> {ann_text(parent['ret'])}: ...\n", ("K", "pr")
    raise ValueError(k)


def build_parent(parent: dict):
    import griffe
    if parent["kind"] == "none":
        return None
    src, path = parent_source(parent)
    obj = griffe.visit("m", filepath=None, code=src)
    for n in path:
        obj = obj.members[n]
    return obj


# ------------------------------------------------------------------ documents (what is written)
GOOGLE_OPTS = ["returns_multiple_items", "returns_named_value", "receives_multiple_items", "receives_named_value",
               "warn_unknown_params", "trim_doctest_flags", "ignore_init_summary", "returns_type_in_property_summary"]
NUMPY_OPTS = ["warn_unknown_params", "trim_doctest_flags", "ignore_init_summary"]
SPHINX_OPTS = ["warn_unknown_params"]
DEFAULT_TRUE = {"returns_multiple_items", "returns_named_value", "receives_multiple_items", "receives_named_value",
                "warn_unknown_params", "trim_doctest_flags"}


def opt(opts: dict, name: str) -> bool:
    return opts.get(name, name in DEFAULT_TRUE)


def _case(rng, s: str) -> str:
    r = rng.random()
    if r < 0.7:
        return s
    if r < 0.8:
        return s.lower()
    if r < 0.9:
        return s.upper()
    return s.capitalize()


_RE_DESC_ONLY_BAD = re.compile(r"^\w*\s*[:(]")      # documented forms `name: d`, `name (type): d`, `(type): d`


def desc_only_ok(first: str, named: bool) -> bool:
    """May `first` stand alone as a Returns/Yields/Receives item without being read as `name:` / `(type):`?"""
    if named:
        return not _RE_DESC_ONLY_BAD.match(first)
    return ":" not in first


def gen_item(g: Gen, kind: str, style: str, parent: dict, used: set, named: bool) -> dict:
    rng = g.rng
    name = ann = default = None
    if kind in ("parameters", "other parameters"):
        cands = [p for p in parent.get("params", []) if p["name"] not in used]
        if cands and rng.random() < 0.7:
            p = rng.choice(cands)
            name = p["star"] + p["name"] if rng.random() < 0.8 else p["name"]
            used.add(p["name"])
        else:
            name = g.ident("x")
        if rng.random() < 0.45:
            ann = rng.choice(ANNOTS)
        if style == "numpy" and ann is not None and rng.random() < 0.3:
            default = rng.choice(DEFAULTS)
        extra: dict = {}
        if style == "numpy" and rng.random() < 0.15:
            # Numpydoc: parameters of the same type and description are documented together, `a, b : type`
            more = []
            for _ in range(rng.choice([1, 1, 2])):
                cands = [p for p in parent.get("params", []) if p["name"] not in used]
                if cands and rng.random() < 0.7:
                    p = rng.choice(cands)
                    more.append(p["star"] + p["name"] if rng.random() < 0.8 else p["name"])
                    used.add(p["name"])
                else:
                    more.append(g.ident("x"))
            extra["more_names"] = more
        if style == "numpy" and ann is None and rng.random() < 0.1:
            # Numpydoc: a fixed set of values in braces, the default first
            extra["choices"] = rng.choice([["1", "2", "3"], ["True", "False"], ["0.5", "1.5"], ["None", "1"], ["-1", "0", "1"]])
        if (ann is not None or "choices" in extra) and default is None and rng.random() < 0.2:
            extra["optional"] = True              # `x : int, optional`  /  `x (int, optional): ...`
        return {"name": name, "ann": ann, "default": default, "desc": None, **extra}
    elif kind == "attributes":
        cands = [a for a in parent.get("attrs", []) if a["name"] not in used]
        if cands and rng.random() < 0.7:
            name = rng.choice(cands)["name"]
            used.add(name)
        else:
            name = g.ident("v")
        if rng.random() < 0.45:
            ann = rng.choice(ANNOTS)
    elif kind in ("functions", "classes"):
        name = g.ident("fn" if kind == "functions" else "Cl")
        if rng.random() < 0.4:
            ann = name + rng.choice(["()", "(a)", "(baz=1)", "(a, b=2)", "(*args, **kw)"])      # the signature, name included
    elif kind == "modules":
        name = g.ident("mod")
    elif kind in ("raises", "warns"):
        ann = rng.choice(EXCEPTIONS)
    elif kind in ("returns", "yields", "receives"):
        if named and rng.random() < 0.45:
            name = g.ident("r")
        if rng.random() < 0.5:
            ann = rng.choice(ANNOTS if named else [a for a in ANNOTS if ":" not in a])
    return {"name": name, "ann": ann, "default": default, "desc": None}


def gen_section(g: Gen, style: str, kind: str, parent: dict, opts: dict, used: set) -> dict:
    rng = g.rng
    title = None
    if style == "google" and kind != "text" and rng.random() < 0.2:
        title = rng.choice([g.prose(1, 3), g.prose(1, 3) + ":", f"{g.word()}: {g.word()}"])
    if kind == "text":
        return {"k": "text", "lines": g.text_lines(fences=True)}
    if kind == "admonition":
        ident = rng.choice(ADMONITION_IDS)
        if rng.random() < 0.3:
            ident = rng.choice([ident.upper(), ident.lower()])
        lines = [g.first_line()]
        for _ in range(rng.choice([0, 0, 1, 2, 4])):
            if lines[-1] != "" and rng.random() < 0.25:
                lines.append("")
            lines.append(g.cont_line(style) if style == "google" else g.prose(1, 4) + ".")
        return {"k": "admonition", "header": ident, "title": title, "lines": lines}
    if kind == "examples":
        chunks = []
        for _ in range(rng.randint(1, 4)):
            if rng.random() < 0.5 and (not chunks or chunks[-1][0] != "text"):
                chunks.append(["text", [g.prose(1, 4) + "." for _ in range(rng.randint(1, 2))]])
            else:
                ls = []
                for _ in range(rng.randint(1, 3)):
                    ls.append(">>> " + g.prose(1, 3) + (rng.choice(["  # doctest: +SKIP", " # doctest: +ELLIPSIS"]) if rng.random() < 0.2 else ""))
                    if rng.random() < 0.4:
                        ls.append(g.word())
                chunks.append(["examples", ls])
        return {"k": "examples", "header": _case(rng, "Examples"), "title": title, "chunks": chunks}
    if kind == "deprecated":
        return {"k": "deprecated", "header": _case(rng, "Deprecated"), "version": rng.choice(["1.2", "0.3.0", "2.0"]),
                "lines": [g.prose(1, 4) + "." for _ in range(rng.randint(1, 3))]}
    names = DOC_HEADERS[style][kind]
    header = _case(rng, names[0] if rng.random() < 0.6 else rng.choice(names))
    n_items = rng.choice([1, 1, 2, 2, 3, 4])
    single, named = False, True
    if style == "google" and kind in ("returns", "yields"):
        single, named = not opt(opts, "returns_multiple_items"), opt(opts, "returns_named_value")
    if style == "google" and kind == "receives":
        single, named = not opt(opts, "receives_multiple_items"), opt(opts, "receives_named_value")
    if single:
        n_items = 1
    items = []
    for _ in range(n_items):
        it = gen_item(g, kind, style, parent, used, named)
        rkind = kind in ("returns", "yields", "receives")
        it["desc"] = g.description(style, may_start_empty=(style == "google" and not rkind),
                                   paren_colon=(style == "google" and rkind and named and it["ann"] is not None and rng.random() < 0.06))
        if rkind and it["ann"] is None and (not fallback_documented(kind, parent) or n_items > fallback_arity(kind, parent)):
            # the parent's annotation has fewer tuple elements than documented items: the docstring has to give the types
            it["ann"] = rng.choice([a for a in ANNOTS if ":" not in a])
        if style == "google" and rkind and it["name"] is None and it["ann"] is None:
            for _try in range(20):
                if desc_only_ok(it["desc"][0], named):
                    break
                it["desc"][0] = g.prose(1, 4) + "."
        if style == "google" and rkind and not named and it["ann"] is not None and rng.random() < 0.5:
            it["parens"] = True
        if style == "numpy":
            it["just_name_form"] = rng.choice(["bare", "colon"])
            it["default_form"] = rng.choice([" ", ": ", "="])
        items.append(it)
    for it in items[:-1]:
        # items may be set apart by blank lines (both styles allow it); they belong to no description
        it["sep"] = rng.choice([0, 0, 0, 0, 0, 1, 1, 2])
    return {"k": kind, "header": header, "title": title, "items": items, "single": single, "named": named}


PARENT_SECTIONS = {
    "func": ["parameters", "other parameters", "raises", "warns", "returns", "examples", "admonition"],
    "init": ["parameters", "other parameters", "raises", "admonition"],
    "gen": ["parameters", "yields", "receives", "raises", "admonition"],
    "cls": ["attributes", "functions", "classes", "examples", "admonition", "parameters"],
    "mod": ["attributes", "functions", "classes", "modules", "examples", "admonition"],
    "none": ITEM_KINDS + ["examples", "admonition"],
    "prop": ["raises", "admonition", "examples"],
}


def gen_doc(g: Gen, style: str, opts: dict) -> dict:
    """A documented structure for `style` (google / numpy); Sphinx has its own generator (field lists)."""
    rng = g.rng
    pk = rng.choice(["func", "func", "gen", "cls", "mod", "none", "init"])
    if opts.get("ignore_init_summary"):
        pk = "init"
    if opts.get("returns_type_in_property_summary"):
        pk = "prop"
    parent = gen_parent(g, pk)
    secs = []
    used: set = set()
    if opts.get("ignore_init_summary") or rng.random() < 0.9:
        secs.append({"k": "text", "lines": [g.prose(1, 5) + "."] if (opts.get("ignore_init_summary") or rng.random() < 0.5) else g.text_lines()})
    if pk == "prop" and opts.get("returns_type_in_property_summary"):
        secs = [{"k": "text", "lines": [g.prose(1, 5) + "."], "prop_type": ann_text(parent["ret"])}]
    kinds = list(PARENT_SECTIONS[pk])
    if rng.random() < 0.1:
        kinds = ITEM_KINDS + ["examples", "admonition"]       # sections that do not fit the parent are still parsed
    if style == "numpy":
        kinds = kinds + ["deprecated"]
    for _ in range(rng.choice([0, 1, 1, 2, 2, 3, 4, 6])):
        k = rng.choice(kinds + (["text"] if style == "google" else []))
        if k == "text" and secs and secs[-1]["k"] == "text":
            continue
        if style == "numpy" and secs and secs[-1]["k"] == "admonition" and k == "text":
            continue
        secs.append(gen_section(g, style, k, parent, opts, used))
    if not secs:
        secs.append({"k": "text", "lines": [g.prose(1, 4) + "."]})
    doc = {"style": style, "parent": parent, "sections": secs, "indent": rng.choice([4, 4, 4, 2, 3, 8, 1]) if style == "google" else 4}
    lines = render_google(doc) if style == "google" else render_numpy(doc)
    if secs[0]["k"] != "text" and not any(l and not l.startswith(" ") for l in lines[1:]):
        # inspect.cleandoc removes the common indentation of all lines after the first: a docstring whose only
        # unindented line is its first one cannot keep its section body indented.  Give it a summary line.
        secs.insert(0, {"k": "text", "lines": [g.prose(1, 5) + "."]})
    return doc


# ------------------------------------------------------------------ renderers (the documented well-formed syntax)
def _colon_first(head: str, first: str) -> str:
    return head + ":" + (" " + first if first else "")


def google_item_head(kind: str, it: dict, named: bool) -> str | None:
    """Text before the colon of a Google item, None when the item is a bare description."""
    name, ann = it["name"], it["ann"]
    if kind in ("parameters", "other parameters", "attributes"):
        return name if ann is None else f"{name} ({ann}{', optional' if it.get('optional') else ''})"
    if kind in ("functions", "classes"):
        return ann if ann is not None else name
    if kind == "modules":
        return name
    if kind in ("raises", "warns"):
        return ann
    if named:
        if name is None and ann is None:
            return None
        if ann is None:
            return name
        return f"({ann})" if name is None else f"{name} ({ann})"
    if ann is None:
        return None
    return f"({ann})" if it.get("parens") else ann


def render_google(doc: dict) -> list[str]:
    ind = doc["indent"]
    sp, sp2 = " " * ind, " " * (2 * ind)
    out: list[str] = []
    for sec in doc["sections"]:
        if out:
            out.append("")
        k = sec["k"]
        if k == "text":
            first = sec["lines"]
            if "prop_type" in sec:
                first = [f"{sec['prop_type']}: {first[0]}", *first[1:]]
            out += first
            continue
        out.append(sec["header"] + ":" + (" " + sec["title"] if sec.get("title") else ""))
        if k == "admonition":
            out += [sp + l if l else "" for l in sec["lines"]]
        elif k == "examples":
            for i, (_, ls) in enumerate(sec["chunks"]):
                if i:
                    out.append("")
                out += [sp + l for l in ls]
        else:
            for it in sec["items"]:
                head = google_item_head(k, it, sec["named"])
                first = it["desc"][0]
                out.append(sp + (first if head is None else _colon_first(head, first)))
                csp = sp if sec["single"] else sp2
                out += [csp + l if l else "" for l in it["desc"][1:]]
                out += [""] * it.get("sep", 0)
    return out


def numpy_item_head(kind: str, it: dict) -> str:
    name, ann = it["name"], it["ann"]
    if kind in ("parameters", "other parameters"):
        names = ", ".join([name, *it.get("more_names", [])])
        opt_ = ", optional" if it.get("optional") else ""
        if "choices" in it:
            return f"{names} : {{{', '.join(it['choices'])}}}{opt_}"
        if ann is None:
            return names
        d = "" if it["default"] is None else f", default{it['default_form']}{it['default']}"
        return f"{names} : {ann}{d}{opt_}"
    if kind == "attributes":
        return name if ann is None else f"{name} : {ann}"
    if kind in ("functions", "classes"):
        return ann if ann is not None else name
    if kind == "modules":
        return name
    if kind in ("raises", "warns"):
        return ann
    if name is None:
        return ":" if ann is None else f": {ann}"
    if ann is None:
        return name if it["just_name_form"] == "bare" else f"{name} :"
    return f"{name} : {ann}"


def render_numpy(doc: dict) -> list[str]:
    out: list[str] = []
    for sec in doc["sections"]:
        if out:
            out.append("")
        k = sec["k"]
        if k == "text":
            out += sec["lines"]
            continue
        out += [sec["header"], "-" * len(sec["header"])]
        if k == "admonition":
            out += sec["lines"]
        elif k == "examples":
            for i, (_, ls) in enumerate(sec["chunks"]):
                if i:
                    out.append("")
                out += ls
        elif k == "deprecated":
            out.append(sec["version"])
            out += ["    " + l for l in sec["lines"]]
        else:
            for it in sec["items"]:
                out.append(numpy_item_head(k, it))
                out += ["    " + l if l else "" for l in it["desc"]]
                out += [""] * it.get("sep", 0)
    return out


def embed(lines: list[str], rng) -> str:
    """The docstring as it appears in source: sometimes indented like a function body, sometimes with a trailing newline."""
    r = rng.random()
    if r < 0.5:
        return "\n".join(lines)
    pad = " " * rng.choice([4, 8])
    body = [lines[0]] + [pad + l if l else "" for l in lines[1:]]
    return "\n".join(body) + ("\n" + pad if rng.random() < 0.7 else "")


# ------------------------------------------------------------------ what parsing should give back
def kind_of_admonition(header: str, style: str) -> str:
    k = header.lower().replace(" ", "-")
    if style == "numpy" and k in ("warnings", "notes"):
        k = k[:-1]
    return k


def parent_param(parent: dict, name: str):
    for p in parent.get("params", []):
        if p["name"] == name.lstrip("*"):
            return p
    return None


def _tuple_split(part, multiple: bool, index: int):
    if part is None:
        return None
    if multiple and part[0] == "tuple" and index < len(part[1]):
        return ["name", part[1][index]]
    return part


def fallback_annotation(kind: str, parent: dict, n_items: int, index: int):
    """Annotation the docs say is taken from the parent when the docstring omits it (None: nothing documented)."""
    ret = parent.get("ret")
    if ret is None:
        return None
    multiple = n_items > 1
    if kind == "returns" and ret[0] in ("name", "tuple"):
        return ann_text(_tuple_split(ret, multiple, index))
    if kind == "yields" and ret[0] in ("gen", "iter"):
        return ann_text(_tuple_split(ret[1], multiple, index))
    if kind == "receives" and ret[0] == "gen":
        return ann_text(_tuple_split(ret[2], multiple, index))
    return None


def parent_default(p):
    return None if p is None else ("()" if p["star"] == "*" else "{}" if p["star"] == "**" else p["default"])


def choices_annotation(choices: list[str], parent_obj) -> str:
    """Annotation text of a Numpydoc choices item `{a, b, c}`: the text between the braces, modulo annotation parsing
    (C03's subject: with a parent to resolve names in, the text is parsed and printed back as a tuple expression)."""
    from _griffe.docstrings.utils import parse_docstring_annotation
    import griffe
    return str(parse_docstring_annotation(", ".join(choices), griffe.Docstring("", parent=parent_obj)))


def fallback_arity(kind: str, parent: dict) -> int:
    """How many separately documented items the parent's annotation can serve (tuple length; unbounded otherwise)."""
    ret = parent.get("ret")
    part = None
    if ret is not None:
        if kind == "returns" and ret[0] in ("name", "tuple"):
            part = ret
        elif kind == "yields" and ret[0] in ("gen", "iter"):
            part = ret[1]
        elif kind == "receives" and ret[0] == "gen":
            part = ret[2]
    return len(part[1]) if part is not None and part[0] == "tuple" else 10 ** 6


def fallback_documented(kind: str, parent: dict) -> bool:
    """Is the parent-annotation fallback of a Returns/Yields/Receives item documented for this parent?"""
    ret = parent.get("ret")
    if ret is None:
        return True                      # nothing to fetch: None either way
    return (kind == "returns" and ret[0] in ("name", "tuple")) or (kind == "yields" and ret[0] in ("gen", "iter")) or (kind == "receives" and ret[0] == "gen")


def expected_sections(doc: dict, opts: dict, parent_obj=None) -> list:
    style, parent = doc["style"], doc["parent"]
    out = []
    for si, sec in enumerate(doc["sections"]):
        k = sec["k"]
        if k == "text":
            lines = sec["lines"]
            if si == 0 and opts.get("ignore_init_summary") and parent["kind"] == "init":
                lines = lines[2:]
                if not lines:
                    continue
            out.append({"kind": "text", "value": "\n".join(lines)})
        elif k == "admonition":
            title = sec["title"] if sec.get("title") else sec["header"]
            out.append({"kind": "admonition", "title": title,
                        "value": {"annotation": kind_of_admonition(sec["header"], style), "description": "\n".join(sec["lines"])}})
        elif k == "examples":
            trim = opt(opts, "trim_doctest_flags")
            val = []
            for ck, ls in sec["chunks"]:
                if ck == "examples" and trim:
                    ls = [re.sub(r"\s*#\s*doctest:.+$", "", l) for l in ls]
                val.append([ck, "\n".join(ls)])
            d = {"kind": "examples", "value": val}
            if sec.get("title"):
                d["title"] = sec["title"]
            out.append(d)
        elif k == "deprecated":
            out.append({"kind": "deprecated", "value": {"annotation": sec["version"], "description": "\n".join(sec["lines"])}})
        else:
            items = []
            n = len(sec["items"])
            for i, it in enumerate(sec["items"]):
                desc = "\n".join(it["desc"])
                name, ann = it["name"], it["ann"]
                e: dict = {}
                if k in ("parameters", "other parameters"):
                    written_default = it["default"]
                    if "choices" in it:
                        # the set of allowed values is the annotation (as parse_docstring_annotation prints it), the first one the default
                        ann, written_default = choices_annotation(it["choices"], parent_obj), it["choices"][0]
                    for nm in [name, *it.get("more_names", [])]:
                        p = parent_param(parent, nm)
                        e = {"name": nm, "annotation": ann if ann is not None else (p["ann"] if p else None)}
                        default = written_default if written_default is not None else parent_default(p)
                        e["description"] = desc
                        if default is not None:
                            e["value"] = default
                        items.append(e)
                    continue
                elif k == "attributes":
                    a = next((a for a in parent.get("attrs", []) if a["name"] == name), None)
                    e["name"] = name
                    e["annotation"] = ann if ann is not None else (a["ann"] if a else None)
                elif k in ("functions", "classes", "modules"):
                    e["name"] = name
                    e["annotation"] = ann
                elif k in ("raises", "warns"):
                    e["annotation"] = ann
                else:
                    e["name"] = name or ""
                    e["annotation"] = ann if ann is not None else fallback_annotation(k, parent, n, i)
                e["description"] = desc
                items.append(e)
            d = {"kind": k, "value": items}
            if sec.get("title"):
                d["title"] = sec["title"]
            out.append(d)
    if doc["sections"] and "prop_type" in doc["sections"][0]:
        out.append({"kind": "returns", "value": [{"name": "", "annotation": doc["sections"][0]["prop_type"], "description": ""}]})
    return out


# ------------------------------------------------------------------ the implementation's answer, canonicalised
def _ann(x):
    return None if x is None else str(x)


def impl_sections(text: str, parent_obj, style: str, opts: dict) -> list:
    import griffe
    ds = griffe.Docstring(text, parent=parent_obj, lineno=1)
    return canon_sections(ds.parse(style, **opts))


def canon_sections(sections) -> list:
    out = []
    for s in sections:
        d = s.as_dict()
        v = d["value"]
        if isinstance(v, list):
            vv = []
            for x in v:
                if hasattr(x, "as_dict"):
                    e = dict(x.as_dict())
                    e["annotation"] = _ann(e.get("annotation"))
                    if "value" in e:
                        e["value"] = str(e["value"])
                    vv.append(e)
                else:                                   # examples: (kind, text)
                    vv.append([x[0].value, x[1]])
            v = vv
        elif hasattr(v, "as_dict"):
            v = dict(v.as_dict())
            v["annotation"] = _ann(v.get("annotation"))
        d["value"] = v
        out.append(d)
    return out


# ------------------------------------------------------------------ known findings: exact defective behaviour
def adjust_known(doc: dict, exp: list, opts: dict) -> tuple[list, set]:
    """Rewrite the expectation the way the still-known defects of the tree distort it (C13-F5, C13-F6; F1-F4, F7, F9 and F10 are repaired
    and have no classifier any more).

    Returns (adjusted expectation, ids of the findings whose gap predicate holds somewhere in this document).
    A mismatch is a *known* finding only when the implementation equals the adjusted expectation exactly.
    """
    exp = json.loads(json.dumps(exp))
    hit: set = set()
    style, parent = doc["style"], doc["parent"]
    ei = 0
    pairs = []
    for si, sec in enumerate(doc["sections"]):
        if sec["k"] == "text" and si == 0 and opts.get("ignore_init_summary") and parent["kind"] == "init" and len(sec["lines"]) <= 2:
            continue
        pairs.append((sec, exp[ei]))
        ei += 1
    for sec, e in pairs:
        k = sec["k"]
        if style == "numpy" and k in ("returns", "yields", "receives"):
            # C13-F5: a bare `name` line (documented as "just the name") matches only the last alternative of _RE_RETURNS: it is the type
            for it, ee in zip(sec["items"], e["value"]):
                if it["name"] is not None and it["ann"] is None and it["just_name_form"] == "bare":
                    ee["name"], ee["annotation"] = "", it["name"]
                    hit.add("C13-F5")
        if style == "numpy" and k in ("yields", "receives") and len(sec["items"]) == 1 and sec["items"][0]["ann"] is None \
                and not (sec["items"][0]["name"] is not None and sec["items"][0]["just_name_form"] == "bare") \
                and fallback_arity(k, parent) < 10 ** 6:
            # C13-F6: a single Yields/Receives item documenting a tuple-typed value gets the first tuple element (index 0) only
            ret = parent["ret"]
            part = ret[1] if k == "yields" else ret[2]
            e["value"][0]["annotation"] = part[1][0]
            hit.add("C13-F6")
    return exp, hit


# ------------------------------------------------------------------ Sphinx (field lists)
def gen_sphinx_doc(g: Gen) -> dict:
    rng = g.rng
    pk = rng.choice(["func", "func", "cls", "none", "mod"])
    parent = gen_parent(g, pk)
    groups: list[tuple[dict, dict | None]] = []
    used_p: set = set()
    used_v: set = set()

    def desc():
        first = g.first_line()
        if rng.random() < 0.08:
            first = f":class:`{g.word()}` {first}"       # an inline role right after the field marker
        rest = []
        for _ in range(rng.choice([0, 0, 0, 1, 2, 3])):
            if rest and rest[-1] != "" and rng.random() < 0.15:
                rest.append("")
            rest.append(g.cont_line("sphinx"))
        return [first, *rest]

    def pick(cands: list, mine: set, other: set, prefix: str) -> str:
        """A name to document: from the parent, or one already documented as the OTHER kind (a class docstring
        documents `path` as constructor parameter and as attribute), or unknown to the parent."""
        r = rng.random()
        cross = sorted(other - mine)
        if cands and r < 0.6:
            name = rng.choice(cands)
        elif cross and r < 0.85:
            name = rng.choice(cross)
        else:
            name = g.ident(prefix)
        mine.add(name)
        return name
    kinds = {"func": ["param", "param", "raises", "returns", "var"], "cls": ["var", "var", "param", "param"], "mod": ["var"],
             "none": ["param", "var", "raises", "returns"]}[pk]
    have_ret = False
    for _ in range(rng.choice([0, 1, 2, 3, 4, 6])):
        k = rng.choice(kinds)
        if k == "param":
            name = pick([p["name"] for p in parent.get("params", []) if p["name"] not in used_p and not p["star"]], used_p, used_v, "x")
            inline = rng.choice(["int", "str", "Foo", "a.B", "list[int]"]) if rng.random() < 0.25 else None
            f = {"f": "param", "field": rng.choice(SPHINX_FIELDS["param"]), "name": name, "inline": inline, "desc": desc()}
            t = None
            if inline is None and rng.random() < 0.45:
                t = {"f": "type", "name": name, "ann": rng.choice(ANNOTS)}
            groups.append((f, t))
        elif k == "var":
            name = pick([a["name"] for a in parent.get("attrs", []) if a["name"] not in used_v], used_v, used_p, "v")
            f = {"f": "var", "field": rng.choice(SPHINX_FIELDS["var"]), "name": name, "desc": desc()}
            t = {"f": "vartype", "name": name, "ann": rng.choice(ANNOTS)} if rng.random() < 0.45 else None
            groups.append((f, t))
        elif k == "raises":
            groups.append(({"f": "raises", "field": rng.choice(SPHINX_FIELDS["raises"]), "exc": rng.choice(EXCEPTIONS), "desc": desc()}, None))
        elif k == "returns" and not have_ret:
            have_ret = True
            f = {"f": "returns", "field": rng.choice(SPHINX_FIELDS["returns"]), "desc": desc()}
            t = {"f": "rtype", "ann": rng.choice(ANNOTS)} if rng.random() < 0.5 else None
            groups.append((f, t))
    fields: list[dict] = []
    if rng.random() < 0.7:
        # a type field next to the field it belongs to, before or after it
        for f, t in groups:
            if t and rng.random() < 0.3:
                fields += [t, f]
            else:
                fields += [f] + ([t] if t else [])
    else:
        # Sphinx imposes no order on fields: type fields anywhere in the list
        fields = [f for f, _ in groups]
        for _, t in groups:
            if t:
                fields.insert(rng.randint(0, len(fields)), t)
    for f in fields[:-1]:
        f["sep"] = rng.choice([0, 0, 0, 0, 0, 0, 1, 2])      # blank lines between fields
    return {"style": "sphinx", "parent": parent, "text": g.text_lines(fences=False), "fields": fields}


def render_sphinx(doc: dict) -> list[str]:
    out = list(doc["text"])
    if doc["fields"]:
        out.append("")
    for f in doc["fields"]:
        k = f["f"]
        if k == "param":
            head = f":{f['field']} " + (f["inline"] + " " if f["inline"] else "") + f["name"] + ":"
        elif k == "type":
            head = f":type {f['name']}:"
        elif k == "var":
            head = f":{f['field']} {f['name']}:"
        elif k == "vartype":
            head = f":vartype {f['name']}:"
        elif k == "raises":
            head = f":{f['field']} {f['exc']}:"
        elif k == "returns":
            head = f":{f['field']}:"
        else:
            head = ":rtype:"
        if "ann" in f:
            out.append(head + " " + f["ann"])
        else:
            out.append(head + " " + f["desc"][0])
            out += ["    " + l if l else "" for l in f["desc"][1:]]
        out += [""] * f.get("sep", 0)
    return out


def sphinx_desc(f: dict) -> str:
    """A Sphinx description comes back as its lines, each without its indentation, joined by single blanks (a blank
    line inside it therefore shows as two blanks); blank lines after the field belong to nothing."""
    return " ".join(l.lstrip(" ") for l in f["desc"])


def expected_sphinx(doc: dict, defects: bool = False) -> tuple[list, set]:
    """Sections in Sphinx's fixed order (text, parameters, attributes, returns, raises); descriptions exact (sphinx_desc).

    With defects=True the result is distorted the way finding C13-F8 does (a `:type:`/`:vartype:` field after its
    `:param:`/`:var:` is ignored when the parent already annotates the name)."""
    parent = doc["parent"]
    hit: set = set()
    params, attrs, raises, ret = [], [], [], None
    ptypes, vtypes, rtype = {}, {}, None
    pos = {}
    for i, f in enumerate(doc["fields"]):
        if f["f"] == "type":
            ptypes[f["name"]] = (f["ann"], i)
        elif f["f"] == "vartype":
            vtypes[f["name"]] = (f["ann"], i)
        elif f["f"] == "rtype":
            rtype = f["ann"]
        pos[id(f)] = i
    for i, f in enumerate(doc["fields"]):
        d = sphinx_desc(f) if "desc" in f else None
        if f["f"] == "param":
            p = parent_param(parent, f["name"])
            sig = p["ann"] if p else None
            ann = f["inline"]
            if ann is None and f["name"] in ptypes:
                ann, ti = ptypes[f["name"]]
                if defects and ti > i and sig is not None:
                    ann = sig
                    hit.add("C13-F8")
            if ann is None:
                ann = sig
            e = {"name": f["name"], "annotation": ann, "description": d}
            if p is not None and p["default"] is not None:
                e["value"] = p["default"]
            params.append(e)
        elif f["f"] == "var":
            a = next((a for a in parent.get("attrs", []) if a["name"] == f["name"]), None) if parent["kind"] in ("cls", "mod") else None
            sig = a["ann"] if a else None
            ann = None
            if f["name"] in vtypes:
                ann, ti = vtypes[f["name"]]
                if defects and ti > i and sig is not None:
                    ann = sig
                    hit.add("C13-F8")
            if ann is None:
                ann = sig
            attrs.append({"name": f["name"], "annotation": ann, "description": d})
        elif f["f"] == "raises":
            raises.append({"annotation": f["exc"], "description": d})
        elif f["f"] == "returns":
            ann = rtype
            if ann is None and parent["kind"] in ("func", "init", "gen"):
                ann = ann_text(parent.get("ret"))
            ret = {"name": "", "annotation": ann, "description": d}
    out = [{"kind": "text", "value": "\n".join(doc["text"])}]
    if params:
        out.append({"kind": "parameters", "value": params})
    if attrs:
        out.append({"kind": "attributes", "value": attrs})
    if ret:
        out.append({"kind": "returns", "value": [ret]})
    if raises:
        out.append({"kind": "raises", "value": raises})
    return out, hit


# ------------------------------------------------------------------ (T) tables regenerated from the source; pinned regex texts
from pathlib import Path as _Path
import ast as _ast

KNOWN_KIND_VALUES = {"parameters", "other parameters", "raises", "warns", "examples", "attributes", "functions", "classes",
                     "modules", "returns", "yields", "receives", "deprecated"}

# The regex texts (and flags) the hand-compiled functions of the Coq model were written from.  A changed regex in the
# source means the model may no longer be the code: the translator fails closed.
PINNED_REGEX = {
    "google": {
        "_RE_ADMONITION": (r"^(?P<type>[\w][\s\w-]*):(\s+(?P<title>[^\s].*))?\s*$", re.IGNORECASE),
        "_RE_NAME_ANNOTATION_DESCRIPTION": (r"^(?:(?P<name>\w+)?\s*(?:\((?P<type>.+?)\))?:\s*)?(?P<desc>.*)$", 0),
        "_RE_DOCTEST_BLANKLINE": (r"^\s*<BLANKLINE>\s*$", 0),
        "_RE_DOCTEST_FLAGS": (r"(\s*#\s*doctest:.+)$", 0),
    },
    "numpy": {
        "_RE_RETURNS": ("\n    (?:\n        (?P<nt_name>\\*{0,2}[_a-z][_a-z0-9]*)\\s*:\\s*(?P<nt_type>.+)  # name and type\n        |  # or\n"
                        "        (?P<name>\\*{0,2}[_a-z][_a-z0-9]*)\\s*:\\s*  # just name\n        |  # or\n        \\s*:\\s*$  # no name, no type\n"
                        "        |  # or\n        (?::\\s*)?(?P<type>.+)\\s*  # just type\n    )\n    ", re.IGNORECASE | re.VERBOSE),
        "_RE_PARAMETER": ("\n    (?P<names>\\*{0,2}[_a-z][_a-z0-9]*(?:,\\s\\*{0,2}[_a-z][_a-z0-9]*)*)\n    (?:\n        \\s:\\s\n        (?:\n"
                          "            (?:\\{(?P<choices>.+)\\})|\n            (?P<type>.+)\n        )?\n    )?\n    ", re.IGNORECASE | re.VERBOSE),
        "_RE_DOCTEST_BLANKLINE": (r"^\s*<BLANKLINE>\s*$", 0),
        "_RE_DOCTEST_FLAGS": (r"(\s*#\s*doctest:.+)$", 0),
    },
}
# the default-value regex is written inline in numpy._read_parameters: its text must occur in the source
PINNED_NUMPY_DEFAULT_REGEX = r"^(?P<annotation>.+),\s+default(?: |: |=)(?P<default>.+)$"
PINNED_SPHINX = {
    "_PARAM_NAMES": {"param", "parameter", "arg", "argument", "key", "keyword"}, "_PARAM_TYPE_NAMES": {"type"},
    "_ATTRIBUTE_NAMES": {"var", "ivar", "cvar"}, "_ATTRIBUTE_TYPE_NAMES": {"vartype"}, "_RETURN_NAMES": {"returns", "return"},
    "_RETURN_TYPE_NAMES": {"rtype"}, "_EXCEPTION_NAMES": {"raises", "raise", "except", "exception"},
}
PINNED_SPHINX_ORDER = ["_PARAM_TYPE_NAMES", "_PARAM_NAMES", "_ATTRIBUTE_TYPE_NAMES", "_ATTRIBUTE_NAMES", "_EXCEPTION_NAMES",
                       "_RETURN_NAMES", "_RETURN_TYPE_NAMES"]
TRANSLATOR_NAME = "harness/props/c13.py:translate"


def _section_kind_table(path: _Path, enum_values: dict) -> list[tuple[str, str]]:
    from harness.common.framework import TranslatorError
    tree = _ast.parse(path.read_text())
    for node in tree.body:
        if isinstance(node, _ast.Assign) and len(node.targets) == 1 and isinstance(node.targets[0], _ast.Name) \
                and node.targets[0].id == "_section_kind":
            if not isinstance(node.value, _ast.Dict):
                raise TranslatorError(f"{path.name}: _section_kind is not a dict literal")
            out = []
            for k, v in zip(node.value.keys, node.value.values):
                if not (isinstance(k, _ast.Constant) and isinstance(k.value, str)):
                    raise TranslatorError(f"{path.name}: _section_kind key is not a string literal")
                if not (isinstance(v, _ast.Attribute) and isinstance(v.value, _ast.Name) and v.value.id == "DocstringSectionKind"
                        and v.attr in enum_values):
                    raise TranslatorError(f"{path.name}: _section_kind value {_ast.unparse(v)} not understood")
                val = enum_values[v.attr]
                if val not in KNOWN_KIND_VALUES:
                    raise TranslatorError(f"{path.name}: section kind {val!r} has no reader in the model")
                if k.value != k.value.lower() or not k.value.isascii() or '"' in k.value:
                    raise TranslatorError(f"{path.name}: _section_kind key {k.value!r} is not lower-case ASCII")
                out.append((k.value, val))
            return out
    raise TranslatorError(f"{path.name}: no _section_kind assignment")


def translate(ctx):
    """Regenerate coq/Gen/C13_tables.v and compare the regexes / field-name sets with the copies the model was written from."""
    from harness.common.framework import REPO, VERIF, TranslatorError
    import importlib
    src = REPO / "src" / "_griffe"
    etree = _ast.parse((src / "enumerations.py").read_text())
    enum_values = {}
    for node in etree.body:
        if isinstance(node, _ast.ClassDef) and node.name == "DocstringSectionKind":
            for st in node.body:
                if isinstance(st, _ast.Assign) and isinstance(st.value, _ast.Constant) and isinstance(st.value.value, str):
                    enum_values[st.targets[0].id] = st.value.value
    if not enum_values:
        raise TranslatorError("enumerations.py: DocstringSectionKind not found")
    tables = {st: _section_kind_table(src / "docstrings" / f"{st}.py", enum_values) for st in ("google", "numpy")}
    lines = ["(* GENERATED by harness/props/c13.py:translate from src/_griffe/docstrings/{google,numpy}.py (_section_kind) - do not edit *)",
             "From Coq Require Import List String.", "Import ListNotations.", "Open Scope string_scope.", ""]
    for st, tb in tables.items():
        lines.append(f"Definition {st}_section_kind : list (string * string) :=")
        lines.append("  [" + ";\n   ".join(f'("{k}", "{v}")' for k, v in tb) + "].")
        lines.append("")
    out = VERIF / "coq" / "Gen" / "C13_tables.v"
    content = "\n".join(lines)
    if not out.exists() or out.read_text() != content:
        out.write_text(content)
    # pinned regexes: compare the compiled patterns of the modules under test
    problems = []
    for st, pins in PINNED_REGEX.items():
        mod = importlib.import_module(f"_griffe.docstrings.{st}")
        for name, (pat, flags) in pins.items():
            rx = getattr(mod, name, None)
            if rx is None or not hasattr(rx, "pattern"):
                problems.append(f"{st}.{name} is missing")
            elif rx.pattern != pat or (rx.flags & ~re.UNICODE) != flags:
                problems.append(f"{st}.{name} changed: {rx.pattern!r} flags={rx.flags}")
    if ('re.match(r"' + PINNED_NUMPY_DEFAULT_REGEX + '", annotation)') not in (src / "docstrings" / "numpy.py").read_text():
        problems.append("numpy._read_parameters: the default-value regex changed")
    sph = importlib.import_module("_griffe.docstrings.sphinx")
    for name, vals in PINNED_SPHINX.items():
        if set(getattr(sph, name, ())) != vals:
            problems.append(f"sphinx.{name} changed: {sorted(getattr(sph, name, ()))}")
    order = []
    for ft in getattr(sph, "_field_types", []):
        order.append(next((n for n, v in PINNED_SPHINX.items() if set(ft.names) == v), "?"))
    if order != PINNED_SPHINX_ORDER:
        problems.append(f"sphinx._field_types order changed: {order}")
    if problems:
        raise TranslatorError("; ".join(problems))
    return tables


# ------------------------------------------------------------------ abstraction: written structure / parent -> model terms
def _o(x):
    return [] if x is None else [x]


def _part_sexp(part):
    if part[0] == "name":
        return ["name", part[1]]
    return ["tuple", ann_text(part), list(part[1])]


def ctx_sexp(parent: dict):
    k = parent["kind"]
    params = attrs = None
    ret = ["none"]
    if k in ("func", "gen", "init"):
        params = [[p["name"], _o(p["ann"]), _o("()" if p["star"] == "*" else "{}" if p["star"] == "**" else p["default"])] for p in parent["params"]]
        attrs = []
        r = parent["ret"]
        if r is not None:
            if r[0] == "gen":
                ret = ["gen", ann_text(r), _part_sexp(r[1]), _part_sexp(r[2]), _part_sexp(r[3])]
            elif r[0] == "iter":
                ret = ["iter", ann_text(r), _part_sexp(r[1])]
            else:
                ret = ["plain", _part_sexp(r)]
    elif k == "cls":
        params = []                       # Class.parameters is the (empty) parameter list of a missing __init__
        attrs = [[a["name"], _o(a["ann"])] for a in parent["attrs"]]
    elif k == "mod":
        attrs = [[a["name"], _o(a["ann"])] for a in parent["attrs"]]
    elif k == "prop":
        attrs = []
        ret = ["plain", _part_sexp(parent["ret"])]
    return [_o(params), _o(attrs), ret]


def opts_sexp(opts: dict):
    return [opt(opts, "returns_multiple_items"), opt(opts, "returns_named_value"), opt(opts, "receives_multiple_items"),
            opt(opts, "receives_named_value"), opt(opts, "trim_doctest_flags")]


def wsecs_sexp(doc: dict, opts: dict | None = None):
    """The written structure as a term of the Coq type [list wsec]; None when the document uses something the
    Coq spec does not cover (Examples, `(type, optional)`, the `(type): ...` spelling of the unnamed mode)."""
    out = []
    for sec in doc["sections"]:
        k = sec["k"]
        if k == "text":
            if "prop_type" in sec:
                return None
            out.append(["text", sec["lines"]])
        elif k == "admonition":
            out.append(["adm", sec["header"], _o(sec.get("title")), sec["lines"]])
        elif k == "examples":
            out.append(["examples", opt(opts or {}, "trim_doctest_flags"), sec["header"], _o(sec.get("title")),
                        [[ck == "examples", ls] for ck, ls in sec["chunks"]]])
        elif k in ITEM_KINDS:
            items = []
            for it in sec["items"]:
                if it.get("optional") or it.get("parens"):
                    return None
                ann = it["ann"]
                if k in ("functions", "classes") and ann is not None:
                    ann = ann[len(it["name"]) + 1:-1]
                # blank lines that set the item apart from the next one are written after its continuation lines
                items.append([_o(it["name"]), _o(ann), it["desc"][0], it["desc"][1:] + [""] * it.get("sep", 0)])
            if sec["single"] or not sec["named"]:
                # a Returns / Yields / Receives section written for non-default option values
                out.append(["ret", not sec["single"], sec["named"], k, sec["header"], _o(sec.get("title")), items])
            else:
                out.append(["items", k, sec["header"], _o(sec.get("title")), items])
        else:
            return None
    return out


def model_shape(secs: list) -> list:
    """Canonicalised implementation sections -> the shape the model prints."""
    out = []
    for s in secs:
        k, v = s["kind"], s["value"]
        if k == "text":
            out.append(["text", v])
        elif k == "admonition":
            out.append(["adm", v["annotation"], s.get("title") or "", v["description"]])
        elif k == "examples":
            out.append(["examples", _o(s.get("title")), [[1 if ck == "examples" else 0, t] for ck, t in v]])
        elif k == "deprecated":
            out.append(["items", "deprecated", [], [[[], _o(v["annotation"]), v["description"], []]]])
        else:
            out.append(["items", k, _o(s.get("title")),
                        [[_o(e.get("name")), _o(e.get("annotation")), e["description"], _o(e.get("value"))] for e in v]])
    return out


# ------------------------------------------------------------------ (O) the model's string functions vs CPython
ALPHABET = list(" :()aB_-1,#op.>`<") + [" ", " ", ":", "\t"]
PHRASES = [" or ", ", optional", "doctest:", "<BLANKLINE>", "):", " (", "```", ">>> ", "# doctest: +SKIP", "Note", "See also", "(int)", "x", "\x0c", "\x1c", "\r", "\x0b", "\x1e", "\x1f"]


def rand_string(rng, maxlen=14, nl=False) -> str:
    out = []
    for _ in range(rng.randint(0, maxlen)):
        r = rng.random()
        if r < 0.12:
            out.append(rng.choice(PHRASES))
        elif nl and r < 0.2:
            out.append(rng.choice(["\n", "\n", "\r\n", "\n\r"]))
        else:
            out.append(rng.choice(ALPHABET))
    return "".join(out)


def _split1(s, c):
    return list(s.split(c, 1)) if c in s else None


def py_string_oracle(name: str, args: list):
    g = {n: re.compile(p, f) for n, (p, f) in PINNED_REGEX["google"].items()}
    s = args[-1]
    if name == "lstrip":
        return s.lstrip()
    if name == "rstrip":
        return s.rstrip()
    if name == "strip":
        return s.strip()
    if name == "rstrip_nl":
        return s.rstrip("\n")
    if name == "lstrip_sp":
        return s.lstrip(" ")
    if name == "strip_parens":
        return s.strip("()")
    if name == "remove_optional":
        return s.removesuffix(", optional")
    if name == "lower":
        return s.lower()
    if name == "is_empty_line":
        return int(not s.strip())
    if name == "indent_of":
        return len(s) - len(s.lstrip())
    if name == "split_colon":
        return _o(_split1(s, ":"))
    if name == "split_space":
        return _o(_split1(s, " "))
    if name == "split_lparen":
        return _o(_split1(s, "("))
    if name == "split_nl":
        return s.split("\n")
    if name == "splitlines":
        return s.splitlines()
    if name == "trim_flags":
        return g["_RE_DOCTEST_FLAGS"].sub("", s)
    if name == "trim_blankline":
        return g["_RE_DOCTEST_BLANKLINE"].sub("", s)
    if name == "dashify":
        return s.lower().replace(" ", "-")
    if name == "replace_or":
        return s.replace(" or ", " | ")
    if name == "split_all_sp":
        return s.split(" ")
    if name == "re_admonition":
        m = g["_RE_ADMONITION"].match(s)
        return [] if m is None else [[m.group("type"), _o(m.group("title"))]]
    if name == "re_nad":
        m = g["_RE_NAME_ANNOTATION_DESCRIPTION"].match(s)
        n, t, d = m.groups()
        return [_o(n), _o(t), d]
    if name == "unnamed":
        if ":" in s:
            a, d = s.split(":", 1)
            a = a.lstrip("(").rstrip(")")
        else:
            a, d = None, s
        return [[], _o(a), "\n".join([d.lstrip()]).rstrip("\n")]
    if name == "is_dash_line":
        return int(bool(s.strip()) and not s.replace("-", "").strip())
    if name == "re_parameter":
        m = re.compile(*PINNED_REGEX["numpy"]["_RE_PARAMETER"]).match(s)
        return [] if m is None else [[m.group("names"), _o(m.group("choices")), _o(m.group("type"))]]
    if name == "re_returns":
        m = re.compile(*PINNED_REGEX["numpy"]["_RE_RETURNS"]).match(s)
        if m is None:
            return []
        gd = m.groupdict()
        return [[_o(gd["nt_name"] or gd["name"]), _o(gd["nt_type"] or gd["type"])]]
    if name == "find_default":
        m = re.match(PINNED_NUMPY_DEFAULT_REGEX, s)
        return [] if m is None else [[m.group("annotation"), m.group("default")]]
    if name == "split_cs":
        return s.split(", ")
    if name == "dedent":
        import textwrap
        return textwrap.dedent(s)
    if name == "n_adm_kind":
        k = s.lower().replace(" ", "-")
        return k[:-1] if k in ("warnings", "notes") else k
    if name == "startswith":
        return int(s.startswith(args[0]))
    if name == "endswith":
        return int(s.endswith(args[0]))
    if name == "removesuffix":
        return s.removesuffix(args[0])
    raise KeyError(name)


NUMPY_ARG = ["is_dash_line", "re_parameter", "re_returns", "find_default", "split_cs", "n_adm_kind"]
NUMPY_NL_ARG = ["dedent"]
NP_ALPHABET = list(" :*{},=ab_1-x") + [" ", " ", ":", "\t", ","]
NP_PHRASES = [", ", " : ", "default", ", default ", ", default: ", ", default=", ", optional", "**", "{a, b}", "---", "    ", "  ", "\t", "Notes",
              "Warnings", "a, b", " :", ": ", "\x0c", "\r", "x", "Z9"]


def rand_string_np(rng, maxlen=12, nl=False) -> str:
    out = []
    for _ in range(rng.randint(0, maxlen)):
        r = rng.random()
        if r < 0.3:
            out.append(rng.choice(NP_PHRASES))
        elif nl and r < 0.45:
            out.append("\n")
        else:
            out.append(rng.choice(NP_ALPHABET))
    return "".join(out)


ONE_ARG = ["lstrip", "rstrip", "strip", "rstrip_nl", "lstrip_sp", "strip_parens", "remove_optional", "lower", "is_empty_line",
           "indent_of", "split_colon", "split_space", "split_lparen", "trim_flags", "trim_blankline", "dashify", "re_admonition",
           "re_nad", "unnamed", "replace_or", "split_all_sp"]
NL_ARG = ["split_nl", "splitlines", "rstrip_nl"]
TWO_ARG = ["startswith", "endswith", "removesuffix"]


def check_string_oracle(ctx, n: int):
    cases = []
    for i in range(n):
        r = i % (len(ONE_ARG) + len(NL_ARG) + len(TWO_ARG))
        if r < len(ONE_ARG):
            cases.append((ONE_ARG[r], [rand_string(ctx.rng)]))
        elif r < len(ONE_ARG) + len(NL_ARG):
            cases.append((NL_ARG[r - len(ONE_ARG)], [rand_string(ctx.rng, nl=True)]))
        else:
            s = rand_string(ctx.rng)
            p = rand_string(ctx.rng, 4) if ctx.rng.random() < 0.5 else (s[:ctx.rng.randint(0, len(s))] if ctx.rng.random() < 0.5 else s[ctx.rng.randint(0, len(s)):])
            cases.append((TWO_ARG[r - len(ONE_ARG) - len(NL_ARG)], [p, s]))
    for i in range(n // 3):
        if i % 7 == 6:
            cases.append(("dedent", [rand_string_np(ctx.rng, 16, nl=True)]))
        else:
            cases.append((NUMPY_ARG[i % 7 % len(NUMPY_ARG)], [rand_string_np(ctx.rng)]))
    # the model's re_nad/unnamed return the description before the join/rstrip of the caller: lstrip only
    outs = ctx.model([["str", name, *args] for name, args in cases])
    for (name, args), mo in zip(cases, outs):
        py = py_string_oracle(name, args)
        if name in ("re_nad", "unnamed"):
            py = [py[0], py[1], py[2]]
        ctx.count("string_oracle_cases")
        ctx.observe("string_fn", name)
        if mo != py:
            ctx.tie_failure("oracle", f"model {name} vs CPython", {"args": args, "model": mo, "cpython": py}, {"fn": name, "args": args})


# ------------------------------------------------------------------ check module interface
LEVEL_TEXT = ("Machine-checked round-trip theorems at character level for all three styles, each of the form parse(render(written)) = written "
              "for every parent and every written structure satisfying a decidable well-formedness predicate. Google, under EVERY value of the "
              "four item options (returns/receives_multiple_items, returns/receives_named_value) and of trim_doctest_flags, every indentation >= 1: "
              "free text with fenced code blocks, item sections (Parameters, Other Parameters, Raises, Warns, Attributes, Functions, Classes, Modules, "
              "Returns, Yields, Receives written the way the options in force prescribe; all aliases of the keyword table regenerated from google.py; "
              "optional section titles; blank lines between items), Examples (prose / console chunks, doctest flags) and admonitions: kinds in "
              "written order, titles, names, annotations written or taken from the signature, defaults, multi-line / blank-line / deeper-indented "
              "descriptions; no hypothesis besides well-formedness. Numpy (default options): optional leading text with fenced code, item sections "
              "(parameters documented together, `, optional`, three default spellings, the four name/type spellings of Returns items, dash-only "
              "lines inside descriptions, blank lines between items), Examples, admonitions and Deprecated sections, modulo the decidable known gap "
              "C13-F6. Sphinx: the full field list (:param: with optional inline type, :type:, :var:, :vartype:, :raises:, :returns:, :rtype: under "
              "every alias, any order, blank lines inside and after descriptions, one name as parameter and attribute), result grouped in Sphinx's "
              "fixed order with the documented annotation precedence, modulo the decidable known gap C13-F8. Corollaries: no-leak (section i parses "
              "as it does alone; Google, Numpy), signature fallback (Google: per tuple element by the NUMBER of documented items under any option "
              "values; Numpy: per name for combined parameters). Findings F5, F6, F8 are refuted by witness inside the models; the witnesses of the "
              "repaired findings F1, F2 are proved to round-trip. The models (the three parsers' main loops, block readers, every item reader, all "
              "regexes hand-compiled incl. the default-value regex, textwrap.dedent, Examples readers, option modes) are tied to the code by "
              "differential runs on rendered and perturbed docstrings of each style, their string functions to CPython str/re/textwrap, their "
              "renderers, expectations and gap predicates to the harness's, and every generated theorem instance (Google ~1250, Numpy ~730, Sphinx "
              "~580 per quick run) is replayed on the implementation. Histories: a Coq state machine over several docstrings that reference shared "
              "option dictionaries (parse with per-call options, .parsed, writes into a configured dictionary, assignment of a new dictionary) "
              "with theorems for ALL histories: parse and parsed never change a configured dictionary or a reference; a parse after any history is "
              "parse_pure of the current configuration; the three round-trip theorems hold after any history of parse calls; parsed is cached. "
              "The history stream (docstrings created by griffe.visit with one shared docstring_options dict) is compared with a fresh docstring "
              "per call and with the extracted state machine (observations, final dictionaries, references).")
LEVEL_NOTE = ("Trusted: Coq kernel, extraction, this harness (generators, renderers = documented syntax, expectation, canonicalisation). Annotation "
              "strings are compared as str(parse_docstring_annotation(x)) - expression parsing/printing is C03's subject; generated annotations are in "
              "canonical form (a Numpy choices item `{a, b}` is compared modulo that function). The theorems cover printable ASCII; the Numpy and "
              "Sphinx theorems default options (Sphinx has none that changes the result). Not in any theorem but in the models and the "
              "differential checks: Google `(type, optional)` and the `(type): ...` spelling of the unnamed mode, Numpy choices items, Numpy "
              "trim_doctest_flags=False and ignore_init_summary; checked directly only: Google ignore_init_summary and "
              "returns_type_in_property_summary, non-ASCII text and characters at which str.splitlines cuts (the model covers the ASCII ones). The "
              "Numpy written structure has no spelling for the bare `name` form of a Returns item (finding C13-F5: read as the type). Known findings "
              "C13-F5, F6, F8 carry exact defect-adjusted expectations in the direct check (F6, F8 are also the gap predicates of the theorems and "
              "are compared with the harness classifiers on every case), so any other deviation still alarms. Findings C13-F1, F2, F3, F4, F7, F9, "
              "F10 are repaired in the source; their witnesses are must-pass corpus cases (corpus/C13).")
MODEL = ("Model.C13_run", "run_C13")
COQ_TARGETS = ["Proofs/C13_strings.vo", "Proofs/C13_google.vo", "Proofs/C13_sphinx.vo", "Proofs/C13_numpy.vo", "Proofs/C13_sphinx_full.vo", "Proofs/C13_history.vo"]
MODEL_TARGETS = ["Model/C13_run.vo"]        # not a dependency of the proofs: rebuilt when Gen/C13_tables.v changes
RULE = ("seeded generation of written structures: parent (function with 0-4 annotated/defaulted/starred parameters and name/tuple return, generator "
        "or iterator, class/module with attributes, __init__, property, none) x 0-6 sections drawn from the kinds fitting the parent (10% any kind) in any "
        "order, 1-4 items each, names from the signature or unknown, annotations from 15 spellings, descriptions of 1-6 lines with blank lines, "
        "deeper indentation, colons, '):', section keywords, markup; section titles, aliases and letter case; admonitions with titles; Examples with "
        "prose/console chunks and doctest flags; free text with paragraphs, colon lines and fenced code; Google indentation 1/2/3/4/8; docstring "
        "embedded as in source (cleandoc); blank lines between items / fields; Numpy parameters documented together, `, optional`, choices, three "
        "default spellings. Rendered per style in the documented syntax, parsed under random documented options (Google 8, Numpy 3, Sphinx 1); "
        "Sphinx: free text then 0-6 groups of param/type, var/vartype, raises, returns/rtype fields under random aliases, the same name as "
        "parameter and attribute, type fields next to their field or anywhere. Second stream per style: perturbed renderings (dropped/added blank "
        "lines, shifted indentation, removed colons, damaged dash lines and item heads, duplicated or foreign fields) for model-vs-code only. "
        "Third stream per style: the same structures over arbitrary text (vertical tab, form feed, FS/GS/RS, lone CR, NEL, U+2028/9, non-ASCII "
        "letters inside words). Histories: docstrings created by griffe.visit with one shared docstring_options dict per load (and some on their own), "
        "3-9 parse / .parsed calls with per-call options, each compared with a fresh Docstring given the same configured and per-call options; "
        "configured dicts must stay unchanged. non-trivial = at least one non-text section; distinct by (style, options, text)")
TRUSTED = ["abstraction: harness/props/c13.py ctx_sexp / wsecs_sexp / nsecs_sexp / xfields_sexp map the generated parent and written structure to the model's "
           "pctx / list wsec / list nsec / list xfield; doc_lines = inspect.cleandoc(text.rstrip()).split('\\n') is the specification of the parsers' input lines",
           "translator harness/props/c13.py:translate (keyword tables from the _section_kind dict literals; regex texts incl. the inline default-value "
           "regex of numpy._read_parameters and Sphinx field-name sets pinned, fail closed)",
           "str(parse_docstring_annotation(text)) = text for the generated annotation spellings (checked on every case by the direct evaluation)"]
ASSUMPTIONS = ["theorems: docstring lines are printable ASCII (the well-formedness predicates require it; the models' string functions agree with CPython on all "
               "ASCII incl. tab, VT, FF, CR, FS-US; text outside ASCII is checked directly against the implementation only)",
               "the docstring has an unindented line after its first line, otherwise inspect.cleandoc removes the indentation of the section body "
               "(a property of cleandoc, not of the parsers); the generator adds a summary line in that case",
               "free text does not start an indented block after a `word:` line (that is the documented admonition syntax) and comes first in Numpy / Sphinx "
               "docstrings (later text belongs to the preceding block by design)",
               "Returns/Yields/Receives items document at most as many values as the parent's tuple annotation has elements when they rely on it"]

FINDING_WITNESS = {
    "C13-F5": ("numpy", "Summary.\n\nReturns\n-------\nsuccess\n    Whether it succeeded.\n", {},
               lambda s: s[1]["value"][0]["name"] == "" and s[1]["value"][0]["annotation"] == "success"),
}

# witnesses of the repaired findings: corpus cases that must PASS (corpus/C13/fixed_witnesses.json)
CORPUS = "corpus/C13/fixed_witnesses.json"


def replay_corpus(ctx):
    from harness.common.framework import VERIF
    import griffe
    path = VERIF / CORPUS
    if not path.exists():
        ctx.tie_failure("harness", "corpus", f"{CORPUS} is missing")
        return
    for case in json.loads(path.read_text())["cases"]:
        parent = None
        if case.get("parent_source"):
            obj = griffe.visit("m", filepath=None, code=case["parent_source"])
            for n in case["parent_path"]:
                obj = obj.members[n]
            parent = obj
        got = _impl(case["text"], parent, case["style"], case.get("options") or {})
        ctx.count("corpus_cases")
        ctx.case({"corpus": case["id"]}, True)
        if got != case["expected"]:
            ctx.property_failure({"style": case["style"], "options": case.get("options") or {}, "text": case["text"],
                                  "parent": {"kind": "none"}, "corpus": case["id"], "parent_source": case.get("parent_source"),
                                  "parent_path": case.get("parent_path")},
                                 {"repaired_finding_returned": case["id"], "expected": case["expected"], "got": got})


def replay_witnesses(ctx):
    import griffe
    for fid, w in FINDING_WITNESS.items():
        style, text, opts, pred = w
        try:
            ok = bool(pred(impl_sections(text, None, style, opts)))
        except Exception:  # noqa: BLE001
            ok = False
        ctx.witness(fid, ok)
    try:
        m = griffe.visit("m", filepath=None, code="from typing import Iterator\ndef f() -> Iterator[tuple[int, str]]: ...\n")
        s = impl_sections("Summary.\n\nYields\n------\n:\n    Both.\n", m["f"], "numpy", {})
        ctx.witness("C13-F6", s[1]["value"][0]["annotation"] == "int")
    except Exception:  # noqa: BLE001
        ctx.witness("C13-F6", False)
    try:
        m = griffe.visit("m", filepath=None, code="def f(a: int): ...\n")
        s = impl_sections("Summary.\n\n:param a: The a.\n:type a: str\n", m["f"], "sphinx", {})
        ctx.witness("C13-F8", s[1]["value"][0]["annotation"] == "int")
    except Exception:  # noqa: BLE001
        ctx.witness("C13-F8", False)


def random_opts(rng, style: str) -> dict:
    opts = {}
    if style == "google":
        for o in GOOGLE_OPTS[:6]:
            if rng.random() < 0.22:
                opts[o] = rng.random() < 0.5
        r = rng.random()
        if r < 0.05:
            opts["ignore_init_summary"] = True
        elif r < 0.09:
            opts["returns_type_in_property_summary"] = True
        elif r < 0.12:
            opts[rng.choice(GOOGLE_OPTS[6:])] = False
    elif style == "numpy":
        for o in NUMPY_OPTS[:2]:
            if rng.random() < 0.2:
                opts[o] = rng.random() < 0.5
        if rng.random() < 0.06:
            opts["ignore_init_summary"] = True
    else:
        if rng.random() < 0.3:
            opts["warn_unknown_params"] = rng.random() < 0.5
    return opts


def _case_json(style, opts, doc, text):
    return {"style": style, "options": opts, "parent": doc["parent"], "text": text,
            "written": doc.get("sections", doc.get("fields"))}


def _direct(ctx, style, opts, doc, text, got, exp, adj, hit):
    """Implementation vs what was written."""
    case = _case_json(style, opts, doc, text)
    if got == exp:
        return True
    if hit and got == adj:
        for h in sorted(hit):
            ctx.property_failure(case, {"expected": exp, "got": got}, finding=h)
            ctx.observe("known_finding", h)
        return True
    first = next((i for i, (a, b) in enumerate(zip(got, adj)) if a != b), min(len(got), len(adj))) if isinstance(got, list) else 0
    ctx.property_failure(case, {"first_difference_at_section": first,
                                "expected": adj[first:first + 1] if isinstance(adj, list) else adj,
                                "got": got[first:first + 1] if isinstance(got, list) else got,
                                "known_gaps_present": sorted(hit)})
    return False


def _impl(text, parent_obj, style, opts):
    try:
        return impl_sections(text, parent_obj, style, opts)
    except Exception as e:  # noqa: BLE001
        return ["exception", type(e).__name__, str(e)[:200]]


def _norm_ann_secs(shape, parent_obj):
    """Perturbed stream only: annotations go through parse_docstring_annotation (C03's domain) on both sides."""
    import griffe
    from _griffe.docstrings.utils import parse_docstring_annotation
    ds = griffe.Docstring("", parent=parent_obj)
    out = json.loads(json.dumps(shape))
    for s in out:
        if s[0] == "items":
            for e in s[3]:
                e[1] = [str(parse_docstring_annotation(a, ds)).replace(" ", "") for a in e[1]]
    return out


def perturb(rng, lines: list[str]) -> str:
    lines = list(lines)
    for _ in range(rng.randint(1, 3)):
        if not lines:
            break
        i = rng.randrange(len(lines))
        r = rng.random()
        if r < 0.2:
            del lines[i]
        elif r < 0.35:
            lines.insert(i, "")
        elif r < 0.5:
            lines[i] = " " * rng.randint(1, 5) + lines[i]
        elif r < 0.65:
            lines[i] = lines[i].lstrip(" ")
        elif r < 0.75:
            lines[i] = lines[i][1:] if lines[i].startswith(" ") else " " + lines[i]
        elif r < 0.85:
            lines.insert(i, lines[i])
        elif r < 0.92:
            lines[i] = lines[i].replace(":", "", 1)
        else:
            lines[i] = lines[i] + rng.choice([":", " (x):", "):", "  "])
    return "\n".join(lines)


def doc_lines(text: str) -> list[str]:
    """The lines of a docstring as the parsers must see them: the cleaned text cut at "\n" and nowhere else
    (computed here, not read from Docstring.lines, so that the model is fed by the specification of a line)."""
    return inspect.cleandoc(text.rstrip()).split("\n")


def model_ok(text: str) -> bool:
    """The Coq model is over ASCII."""
    return text.isascii()


def explore_google(ctx, n: int, with_model: bool = True, exotic: float = 0.0):
    import griffe
    logging.disable(logging.CRITICAL)
    g = Gen(ctx.rng, exotic)
    batch = []
    for _ in range(n):
        opts = random_opts(ctx.rng, "google")
        doc = gen_doc(g, "google", opts)
        lines = render_google(doc)
        text = embed(lines, ctx.rng)
        batch.append((opts, doc, lines, text))
    results = []
    for opts, doc, lines, text in batch:
        parent_obj = build_parent(doc["parent"])
        got = _impl(text, parent_obj, "google", opts)
        exp = expected_sections(doc, opts)
        adj, hit = adjust_known(doc, exp, opts)
        ok = _direct(ctx, "google", opts, doc, text, got, exp, adj, hit)
        kinds = [s["k"] for s in doc["sections"]]
        ctx.case({"style": "google", "options": opts, "text": text}, any(k != "text" for k in kinds))
        for k in kinds:
            ctx.observe("google_section", k)
        ctx.observe("google_n_sections", len(kinds))
        ctx.observe("google_parent", doc["parent"]["kind"])
        ctx.observe("google_indent", doc["indent"])
        for o, v in opts.items():
            ctx.observe("google_option", f"{o}={v}")
        ctx.count("google_cases" if not exotic else "google_exotic_cases")
        results.append((opts, doc, lines, text, parent_obj, got, exp))
    if not with_model:
        return
    # (C) model parse vs implementation on the lines the parser sees
    mc = [r for r in results if not r[0].get("ignore_init_summary") and not r[0].get("returns_type_in_property_summary") and model_ok(r[3])]
    outs = ctx.model([["gparse", opts_sexp(o), ctx_sexp(d["parent"]), doc_lines(t)] for o, d, l, t, p, got, exp in mc])
    for (o, d, l, t, p, got, exp), mo in zip(mc, outs):
        impl = ["ok", model_shape(got)] if not (got and got[0] == "exception") else ["err", got[1]]
        ctx.count("google_model_vs_impl")
        if mo != impl:
            ctx.tie_failure("correspondence", "parse_google(model) vs Docstring.parse('google')", {"model": mo, "impl": impl},
                            _case_json("google", o, d, t))
    # (C) render / expectation / theorem instances
    ws = [(r, wsecs_sexp(r[1], r[0])) for r in results]
    ws = [(r, w) for r, w in ws if w is not None and model_ok(r[3]) and not (set(r[0]) & {"ignore_init_summary", "returns_type_in_property_summary"})]
    m_render = ctx.model([["grender", r[1]["indent"], w] for r, w in ws])
    m_expect = ctx.model([["gexpect", ctx_sexp(r[1]["parent"]), w] for r, w in ws])
    m_wf = ctx.model([["gwf", opts_sexp(r[0]), ctx_sexp(r[1]["parent"]), w] for r, w in ws])
    m_parse = ctx.model([["gparse", opts_sexp(r[0]), ctx_sexp(r[1]["parent"]), r[2]] for r, w in ws])
    for ((o, d, l, t, p, got, exp), w), mr, me, mw, mp in zip(ws, m_render, m_expect, m_wf, m_parse):
        case = _case_json("google", o, d, t)
        ctx.count("google_spec_cases")
        ctx.observe("google_wf", f"wf={mw} modes={'default' if all(opts_sexp(o)[:4]) else 'other'}")
        if mr != l:
            ctx.tie_failure("correspondence", "render_google(model) vs harness renderer", {"model": mr, "harness": l}, case)
        if me != model_shape(exp):
            ctx.tie_failure("correspondence", "expect_google(model) vs harness expectation", {"model": me, "harness": model_shape(exp)}, case)
        if mw:
            ctx.count("google_theorem_instances")
            if mp != ["ok", me]:
                ctx.tie_failure("correspondence", "instance of C13_google_roundtrip fails in the extracted model", {"parse": mp, "expect": me}, case)
            if got != exp:
                # a well-formed document (no known gap) must round-trip on the implementation
                ctx.tie_failure("correspondence", "wf_secs document does not round-trip on the implementation", {"got": got, "expected": exp}, case)


def explore_google_perturbed(ctx, n: int):
    import griffe
    g = Gen(ctx.rng, 0.03, ascii_only=True)
    cases = []
    for _ in range(n):
        opts = {o: v for o, v in random_opts(ctx.rng, "google").items() if o in GOOGLE_OPTS[:6]}
        doc = gen_doc(g, "google", opts)
        text = perturb(ctx.rng, render_google(doc))
        cases.append((opts, doc, text))
    outs = ctx.model([["gparse", opts_sexp(o), ctx_sexp(d["parent"]), doc_lines(t)] for o, d, t in cases])
    for (o, d, t), mo in zip(cases, outs):
        p = build_parent(d["parent"])
        got = _impl(t, p, "google", o)
        ctx.count("google_perturbed_cases")
        if got and got[0] == "exception":
            impl = ["err", got[1]]
        else:
            impl = ["ok", _norm_ann_secs(model_shape(got), p)]
        mo2 = ["ok", _norm_ann_secs(mo[1], p)] if mo[0] == "ok" else mo
        ctx.observe("perturbed_outcome", impl[0])
        if mo2 != impl:
            ctx.tie_failure("correspondence", "parse_google(model) vs Docstring.parse('google') on a perturbed docstring",
                            {"model": mo2, "impl": impl}, _case_json("google", o, d, t))


def nopts_sexp(opts: dict, parent: dict):
    return [opt(opts, "trim_doctest_flags"), bool(opts.get("ignore_init_summary")) and parent["kind"] == "init"]


def explore_numpy(ctx, n: int, exotic: float = 0.0, with_model: bool = True):
    g = Gen(ctx.rng, exotic)
    results = []
    for _ in range(n):
        opts = random_opts(ctx.rng, "numpy")
        doc = gen_doc(g, "numpy", opts)
        lines = render_numpy(doc)
        text = embed(lines, ctx.rng)
        parent_obj = build_parent(doc["parent"])
        got = _impl(text, parent_obj, "numpy", opts)
        exp = expected_sections(doc, opts, parent_obj)
        adj, hit = adjust_known(doc, exp, opts)
        _direct(ctx, "numpy", opts, doc, text, got, exp, adj, hit)
        kinds = [s["k"] for s in doc["sections"]]
        ctx.case({"style": "numpy", "options": opts, "text": text}, any(k != "text" for k in kinds))
        for k in kinds:
            ctx.observe("numpy_section", k)
        ctx.observe("numpy_parent", doc["parent"]["kind"])
        ctx.count("numpy_cases" if not exotic else "numpy_exotic_cases")
        results.append((opts, doc, lines, text, got, exp, hit, parent_obj))
    if not with_model:
        return
    # (C) model parse_numpy vs implementation on the lines the parser sees (annotation texts modulo parse_docstring_annotation:
    # the text of a choices item comes back printed as a tuple expression)
    mc = [r for r in results if model_ok(r[3])]
    outs = ctx.model([["nparse", nopts_sexp(o, d["parent"]), ctx_sexp(d["parent"]), doc_lines(t)] for o, d, l, t, got, exp, hit, po in mc])
    for (o, d, l, t, got, exp, hit, po), mo in zip(mc, outs):
        impl = ["ok", _norm_ann_secs(model_shape(got), po)] if not (got and got[0] == "exception") else ["err", got[1]]
        mo = ["ok", _norm_ann_secs(mo[1], po)] if mo[0] == "ok" else mo
        ctx.count("numpy_model_vs_impl")
        if mo != impl:
            ctx.tie_failure("correspondence", "parse_numpy(model) vs Docstring.parse('numpy')", {"model": mo, "impl": impl},
                            _case_json("numpy", o, d, t))
    # (C) render / expectation / theorem instances
    ws = [(r, nsecs_sexp(r[1])) for r in mc if not r[0].get("ignore_init_summary") and opt(r[0], "trim_doctest_flags")]
    ws = [(r, w) for r, w in ws if w is not None]
    m_spec = ctx.model([["nspec", ctx_sexp(r[1]["parent"]), w] for r, w in ws])
    m_parse = ctx.model([["nparse", [True, False], ctx_sexp(r[1]["parent"]), r[2]] for r, w in ws])
    for ((o, d, l, t, got, exp, hit, po), w), (mr, me, mw, mg), mp in zip(ws, m_spec, m_parse):
        case = _case_json("numpy", o, d, t)
        ctx.count("numpy_spec_cases")
        ctx.observe("numpy_wf", f"wf={mw} gapF6={mg}")
        if mr != l:
            ctx.tie_failure("correspondence", "render_numpy(model) vs harness renderer", {"model": mr, "harness": l}, case)
        if me != model_shape(exp):
            ctx.tie_failure("correspondence", "expect_numpy(model) vs harness expectation", {"model": me, "harness": model_shape(exp)}, case)
        if mg != ("C13-F6" in hit):
            ctx.tie_failure("correspondence", "gap_F6(model) vs harness classifier of C13-F6", {"model": mg, "harness": sorted(hit)}, case)
        if mw and not mg:
            ctx.count("numpy_theorem_instances")
            if mp != ["ok", me]:
                ctx.tie_failure("correspondence", "instance of C13_numpy_roundtrip fails in the extracted model", {"parse": mp, "expect": me}, case)
            if got != exp:
                ctx.tie_failure("correspondence", "wf_nsecs document (no known gap) does not round-trip on the implementation", {"got": got, "expected": exp}, case)


def nsecs_sexp(doc: dict):
    """The written Numpy structure as a term of the Coq type [list nsec]; None when it uses what the Coq spec does not cover
    (choices, the bare `name` form of Returns items (finding C13-F5), free text after the first section)."""
    out = []
    for si, sec in enumerate(doc["sections"]):
        k = sec["k"]
        if k == "text":
            if si:
                return None
            out.append(["text", sec["lines"]])
        elif k == "admonition":
            out.append(["adm", sec["header"], sec["lines"]])
        elif k == "deprecated":
            out.append(["deprecated", sec["header"], sec["version"], sec["lines"]])
        elif k == "examples":
            out.append(["examples", True, sec["header"], [[ck == "examples", ls] for ck, ls in sec["chunks"]]])
        elif k in ITEM_KINDS:
            items = []
            for it in sec["items"]:
                if "choices" in it:
                    return None
                names = [] if it["name"] is None else [it["name"], *it.get("more_names", [])]
                ann = it["ann"]
                if k in ("functions", "classes") and ann is not None:
                    ann = ann[len(it["name"]) + 1:-1]
                if k in ("returns", "yields", "receives") and it["name"] is not None and it["ann"] is None and it["just_name_form"] == "bare":
                    return None
                default = [] if it["default"] is None else [[[" ", ": ", "="].index(it["default_form"]), it["default"]]]
                items.append([names, _o(ann), default, bool(it.get("optional")), it["desc"], it.get("sep", 0)])
            out.append(["items", k, sec["header"], items])
        else:
            return None
    return out


def perturb_numpy(rng, lines: list[str]) -> str:
    """Numpy-specific damage on top of the generic one: dash lines, item heads, several names, choices, defaults."""
    lines = list(lines)
    for _ in range(rng.randint(0, 2)):
        if not lines:
            break
        i = rng.randrange(len(lines))
        l = lines[i]
        r = rng.random()
        if r < 0.15 and l.startswith("-"):
            lines[i] = rng.choice(["-", "--", l + "-", " " + l, l + " ", "- -", "=" * len(l), l[:-1] + " -"])
        elif r < 0.25:
            lines.insert(i, rng.choice(["----", "-", "  ---", "Notes", "Warnings", "See Also", "returns", "Other Parameters"]))
        elif r < 0.40 and l and not l.startswith(" "):
            lines[i] = rng.choice([f"{l}, optional", f"a, {l}", f"a, *b, **c : int", f"{l} : {{'x', 'y'}}", f"x : {{a, b}}, optional",
                                   f"{l}, default 3", f"{l},  default: None", f"{l}, default=x, default = y", f"{l} :", f": {l}", f" {l}",
                                   f"*{l}", f"***{l}", f"{l} :  ", f"x:y", f"x :y", f"x: y", f"1x : int", f"x,y : int", f"x, 1 : int"])
        elif r < 0.5 and l.startswith("    "):
            lines[i] = rng.choice([l[1:], l[2:], "\t" + l[4:], l[4:], "        " + l[4:]])
        elif r < 0.6:
            lines[i] = l + rng.choice([" ", "  ", ":", " :"])
    return perturb(rng, lines) if rng.random() < 0.7 else "\n".join(lines)


def explore_numpy_perturbed(ctx, n: int):
    g = Gen(ctx.rng, 0.03, ascii_only=True)
    cases = []
    for _ in range(n):
        opts = random_opts(ctx.rng, "numpy")
        doc = gen_doc(g, "numpy", opts)
        text = perturb_numpy(ctx.rng, render_numpy(doc))
        cases.append((opts, doc, text))
    outs = ctx.model([["nparse", nopts_sexp(o, d["parent"]), ctx_sexp(d["parent"]), doc_lines(t)] for o, d, t in cases])
    for (o, d, t), mo in zip(cases, outs):
        p = build_parent(d["parent"])
        got = _impl(t, p, "numpy", o)
        ctx.count("numpy_perturbed_cases")
        if got and got[0] == "exception":
            impl = ["err", got[1]]
        else:
            impl = ["ok", _norm_ann_secs(model_shape(got), p)]
        mo2 = ["ok", _norm_ann_secs(mo[1], p)] if mo[0] == "ok" else mo
        ctx.observe("numpy_perturbed_outcome", impl[0])
        if mo2 != impl:
            ctx.tie_failure("correspondence", "parse_numpy(model) vs Docstring.parse('numpy') on a perturbed docstring",
                            {"model": mo2, "impl": impl}, _case_json("numpy", o, d, t))


def sfields_sexp(doc: dict):
    """The written Sphinx field list as a term of the Coq type [list sfield]; None when it uses :type:/:vartype:/:rtype: fields,
    or when there is no field at all."""
    out = []
    for f in doc["fields"]:
        k = f["f"]
        if ("desc" in f and "" in f["desc"]) or f.get("sep"):
            return None                       # blank lines inside / after a description are not part of the Coq structure
        if k == "param":
            out.append(["param", f["field"], _o(f["inline"]), f["name"], f["desc"][0], f["desc"][1:]])
        elif k == "var":
            out.append(["var", f["field"], f["name"], f["desc"][0], f["desc"][1:]])
        elif k == "raises":
            out.append(["raises", f["field"], f["exc"], f["desc"][0], f["desc"][1:]])
        elif k == "returns":
            out.append(["returns", f["field"], f["desc"][0], f["desc"][1:]])
        else:
            return None
    return out or None


def xfields_sexp(doc: dict):
    """The written Sphinx field list as a term of the Coq type [list xfield] (all seven field kinds, blank lines inside and
    after descriptions); None when there is no field at all."""
    out = []
    for f in doc["fields"]:
        k = f["f"]
        sep = f.get("sep", 0)
        if k == "param":
            out.append(["param", f["field"], _o(f["inline"]), f["name"], f["desc"][0], f["desc"][1:] + [""] * sep])
        elif k == "var":
            out.append(["var", f["field"], f["name"], f["desc"][0], f["desc"][1:] + [""] * sep])
        elif k == "raises":
            out.append(["raises", f["field"], f["exc"], f["desc"][0], f["desc"][1:] + [""] * sep])
        elif k == "returns":
            out.append(["returns", f["field"], f["desc"][0], f["desc"][1:] + [""] * sep])
        elif k == "type":
            out.append(["type", f["name"], f["ann"], sep])
        elif k == "vartype":
            out.append(["vartype", f["name"], f["ann"], sep])
        else:
            out.append(["rtype", f["ann"], sep])
    return out or None


def sphinx_shape(secs: list) -> list:
    """Canonicalised implementation sections -> the shape the model prints (descriptions verbatim)."""
    return model_shape(secs)


def perturb_sphinx(rng, lines: list[str]) -> str:
    lines = list(lines)
    for _ in range(rng.randint(1, 3)):
        if not lines:
            break
        i = rng.randrange(len(lines))
        r = rng.random()
        if r < 0.15:
            del lines[i]
        elif r < 0.3:
            lines.insert(i, lines[i])                      # duplicate field
        elif r < 0.45:
            lines[i] = lines[i].replace(":", "", 1)
        elif r < 0.6:
            lines[i] = lines[i].replace(" ", "  ", 1)
        elif r < 0.7:
            lines.insert(i, rng.choice([":foo: bar", ":meta private:", "text: with colon", ":param", ":type:", ":returns"]))
        elif r < 0.8:
            lines[i] = lines[i] + rng.choice([" or None", " int or str", ":"])
        elif r < 0.9:
            lines[i] = lines[i].lstrip(" ")
        else:
            lines.insert(i, "")
    return "\n".join(lines)


def explore_sphinx(ctx, n: int, with_model: bool = True, exotic: float = 0.0):
    import griffe
    g = Gen(ctx.rng, exotic)
    cases = []
    for i in range(n):
        opts = random_opts(ctx.rng, "sphinx")
        doc = gen_sphinx_doc(g)
        lines = render_sphinx(doc)
        text = embed(lines, ctx.rng)
        parent_obj = build_parent(doc["parent"])
        raw = _impl(text, parent_obj, "sphinx", opts)
        got = raw
        exp, _ = expected_sphinx(doc)
        adj, hit = expected_sphinx(doc, defects=True)
        _direct(ctx, "sphinx", opts, doc, text, got, exp, adj, hit)
        ctx.case({"style": "sphinx", "options": opts, "text": text}, bool(doc["fields"]))
        for f in doc["fields"]:
            ctx.observe("sphinx_field", f["f"])
        ctx.observe("sphinx_parent", doc["parent"]["kind"])
        ctx.count("sphinx_cases" if not exotic else "sphinx_exotic_cases")
        doc["_rendered"] = (text,)
        cases.append((opts, doc, text, parent_obj, raw))
        if with_model and i % 2 == 0:
            t2 = perturb_sphinx(ctx.rng, lines)
            cases.append((opts, doc, t2, parent_obj, _impl(t2, parent_obj, "sphinx", opts)))
    if not with_model:
        return
    # (C) Sphinx written structure: render / expectation / theorem instances on the representable documents
    spec = []
    for o, d, t, p, raw in cases:
        fs = sfields_sexp(d)
        if fs is not None and t in d.get("_rendered", ()) and model_ok(t):
            spec.append((o, d, t, raw, fs))
    souts = ctx.model([["sspec", ctx_sexp(d["parent"]), d["parent"]["kind"] in ("func", "gen", "init", "prop"), d["text"], fs]
                       for o, d, t, raw, fs in spec])
    for (o, d, t, raw, fs), (mr, me, mw) in zip(spec, souts):
        ctx.count("sphinx_spec_cases")
        ctx.observe("sphinx_wf", mw)
        case = _case_json("sphinx", o, d, t)
        if mr != render_sphinx(d):
            ctx.tie_failure("correspondence", "render_sphinx(model) vs harness renderer", {"model": mr, "harness": render_sphinx(d)}, case)
        if mw:
            ctx.count("sphinx_theorem_instances")
            if raw and raw[0] == "exception" or me != sphinx_shape(raw):
                ctx.tie_failure("correspondence", "wf_sphinx document: implementation differs from expect_sphinx(model)",
                                {"model_expect": me, "impl": raw}, case)
    cases = [c for c in cases if model_ok(c[2])]
    # (C) the full written structure (all seven field kinds): render / expectation / known-gap predicate / theorem instances
    xspec = []
    for o, d, t, p, raw in cases:
        fs = xfields_sexp(d)
        if fs is not None and t in d.get("_rendered", ()) and model_ok(t):
            xspec.append((o, d, t, raw, fs))
    xouts = ctx.model([["xspec", ctx_sexp(d["parent"]), d["parent"]["kind"] in ("func", "gen", "init", "prop"), d["text"], fs]
                       for o, d, t, raw, fs in xspec])
    for (o, d, t, raw, fs), (mr, me, mw, mg) in zip(xspec, xouts):
        ctx.count("sphinx_full_spec_cases")
        ctx.observe("sphinx_full_wf", f"wf={mw} gapF8={mg}")
        case = _case_json("sphinx", o, d, t)
        exp, _ = expected_sphinx(d)
        _, hit = expected_sphinx(d, defects=True)
        if mr != render_sphinx(d):
            ctx.tie_failure("correspondence", "render_sphinx_full(model) vs harness renderer", {"model": mr, "harness": render_sphinx(d)}, case)
        if me != sphinx_shape(exp):
            ctx.tie_failure("correspondence", "expect_sphinx_full(model) vs harness expectation", {"model": me, "harness": sphinx_shape(exp)}, case)
        if bool(mg) != ("C13-F8" in hit):
            ctx.tie_failure("correspondence", "gap_F8(model) vs harness classifier of C13-F8", {"model": mg, "harness": sorted(hit)}, case)
        if mw and not mg:
            ctx.count("sphinx_full_theorem_instances")
            if raw and raw[0] == "exception" or me != sphinx_shape(raw):
                ctx.tie_failure("correspondence", "wf_sphinx_full document (no known gap): implementation differs from expect_sphinx_full(model)",
                                {"model_expect": me, "impl": raw}, case)
    outs = ctx.model([["sparse", ctx_sexp(d["parent"]), d["parent"]["kind"] in ("func", "gen", "init", "prop"), doc_lines(t)]
                      for o, d, t, p, raw in cases])
    for (o, d, t, p, raw), mo in zip(cases, outs):
        impl = sphinx_shape(raw) if not (raw and raw[0] == "exception") else ["err", raw[1]]
        ctx.count("sphinx_model_vs_impl")
        if mo != impl:
            ctx.tie_failure("correspondence", "parse_sphinx(model) vs Docstring.parse('sphinx')", {"model": mo, "impl": impl},
                            _case_json("sphinx", o, d, t))


# ------------------------------------------------------------------ histories: parse calls must not leave traces
def docstring_source(parent: dict, text: str):
    """Source of a module whose documented object carries `text` as its docstring (a string literal as first statement,
    the way it stands in a file), and the path to that object; None for parents that have no source."""
    k = parent["kind"]
    if k == "none":
        return None
    src, path = parent_source(parent)
    lit = repr(text)
    if k in ("func", "gen", "init", "prop"):
        pad = "    " if k in ("func", "gen") else "        "
        assert src.endswith(": ...\n")
        return src[:-len(": ...\n")] + ":\n" + pad + lit + "\n", path
    if k == "cls":
        head, rest = src.split("\n", 1)
        return head + "\n    " + lit + "\n" + rest, path
    return lit + "\n" + src, path            # module docstring


def history_options(rng, style: str) -> dict:
    """Per-call / configured options: documented options of the style, mostly set to their NON-default value."""
    names = {"google": GOOGLE_OPTS[:7], "numpy": NUMPY_OPTS, "sphinx": SPHINX_OPTS}[style]
    out = {}
    for o in rng.sample(names, rng.randint(1, min(3, len(names)))):
        out[o] = (o not in DEFAULT_TRUE) if rng.random() < 0.8 else (o in DEFAULT_TRUE)
    return out


def gen_history(ctx, g: Gen) -> dict:
    """A history: docstrings created the way the loader creates them (every Docstring of a load is handed the SAME
    `docstring_options` dict) and some created on their own; then a sequence of parse / .parsed calls with per-call options,
    of writes into a configured dictionary and of assignments of a new dictionary to one docstring."""
    rng = ctx.rng
    style = rng.choice(["google", "google", "numpy", "sphinx"])

    def one_doc():
        if style == "sphinx":
            doc = gen_sphinx_doc(g)
            return doc, "\n".join(render_sphinx(doc))
        doc = gen_doc(g, style, {o: v for o, v in random_opts(rng, style).items() if o in GOOGLE_OPTS[:6]})
        return doc, "\n".join(render_google(doc) if style == "google" else render_numpy(doc))
    loads = []
    for _ in range(rng.randint(1, 2)):
        configured = history_options(rng, style) if rng.random() < 0.75 else None
        modules = []
        for _ in range(rng.randint(1, 3)):
            for _try in range(20):
                doc, text = one_doc()
                sp = docstring_source(doc["parent"], text)
                if sp is not None:
                    modules.append({"source": sp[0], "path": list(sp[1]), "text": text, "parent": doc["parent"]})
                    break
        loads.append({"configured": configured, "modules": modules})
    alone = []
    for _ in range(rng.randint(0, 2)):
        doc, text = one_doc()
        alone.append({"text": text, "configured": history_options(rng, style) if rng.random() < 0.5 else None})
    n_docs = sum(len(l["modules"]) for l in loads) + len(alone)
    steps = []
    for _ in range(rng.randint(3, 10)):
        r = rng.random()
        st = {"doc": rng.randrange(max(1, n_docs))}
        if r < 0.10:
            # docstring.value = ...: another text, or the current one with a paragraph appended
            if rng.random() < 0.5:
                st.update(op="setvalue", text=one_doc()[1])
            else:
                st.update(op="setvalue", append="\n\n" + g.prose(2, 5) + ".")
        elif r < 0.16:
            st.update(op="lines")
        elif r < 0.24:
            st.update(op="mutate", ref=rng.randrange(8), options=history_options(rng, style))      # cfg[key] = value
        elif r < 0.30:
            st.update(op="setopts", options=history_options(rng, style) if rng.random() < 0.8 else {})
        elif r < 0.38:
            st.update(op="parsed")
        else:
            st.update(op="parse", options=history_options(rng, style) if rng.random() < 0.6 else {}, explicit_parser=rng.random() < 0.5)
        steps.append(st)
    return {"style": style, "loads": loads, "alone": alone, "steps": steps}


def _odict_sexp(d: dict | None):
    return [[k, bool(v)] for k, v in (d or {}).items()]


def run_history(h: dict, ctx=None) -> tuple[list, list]:
    """Replay a history on the implementation.  Every call must give what a FRESH Docstring (same text, parent, parser and a
    private copy of the options configured AT THAT MOMENT: the explicit writes of the history count, nothing else) gives
    for the same call; `.parsed` is what it was at its first read; no configured dict may differ from the mirror that only
    the explicit writes touch.  With ctx: the same history in the extracted Coq model (hexec) must give the same
    observations, dictionaries and references.  -> (mismatches against the fresh docstring, mismatches against the model)."""
    import copy
    import griffe
    style = h["style"]
    docs, heap, refs, parents = [], [], [], []      # heap: the ACTUAL dict objects; refs[doc] = index of its dict
    for li, load in enumerate(h["loads"]):
        cfg = copy.deepcopy(load["configured"])          # ONE dict object for the whole load, as in GriffeLoader
        shared_ref = None
        if cfg:
            heap.append(cfg)
            shared_ref = len(heap) - 1
        for mi, m in enumerate(load["modules"]):
            mod = griffe.visit(f"m{li}_{mi}", filepath=None, code=m["source"], docstring_parser=griffe.Parser(style), docstring_options=cfg)
            obj = mod
            for nm in m["path"]:
                obj = obj.members[nm]
            if obj.docstring is None:
                return [{"harness": "no docstring on generated object", "source": m["source"]}], None
            d = obj.docstring
            if shared_ref is None:
                heap.append(d.parser_options)
                refs.append(len(heap) - 1)
            else:
                if d.parser_options is not cfg:
                    return [{"harness": "the visitor did not hand the shared options dict to the docstring"}], None
                refs.append(shared_ref)
            docs.append((d, m["text"]))
            parents.append(m["parent"])
    for a in h["alone"]:
        d = griffe.Docstring(a["text"], lineno=1, parser=griffe.Parser(style), parser_options=copy.deepcopy(a["configured"]))
        heap.append(d.parser_options)
        refs.append(len(heap) - 1)
        docs.append((d, a["text"]))
        parents.append({"kind": "none"})
    if not docs:
        return [], None
    texts0 = [t for _, t in docs]
    mirror = copy.deepcopy(heap)                     # what the dictionaries must be: only explicit writes change them
    heap0, refs0 = copy.deepcopy(heap), list(refs)
    bad, observed, mops, cached = [], [], [], {}
    for si, st in enumerate(h["steps"]):
        di = st["doc"] % len(docs)
        d, text = docs[di]
        op = st["op"]
        if op == "mutate":
            r = st["ref"] % len(heap)
            for k, v in st["options"].items():
                heap[r][k] = v
                mirror[r][k] = v
                mops.append(["mutate", r, k, bool(v)])
                observed.append(None)
            continue
        if op == "setopts":
            new = dict(st["options"])
            d.parser_options = new
            heap.append(new)
            mirror.append(copy.deepcopy(new))
            refs[di] = len(heap) - 1
            mops.append(["setopts", di, _odict_sexp(new)])
            observed.append(None)
            continue
        if op == "setvalue":
            # Docstring.value is a plain attribute: the new text is stored as it is (cleaned here, as the constructor would)
            new_text = inspect.cleandoc((st["text"] if "text" in st else text + st["append"]).rstrip())
            d.value = new_text
            docs[di] = (d, new_text)
            mops.append(["setvalue", di, new_text.split("\n")])
            observed.append(None)
            continue
        if op == "lines":
            got_lines = list(d.lines)
            mops.append(["lines", di])
            observed.append(("lines", got_lines))
            if got_lines != inspect.cleandoc(text.rstrip()).split("\n"):
                bad.append({"step": si, "text": text, "lines_read": got_lines, "lines_of_current_value": inspect.cleandoc(text.rstrip()).split("\n")})
            continue
        fresh = griffe.Docstring(text, lineno=d.lineno, endlineno=d.endlineno, parent=d.parent, parser=d.parser,
                                 parser_options=copy.deepcopy(mirror[refs[di]]))
        try:
            if op == "parsed":
                got = canon_sections(d.parsed)
                want = cached.setdefault(di, canon_sections(fresh.parse()))
                mops.append(["parsed", di])
            elif st["explicit_parser"]:
                got, want = canon_sections(d.parse(style, **st["options"])), canon_sections(fresh.parse(style, **st["options"]))
                mops.append(["parse", di, [style], _odict_sexp(st["options"])])
            else:
                got, want = canon_sections(d.parse(**st["options"])), canon_sections(fresh.parse(**st["options"]))
                mops.append(["parse", di, [], _odict_sexp(st["options"])])
        except Exception as e:  # noqa: BLE001
            bad.append({"step": si, "exception": f"{type(e).__name__}: {e}"[:200]})
            observed.append(None)
            continue
        observed.append((got, d.parent))
        if got != want:
            first = next((i for i, (a, b) in enumerate(zip(got, want)) if a != b), min(len(got), len(want)))
            bad.append({"step": si, "text": text, "after_earlier_calls": got[first:first + 1], "fresh_docstring": want[first:first + 1]})
    for r, (now, must) in enumerate(zip(heap, mirror)):
        if now != must:
            bad.append({"configured_options_dict": r, "must_be": must, "are_now": now})
    for di, (d, text) in enumerate(docs):
        if d.parser_options is not heap[refs[di]]:
            bad.append({"docstring": di, "parser_options_object_replaced": True})
    every = [x for x in heap0 + [s_.get("options") or {} for s_ in h["steps"]]]
    if ctx is not None and all(model_ok(json.dumps(m_)) for m_ in mops) and all(model_ok(t) for t in texts0) and not (style == "google" and any(x.get("ignore_init_summary") for x in every)):
        mdocs = [[ctx_sexp(p), p["kind"] == "init", p["kind"] in ("func", "gen", "init", "prop"), [style], r, doc_lines(t)]
                 for t, p, r in zip(texts0, parents, refs0)]
        query = ["hist", [_odict_sexp(x) for x in heap0], mdocs, mops]
        heap_now, refs_now = copy.deepcopy(heap), list(refs)

        def compare(mo):
            m_obs, m_heap, m_refs = mo
            ctx.count("history_model_cases")
            ctx.count("history_model_observations", len([x for x in observed if x is not None]))
            return _history_compare(observed, mops, m_obs, m_heap, m_refs, heap_now, refs_now)
        return bad, (query, compare)
    return bad, None


def _history_compare(observed, mops, m_obs, m_heap, m_refs, heap, refs) -> list:
    ties = []
    if True:
        for si, (ob, mob) in enumerate(zip(observed, m_obs)):
            if ob is None:
                if mob != ["none"]:
                    ties.append({"op": mops[si], "model": mob, "impl": "no result"})
                continue
            got, pobj = ob
            if got == "lines":
                if mob != ["lines", pobj]:
                    ties.append({"op": mops[si], "model": mob, "impl": ["lines", pobj]})
                continue
            impl = ["res", ["ok", _norm_ann_secs(model_shape(got), pobj)]]
            mob2 = ["res", ["ok", _norm_ann_secs(mob[1][1], pobj)]] if mob[0] == "res" and mob[1][0] == "ok" else mob
            if mob2 != impl:
                ties.append({"op": mops[si], "model": mob2, "impl": impl})
        canon = lambda dct: {(k if k in ("returns_multiple_items", "returns_named_value", "receives_multiple_items", "receives_named_value",  # noqa: E731
                                         "trim_doctest_flags", "ignore_init_summary") else "other"): bool(v) for k, v in dct.items()}
        if [canon(x) for x in heap] != [{k: bool(v) for k, v in x} for x in m_heap] or refs != m_refs:
            ties.append({"heap_impl": [canon(x) for x in heap], "heap_model": m_heap, "refs_impl": refs, "refs_model": m_refs})
    return ties


def explore_histories(ctx, n: int, with_model: bool = True):
    g = Gen(ctx.rng)
    jobs = []
    for _ in range(n):
        h = gen_history(ctx, g)
        bad, job = run_history(h, ctx if with_model else None)
        ctx.count("history_cases")
        ctx.observe("history_style", h["style"])
        ctx.observe("history_steps", len(h["steps"]))
        ctx.observe("history_shared_configured", sum(1 for l in h["loads"] if l["configured"]))
        for s_ in h["steps"]:
            ctx.observe("history_op", s_["op"] + ("+options" if s_["op"] == "parse" and s_["options"] else ""))
        case = {"style": h["style"], "options": {}, "parent": {"kind": "none"}, "text": "", "history": h}
        ctx.case({"history": [(s_["doc"], s_["op"], sorted((s_.get("options") or {}).items())) for s_ in h["steps"]], "style": h["style"],
                  "texts": [m["text"] for l in h["loads"] for m in l["modules"]]}, True)
        if bad:
            case["text"] = next((b["text"] for b in bad if "text" in b), "")
            ctx.property_failure(case, {"history_dependence": bad[:4]})
        if job is not None:
            jobs.append((job, case))
    # (C) the same histories in the extracted model (one batch)
    outs = ctx.model([q for (q, _), _ in jobs])
    for ((q, compare), case), mo in zip(jobs, outs):
        ties = compare(mo)
        if ties:
            ctx.tie_failure("correspondence", "hexec(model) vs the same history on Docstring objects", ties[:3], case)


def explore(ctx):
    logging.disable(logging.CRITICAL)
    replay_witnesses(ctx)
    replay_corpus(ctx)
    check_string_oracle(ctx, ctx.budget(8000, 80000))
    explore_google(ctx, ctx.budget(1500, 15000))
    explore_google_perturbed(ctx, ctx.budget(700, 8000))
    explore_numpy(ctx, ctx.budget(900, 9000))
    explore_numpy_perturbed(ctx, ctx.budget(700, 8000))
    explore_sphinx(ctx, ctx.budget(700, 7000))
    # the same three streams over arbitrary text: descriptions / free text with characters outside printable ASCII
    # (vertical tab, form feed, FS/GS/RS, lone CR, NEL, U+2028/2029, non-ASCII letters): a line ends at "\n" only
    explore_google(ctx, ctx.budget(300, 3000), exotic=0.12)
    explore_numpy(ctx, ctx.budget(300, 3000), exotic=0.12)
    explore_sphinx(ctx, ctx.budget(300, 3000), exotic=0.12)
    # parse calls leave no trace: histories of calls over docstrings that share one configured-options dict (as in a load)
    explore_histories(ctx, ctx.budget(150, 1500))
    if not ctx.quick:
        g = Gen(ctx.rng)
        sample = []
        for _ in range(40):
            doc = gen_doc(g, "google", {})
            sample.append(["gparse", opts_sexp({}), ctx_sexp(doc["parent"]), render_google(doc)])
        ctx.cross_check_extraction(sample, n=40)


def search(ctx):
    """A tie broke and no failing input is known: evaluate the property on the implementation alone, wider."""
    logging.disable(logging.CRITICAL)
    explore_google(ctx, 4000, with_model=False)
    explore_numpy(ctx, 2500, with_model=False)
    explore_sphinx(ctx, 2000, with_model=False)
    explore_google(ctx, 1000, with_model=False, exotic=0.12)
    explore_numpy(ctx, 1000, exotic=0.12, with_model=False)
    explore_sphinx(ctx, 1000, with_model=False, exotic=0.12)
    explore_histories(ctx, 600, with_model=False)


def replay(ctx, data):
    logging.disable(logging.CRITICAL)
    case = data.get("failing_input") or {}
    text = case.get("text")
    if case.get("history"):
        print("history:", json.dumps(case["history"], indent=1)[:6000])
        print("history dependence now:", json.dumps(run_history(case["history"])[0], indent=1)[:4000])
        return 0
    if text is None:
        print("replay names no input:", data.get("no_longer_checks"))
        return 0
    if case.get("parent_source"):
        import griffe
        parent = griffe.visit("m", filepath=None, code=case["parent_source"])
        for n in case.get("parent_path") or []:
            parent = parent.members[n]
    else:
        parent = build_parent(case["parent"])
    print(text)
    print("options:", case.get("options"), " parent:", case.get("parent"))
    print("got     :", json.dumps(_impl(text, parent, case["style"], case.get("options") or {}), indent=1))
    print("detail  :", json.dumps(data.get("detail"), indent=1))
    return 0
