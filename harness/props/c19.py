"""C19 - Merging stubs loses nothing and prefers stub types.

(C) model merge_obj / merge_stubs / set_member_module (Model/C19_merge.v), load_package2 = first merge + remerge/settle
    (Model/C19_reload.v), load_seq (Model/C19_seq.v)  vs  griffe (merger.py, mixins.set_member, loader._load_package,
    _load_submodules) on generated (module, stubs) source pairs written as real files in every placement and both
    discovery orders, the pending-overloads dicts of the result included.
direct evaluation: the merged live tree vs a declarative Python reading of the property (spec_scope), order and placement
    independence, no exception, aliases stay unresolved (also aliases that could resolve), one consistent tree
    (parent/path/collection), alias bindings and `aliases` back-references, facade packages vs CPython's import of them
    and ast on the .pyi.
"""
from __future__ import annotations

import copy
import json
import os
import shutil
from pathlib import Path

ID = "C19"
LEVEL_TEXT = ("Theorems for all trees (any depth, any member count). ONE merge, without gap hypotheses: every runtime member survives at its "
              "path with its kind / alias identity, in its position; merging stubs as the visitor builds them never raises; per-name field table of "
              "one merged scope (function: annotations by name/returns/overloads from the stubs, attribute: annotation from the stubs, docstring only "
              "when missing, class/module: the completed recursive merge, kind mismatch or alias on either side: untouched, stub-only: appended with "
              "runtime=False, alias or CHAIN of aliases of any length to a loaded object: the same merge into the final target, the chain kept); "
              "unloaded aliases are never touched; merge_stubs and the implicit merge of set_member give the same result in both orders; two regular "
              "modules are rejected. The loader's SECOND merge of a package's __init__ stubs (objects, not values: stub-only members moved by the "
              "first merge are skipped since the repair of C19-F5) is proved to change nothing, for all trees: the double merge is the single "
              "merge, also with a separate stubs package (then followed by one ordinary merge of the stubs submodules). Model tied to the tree under test by differential runs on "
              "generated file pairs in fourteen placements (sibling, package __init__, nested subpackage __init__ at two depths, -stubs package "
              "with nested subpackage, producer API) and both discovery orders, with the per-scope pending-overloads dicts of the result compared, "
              "and by a sequential model of one package (files arriving in listing order, aliases resolved at merge time, chains, write-back) "
              "run against six interleaved files; on that model, two adjacent files of a pair give the same state in both orders (theorem, "
              "modulo known finding C19-F6 = a third module's pair in between, refutation proved and replayed).")
LEVEL_NOTE = ("Trusted: Coq kernel, extraction, the live-object -> tree abstraction and generators in this module. Values not objects: an alias "
              "carries the value of its loaded final target (one alias per target within a merge); object identity is modelled only where the code's "
              "behaviour depends on it (second merge: which members were moved; sequential model: which aliases end up bound to dropped stub objects). Listing orders in "
              "which a merge goes THROUGH an alias already bound to a dropped object are outside the sequential model and not generated (counted). "
              "Expressions are their str() text. The -stubs package case of the double merge is proved for submodule names not bound in the stubs "
              "__init__ (a shadowing submodule is checked by (C) only). Checked, not proved: the sequential model against the code (its order theorem is about the model), parent/path/collection consistency, "
              "alias back-reference dicts, stubs importing loaded objects, the wildcard facade against CPython. Known findings: F4 (in-package stubs "
              "merged before wildcard expansion), F6 (a third "
              "module's pair between the two files of a pair: result depends on which came first, aliases left bound to dropped stub objects); each "
              "failure is attributed to them only when the model of the unchanged code reproduces the very same tree. The finder is exercised by "
              "placements only, wildcard expansion is not modelled.")
MODEL = ("Model.C19_reload", "run_C19")
MODEL_TARGETS = ["Model/C19_reload.vo"]
COQ_TARGETS = ["Proofs/C19_merge.vo", "Proofs/C19_reload.vo", "Proofs/C19_chain.vo", "Proofs/C19_seq.vo", "Proofs/C19_subs.vo"]
RULE = ("seeded random scope pairs: per name the runtime side is absent/attribute/function(+overloads)/class/alias and the stubs side is "
        "absent/attribute/function/overloads+implementation/overloads only/overloads after the implementation/class/alias, with ~70% overlap, ~20% "
        "kind mismatch, classes nested to depth 3, stub parameters a random subset of the runtime ones plus extras, docstrings present/missing on each "
        "side independently; each pair is run through merge_stubs(a,b), merge_stubs(b,a), pkg/m.py+m.pyi in both os.walk orders, the __init__ pair of a "
        "nested subpackage (pkgn/sub) and one level deeper (pkgn/sub/deep) plus a sibling pair inside the subpackage in both orders, top-level module "
        "or package __init__ pair, pkg + pkg-stubs with optional stub-only / runtime-only submodules, a nested subpackage on both sides and a stubs "
        "submodule named like an attribute / function / class / import of the runtime __init__, the producer "
        "API (modules visited without parent=, attached with set_member in both orders); every third pair as pkg/a_impl.py + re-exporting m.py + m.pyi "
        "(aliases to loaded targets; every other one through a middle module = chain of two aliases) in the sibling and one nested layout, both orders, and "
        "with the re-exporting module as the package __init__ whose stubs sit in the package or in pkg-stubs (merged twice); runtime classes may derive "
        "from a class bound earlier in the same scope, their stubs then re-declare inherited methods (overload-only more often than not); "
        "every third with stubs that only IMPORT loaded objects (same layouts; package __init__ pair with in-package stubs or pkg-stubs) and as "
        "pkg/base_mod.py + subclasses in m.py + overload-only stubs for every inherited method in m.pyi (base module must stay as visited, nothing "
        "resolved during the merge; both orders and pkg-stubs); every third "
        "as six files m/user/via .py/.pyi (user re-exports m's names, via re-exports user's, each with its own stubs) in a seeded listing order and "
        "the same order with the two files of one pair swapped, against the sequential model; seeded pairs with CPython-evaluable annotations as "
        "private _pkg + facade (`from _pkg import *`) + stubs in four placements (package __init__.pyi, pkg-stubs, nested subpackage __init__ at two "
        "depths in both orders), judged against CPython importing the facade in a subprocess and ast on the .pyi; a single-file module modx.py + "
        "modx-stubs package with a stub-only submodule in the same search-path directory or in another one (every pair); a sourceless fast.pyc "
        "(INSPECTED runtime module, allow_inspection on) next to fast.pyi in both listing orders, judged against the inspection of the same "
        "bytecode alone; every fourth pair with ONE loader reused for loads with find_stubs_package on/off/on and off/on/off (pkg-stubs, with and "
        "without in-package stubs) against fresh-loader trees and the property's reading of the selected stubs; plus a hand-written corpus of edge "
        "pairs. After every load: one tree (parent/path/collection), aliases bound to objects of the tree and registered in their `aliases` dicts. "
        "non-trivial = at least one name present on both sides; distinct by (py source, pyi source)")
TRUSTED = ["abstraction: harness reads kind, docstring.value, [(p.name, str(p.annotation))], str(returns), overloads, str(annotation), runtime, "
           "imports and members (recursively, without touching Alias.target) of a live Griffe object into the model's `tree`"]
ASSUMPTIONS = ["aliases in generated programs point either to packages that are not on the search path (unresolvable at merge time) or to objects of a "
               "module of the same package; whether that module is discovered before the pair is fixed (resolvable streams) or random and modelled "
               "(interleaved stream), except listing orders in which a merge goes through an alias already bound to a dropped stub object",
               "member and parameter names are unique per scope (dict semantics) - theorem hypothesis wf/NoDup"]
ALLOWED_AXIOMS: list = []

KIND, DOC, PARAMS, RET, OV, ANN, RT, IMP, MEM = 1, 2, 3, 4, 5, 6, 7, 8, 9


# ----------------------------------------------------------------------------------------------------------------------
# generation of source pairs
# ----------------------------------------------------------------------------------------------------------------------
ANNS = ["int", "str", "float", "bytes", "list[int]", "dict[str, int]", "T.A", "int | None", "Callable[[int], str]"]
MOD_NAMES = ["a", "b", "c", "f", "g", "h", "K", "L", "M", "x", "y"]
CLS_NAMES = ["m", "n", "p", "q", "v", "w", "Inner"]
PARAM_NAMES = ["x", "y", "z", "u"]


def gen_func(rng, tag, method, allow_overloads=True, base=None):
    """A function spec. base = the runtime function it is a stub for (parameter names mostly reused)."""
    if base is not None and rng.random() < 0.85:
        names = [p for p in base["params"] if rng.random() < 0.8]
        extra = [p for p in PARAM_NAMES + ["extra"] if p not in base["params"] and rng.random() < 0.15]
        names = names + extra
        if rng.random() < 0.2:
            rng.shuffle(names)
    else:
        names = [p for p in PARAM_NAMES if rng.random() < 0.5]
    var = base["var"] if base is not None and rng.random() < 0.7 else rng.choice([0, 0, 0, 1, 2, 3])
    p_ann = 0.85 if tag == "S" else 0.35
    f = {"params": names, "anns": {p: (rng.choice(ANNS) if rng.random() < p_ann else None) for p in names + ["args", "kw"]},
         "var": var, "ret": rng.choice(ANNS) if rng.random() < (0.85 if tag == "S" else 0.3) else None,
         "doc": None, "novl": 0, "impl": True, "method": method, "async": rng.random() < 0.08}
    f["late"] = rng.randint(1, 2) if allow_overloads and LATE_OVERLOADS and rng.random() < (0.07 if tag == "S" else 0.03) else 0
    r = rng.random()
    if allow_overloads:
        if tag == "S":
            if r < 0.25:
                f["novl"], f["impl"] = rng.randint(1, 3), True
            elif r < 0.50:
                f["novl"], f["impl"] = rng.randint(1, 3), False
        else:
            if r < 0.15:
                f["novl"], f["impl"] = rng.randint(1, 2), True
            elif r < 0.19:
                f["novl"], f["impl"] = rng.randint(1, 2), False
    return f


def gen_entity(rng, tag, kind, depth, method, base=None):
    doc_p = 0.5
    if kind == "attr":
        return {"k": "attr", "ann": rng.choice(ANNS) if rng.random() < (0.8 if tag == "S" else 0.3) else None,
                "doc": rng.random() < doc_p}
    if kind == "func":
        f = gen_func(rng, tag, method, base=base.get("f") if base and base["k"] == "func" else None)
        return {"k": "func", "f": f, "doc": rng.random() < doc_p}
    if kind == "class":
        return {"k": "class", "doc": rng.random() < doc_p, "scope": None}   # scope filled by caller
    if kind == "alias":
        return {"k": "alias", "form": rng.choice(["from", "from", "import_as"]), "ext": rng.choice(["extpkg", "extpkg.sub", "otherpkg.deep.mod"])}
    raise ValueError(kind)


RT_KINDS = ["attr", "func", "func", "class", "alias"]
ST_KINDS = ["attr", "func", "func", "class", "alias"]


def gen_scope_pair(rng, depth, in_class):
    """Return (runtime scope, stubs scope): ordered lists of (name, entity)."""
    pool = CLS_NAMES if in_class else MOD_NAMES
    n_rt = rng.randint(0 if depth else 1, 4 if in_class else 6)
    names = rng.sample(pool, min(n_rt, len(pool)))
    rt, st = [], []
    for name in names:
        kind = rng.choice(RT_KINDS)
        if kind == "class" and depth >= 2:
            kind = "func"
        e = gen_entity(rng, "R", kind, depth, in_class)
        rt.append([name, e])
    for name, e in rt:
        if rng.random() < 0.7:
            r = rng.random()
            if r < 0.78:
                kind = e["k"] if e["k"] != "alias" else rng.choice(["func", "class", "attr"])
            else:
                kind = rng.choice([k for k in ST_KINDS if k != e["k"]])
            if kind == "class" and depth >= 2:
                kind = "attr"
            se = gen_entity(rng, "S", kind, depth, in_class, base=e)
            st.append([name, se])
    for name in pool:
        if name not in names and rng.random() < 0.18:
            kind = rng.choice(ST_KINDS)
            if kind == "class" and depth >= 2:
                kind = "func"
            st.append([name, gen_entity(rng, "S", kind, depth, in_class)])
    rng.shuffle(st)
    rt_by = dict((n, e) for n, e in rt)
    for name, se in st:
        if se["k"] == "class":
            re_ = rt_by.get(name)
            if re_ is not None and re_["k"] == "class":
                r_sc, s_sc = gen_scope_pair(rng, depth + 1, True)
                re_["scope"], se["scope"] = r_sc, s_sc
            else:
                se["scope"] = gen_scope_pair(rng, depth + 1, True)[1 if rng.random() < 0.5 else 0]
    for name, e in rt:
        if e["k"] == "class" and e["scope"] is None:
            e["scope"] = gen_scope_pair(rng, depth + 1, True)[0]
    # inheritance: a runtime class may derive from a class bound earlier in the same scope; its stubs may then re-declare
    # methods the runtime class only INHERITS (overload-only more often than not): nothing of the base may change
    st_by, earlier = dict((n, e) for n, e in st), []
    for name, e in rt:
        if e["k"] != "class":
            continue
        cands = [(bn, be) for bn, be in earlier if any(x["k"] == "func" for _, x in be["scope"] or [])]
        if cands and rng.random() < 0.65:
            bn, be = rng.choice(cands)
            e["base"] = bn
            se = st_by.get(name)
            if se is not None and se["k"] == "class":
                if rng.random() < 0.7:
                    se["base"] = bn
                own = {n for n, _ in e["scope"] or []} | {n for n, _ in se["scope"] or []}
                for fn, fe in be["scope"] or []:
                    if fe["k"] == "func" and fn not in own and rng.random() < 0.6:
                        f = gen_func(rng, "S", True, base=fe["f"])
                        if rng.random() < 0.6:
                            f["novl"], f["impl"], f["late"] = max(f["novl"], 1), False, 0
                        se["scope"] = (se["scope"] or []) + [[fn, {"k": "func", "f": f, "doc": False}]]
        earlier.append((name, e))
    return rt, st


def render_func(name, e, tag, ind, uid):
    f = e["f"]
    out = []

    def sig(variant):
        ps = []
        if f["method"]:
            ps.append("self")
        for p in f["params"]:
            a = f["anns"].get(p)
            if variant is not None:
                a = ANNS[(variant + len(p)) % len(ANNS)]
            ps.append(p + (f": {a}" if a else ""))
        if f["var"] & 1:
            a = f["anns"].get("args")
            ps.append("*args" + (f": {a}" if a else ""))
        if f["var"] & 2:
            a = f["anns"].get("kw")
            ps.append("**kw" + (f": {a}" if a else ""))
        ret = f["ret"] if variant is None else ANNS[(variant * 3 + 1) % len(ANNS)]
        return f"({', '.join(ps)})" + (f" -> {ret}" if ret else "")

    d = "async def" if f["async"] else "def"
    for k in range(f["novl"]):
        out.append(f"{ind}@overload")
        out.append(f"{ind}{d} {name}{sig(k + uid)}: ...")
    if f["impl"] or not f["novl"]:
        if e["doc"]:
            out.append(f"{ind}{d} {name}{sig(None)}:")
            out.append(f'{ind}    """{tag} doc of {name}."""')
        else:
            out.append(f"{ind}{d} {name}{sig(None)}: ...")
        for k in range(f.get("late", 0)):      # overloads AFTER the implementation: the group stays pending in the scope's buffer
            out.append(f"{ind}@overload")
            out.append(f"{ind}{d} {name}{sig(k + uid + 5)}: ...")
    return out


def render_scope(scope, tag, ind, counter):
    out = []
    for name, e in scope:
        counter[0] += 1
        k = e["k"]
        if k == "attr":
            if tag == "S":
                out.append(f"{ind}{name}: {e['ann']}" if e["ann"] else f"{ind}{name} = ...")
            else:
                out.append(f"{ind}{name}: {e['ann']} = {counter[0]}" if e["ann"] else f"{ind}{name} = {counter[0]}")
            if e["doc"]:
                out.append(f'{ind}"""{tag} doc of {name}."""')
        elif k == "func":
            out += render_func(name, e, tag, ind, counter[0])
        elif k == "class":
            out.append(f"{ind}class {name}({e['base']}):" if e.get("base") else f"{ind}class {name}:")
            if e["doc"]:
                out.append(f'{ind}    """{tag} doc of class {name}."""')
            body = render_scope(e["scope"] or [], tag, ind + "    ", counter)
            out += body if body else ([] if e["doc"] else [f"{ind}    pass"])
        elif k == "alias":
            if e["form"] == "from":
                out.append(f"{ind}from {e['ext']} import {name}")
            else:
                out.append(f"{ind}import {e['ext']} as {name}")
    return out


def render_module(scope, tag, doc, typing_import):
    lines = []
    if doc:
        lines.append(f'"""{tag} module docstring."""')
    if typing_import:
        lines.append("from typing import overload")
    lines += render_scope(scope, tag, "", [0 if tag == "R" else 50])
    return "\n".join(lines) + "\n"


def uses_overloads(scope):
    return any((e["k"] == "func" and (e["f"]["novl"] or e["f"].get("late"))) or (e["k"] == "class" and uses_overloads(e["scope"] or [])) for _, e in scope)


SAFE_ANNS = ["int", "str", "float", "bytes", "list[int]", "dict[str, int]", "int | None"]    # evaluable by CPython at import time


LATE_OVERLOADS = True


def gen_pair(rng, anns=None, aliases=True):
    """anns: annotation pool (SAFE_ANNS when the runtime file is going to be imported by CPython; those pairs are judged
    by reading the .pyi with ast and get no overloads written after their implementation)."""
    global ANNS, RT_KINDS, LATE_OVERLOADS
    old = ANNS, RT_KINDS
    LATE_OVERLOADS = anns is None
    if anns is not None:
        ANNS = anns
    if not aliases:
        RT_KINDS = [k for k in RT_KINDS if k != "alias"]
    try:
        rt, st = gen_scope_pair(rng, 0, False)
        py = render_module(rt, "R", rng.random() < 0.5, uses_overloads(rt) or rng.random() < 0.1)
        pyi = render_module(st, "S", rng.random() < 0.5, uses_overloads(st) or rng.random() < 0.1)
    finally:
        ANNS, RT_KINDS = old
    return py, pyi


F1_WITNESS = ("from extpkg import g\nA = 1\n", "from typing import overload\n@overload\ndef g(x: int) -> int: ...\n@overload\ndef g(x: str) -> str: ...\nA: int\n")
F2_WITNESS = ("class K:\n    def m(self): ...\nA = 1\n", "from typing import overload\n@overload\ndef K(x: int) -> int: ...\n@overload\ndef A(x: str) -> str: ...\n")

F5_WITNESS = ("A = 1\n", "from typing import overload\nclass S:\n    def g(self, x: float) -> float: ...\n    @overload\n    def g(self, x: int) -> int: ...\n")

F6_WITNESS = ('class X:\n    """R doc X."""\n    a = 1\ndef f(x): ...\n', "class X:\n    a: int\n    b: str\ndef f(x: int) -> int: ...\n")

F3_WITNESS = ("class C:\n    def m(self): ...\n    class D:\n        x = 1\n",
              "class C:\n    def m(self) -> int: ...\n    def only(self) -> int: ...\n    class D:\n        x: int\n        y: str\n")

# hand-written edge pairs (always run first): each reaches a row of the table that random generation reaches rarely
CORPUS = [
    # the defect repaired by the fix: commit: overloads + implementation in the stub
    ("def g(x): ...\n", "from typing import overload\n@overload\ndef g(x: int) -> int: ...\n@overload\ndef g(x: str) -> str: ...\ndef g(x): ...\n"),
    # overloads only in the stub (buffer path)
    ("def g(x):\n    '''R doc'''\n", "from typing import overload\n@overload\ndef g(x: int) -> int: ...\n@overload\ndef g(x: str) -> str: ...\n"),
    # runtime has overloads, stub has a plain def: runtime overloads stay
    ("from typing import overload\n@overload\ndef g(x: int) -> int: ...\ndef g(x): ...\n", "def g(x: float) -> float: ...\n"),
    # kind mismatches both ways
    ("K = 2\nclass C:\n    a = 1\ndef f(): ...\n", "class K:\n    z: int\nC: int\nf: str\n"),
    # docstring rule
    ('"""R"""\nA = 1\n"""R doc A"""\nB = 2\n', '"""S"""\nA: int\n"""S doc A"""\nB: str\n"""S doc B"""\n'),
    ('A = 1\ndef f(): ...\nclass C: ...\n', '"""S mod"""\nA: int\n"""S doc A"""\ndef f() -> int:\n    """S doc f"""\nclass C:\n    """S doc C"""\n'),
    # stub erases annotations it does not give
    ("def f(x: int, y: str) -> int: ...\nA: int = 1\n", "def f(x, z: int): ...\nA = ...\n"),
    # variadics by name
    ("def f(*args, **kw): ...\n", "def f(*args: int, **kw: str) -> None: ...\n"),
    # aliases on both sides, same and different names
    ("from extpkg import a, b\nimport extpkg.sub as c\ndef d(): ...\n", "from otherpkg import a, d, e\ndef b() -> int: ...\nc: int\n"),
    # nested classes, stub-only nested members, overload buffer inside a class
    ("class C:\n    class D:\n        def m(self, x): ...\n    def n(self): ...\n",
     "from typing import overload\nclass C:\n    class D:\n        def m(self, x: int) -> str: ...\n        def only(self) -> int: ...\n        y: int\n"
     "    @overload\n    def n(self) -> int: ...\n    @overload\n    def n(self, x: int) -> str: ...\n    class E:\n        z: int\n"),
    # stub-only class with its own pending overloads
    ("A = 1\n", "from typing import overload\nclass S:\n    @overload\n    def m(self) -> int: ...\n    @overload\n    def m(self, x: int) -> str: ...\n    def k(self) -> int: ...\n"),
    # repaired finding F1: alias at runtime, overloads only in the stub
    F1_WITNESS,
    # F1 inside a class
    ("class C:\n    from extpkg import g\n    A = 1\n", "from typing import overload\nclass C:\n    @overload\n    def g(self) -> int: ...\n    A: int\n"),
    # repaired finding F2: class / attribute at runtime, overloads only in the stub
    F2_WITNESS,
    # repaired finding F3 (as pkg/a_impl.py re-exported by pkg/m.py): stub-only members of a class reached through an alias
    F3_WITNESS,
    # empty sides
    ("", "A: int\n"),
    ("A = 1\n", ""),
    # implementation before the overloads in the stub (buffer stays pending and the member exists)
    ("def g(x): ...\n", "from typing import overload\ndef g(x: float) -> float: ...\n@overload\ndef g(x: int) -> int: ...\n"),
    # repaired finding F5: the same inside a stub-only class (the loader's second merge merged the moved class into itself)
    F5_WITNESS,
    # ... when the method already has an overload list (objects, not values: the pending group wins)
    ("A = 1\n", "from typing import overload\nclass S:\n    @overload\n    def g(self, x: int) -> int: ...\n    def g(self, x): ...\n"
               "    @overload\n    def g(self, x: str) -> str: ...\n    class T:\n        def h(self) -> int: ...\n        @overload\n        def h(self, x: int) -> int: ...\n"),
    # (as a_impl.py re-exported by the package __init__: the class is reached through an alias in a placement merged twice)
    ("class Shape:\n    def area(self): ...\n", "from typing import overload\nclass Shape:\n    def area(self) -> float: ...\n    class Style:\n        @overload\n"
     "        def get(self, key: int) -> int: ...\n        @overload\n        def get(self, key: str) -> str: ...\n        width: int\n"),
    # inherited method re-declared by the stubs of the subclass with overloads only: the base class must not change
    ("class Base:\n    def run(self, x): ...\n    def stop(self): ...\nclass Sub(Base):\n    own = 1\n",
     "from typing import overload\nclass Base:\n    def run(self, x: float) -> float: ...\nclass Sub(Base):\n    @overload\n    def run(self, x: int) -> int: ...\n"
     "    @overload\n    def run(self, x: str) -> str: ...\n    def stop(self) -> None: ...\n    own: int\n"),
    # stub-only class inside a class present on both sides, overload-only groups (buffers drained by the second merge, nothing else)
    ("class C:\n    a = 1\n", "from typing import overload\nclass C:\n    a: int\n    class S:\n        @overload\n        def m(self) -> int: ...\n"
                              "        @overload\n        def m(self, x: int) -> str: ...\n        def k(self) -> int: ...\n"),
]


# ----------------------------------------------------------------------------------------------------------------------
# abstraction: live Griffe object -> model tree (python lists for the s-expression protocol)
# ----------------------------------------------------------------------------------------------------------------------
def _sig(fn):
    ps = ", ".join(p.name + ("" if p.annotation is None else ": " + str(p.annotation)) for p in fn.parameters)
    return f"{fn.name}({ps})" + ("" if fn.returns is None else " -> " + str(fn.returns))


def _opt(v):
    return [] if v is None else [str(v)]


def abstract(o):
    if o.is_alias:
        return ["alias", o.target_path, bool(o.runtime)]
    kind = o.kind.value
    ov = getattr(o, "overloads", None)
    if ov is None:
        aov = ["none"]
    elif isinstance(ov, dict):
        aov = ["dict", [[k, [_sig(f) for f in v]] for k, v in ov.items()]]
    else:
        aov = ["list", [_sig(f) for f in ov]]
    is_fn = kind == "function"
    return ["obj", kind, [] if o.docstring is None else [o.docstring.value],
            [[p.name, _opt(p.annotation)] for p in o.parameters] if is_fn else [],
            _opt(o.returns) if is_fn else [], aov,
            _opt(o.annotation) if kind == "attribute" else [], bool(o.runtime),
            [[k, v] for k, v in sorted(o.imports.items())],
            [[n, abstract(m)] for n, m in o.members.items()]]


def norm_result(t, buffers=True):
    """What is compared of a merged tree: imports sorted.  buffers=False: contents of the per-scope pending-overloads dicts
    erased (the property does not speak about them; the model does: they are compared by (C))."""
    if t[0] == "alias":
        return t
    if t[0] == "alias_to":
        return [t[0], t[1], t[2], norm_result(t[3], buffers)]
    t = list(t)
    if t[OV][0] == "dict" and not buffers:
        t[OV] = ["dict", []]
    t[IMP] = sorted(t[IMP])
    t[MEM] = [[n, norm_result(m, buffers)] for n, m in t[MEM]]
    return t


def erase(t):
    return norm_result(t, buffers=False)


def norm_model(r):
    """model result (ok tree | ok (pyi, tree) | err e) -> comparable value."""
    if r[0] == "err":
        return ["err", r[1]]
    if r[0] == "raised":
        return ["raised", r[1], norm_result(r[2])]
    v = r[1]
    if v and v[0] in ("obj", "alias", "alias_to"):
        return ["ok", norm_result(v)]
    return ["ok", [v[0], norm_result(v[1])]]


ERR_ENUM = {"AliasResolutionError": "AliasResolutionError", "CyclicAliasError": "CyclicAliasError", "AttributeError": "AttributeError",
            "ValueError": "ValueError", "KeyError": "KeyError", "TypeError": "TypeError"}


def _err(e):
    return ["err", ERR_ENUM.get(type(e).__name__, "other:" + type(e).__name__)]


# ----------------------------------------------------------------------------------------------------------------------
# running the implementation
# ----------------------------------------------------------------------------------------------------------------------
class walk_order:
    """Inject the listing order seen by _griffe.finder (it uses os.walk for submodules)."""

    def __init__(self, reverse):
        self.reverse = reverse

    def __enter__(self):
        real = self.real = os.walk
        rev = self.reverse

        def walk(*a, **k):
            for root, dirs, files in real(*a, **k):
                dirs.sort(reverse=rev)
                files.sort(reverse=rev)
                yield root, dirs, files
        os.walk = walk

    def __exit__(self, *exc):
        os.walk = self.real


def unresolved_ok(obj, seen=None):
    """No alias of the merged tree got resolved (every generated alias targets a package that is not loaded)."""
    bad = []
    for n, m in obj.members.items():
        if m.is_alias:
            if m.resolved:
                bad.append(m.path)
        else:
            bad += unresolved_ok(m)
    return bad


def visit_file(path: Path, name="m"):
    import griffe
    return griffe.visit(name, filepath=path, code=path.read_text())


def write(path: Path, text: str):
    path.parent.mkdir(parents=True, exist_ok=True)
    path.write_text(text)


def run_direct(d: Path, py: str, pyi: str, stubs_first: bool):
    from _griffe.merger import merge_stubs
    write(d / "m.py", py)
    write(d / "m.pyi", pyi)
    a, b = visit_file(d / "m.py"), visit_file(d / "m.pyi")
    try:
        r = merge_stubs(b, a) if stubs_first else merge_stubs(a, b)
    except Exception as e:  # noqa: BLE001
        return _err(e), []
    return ["ok", [r.filepath.suffix == ".pyi", norm_result(abstract(r))]], unresolved_ok(r)


def run_load(search: Path, name: str, member, reverse=False, extra_paths=(), **kw):
    import griffe
    try:
        with walk_order(reverse):
            top = griffe.load(name, search_paths=[str(search), *extra_paths], allow_inspection=False, **kw)
        obj = top if member is None else top.members[member]
    except Exception as e:  # noqa: BLE001
        return _err(e), [], None
    return ["ok", [obj.filepath.suffix == ".pyi", norm_result(abstract(obj))]], unresolved_ok(top), top


def backref_problems(collection, limit=6):
    """Aliases and the `aliases` back-reference dicts after a load: every RESOLVED alias of the tree is bound to the object
    that sits in the tree at its target path (not to a detached one, e.g. of a replaced stubs module) and is registered in
    that object's `aliases` under its own path; every entry of an `aliases` dict names an alias of the tree bound to
    that very object.  Nothing is resolved by this check (only containment and the cached `_target` are read)."""
    paths, stack = {}, [(n, m) for n, m in collection.members.items()]
    while stack:
        path, obj = stack.pop()
        paths[path] = obj
        if not obj.is_alias:
            stack += [(f"{path}.{n}", m) for n, m in obj.members.items()]
    out = []
    for path, obj in paths.items():
        if obj.is_alias:
            tgt = obj._target
            if tgt is None:
                continue
            if paths.get(obj.target_path) is not tgt:
                out.append(f"alias {path} is bound to an object that is not the one at {obj.target_path} in the tree"
                           + (f" (it belongs to {tgt.module.filepath.name})" if _safe_module_file(tgt) else ""))
            elif not tgt.is_alias and tgt.aliases.get(path) is not obj:
                out.append(f"alias {path} is not registered in the aliases of {obj.target_path}")
            continue                      # (an alias proxies `aliases` to its target: reading it would resolve)
        for key, al in list(obj.aliases.items()):
            if key not in paths:
                continue                  # entries made by reading the members of an alias (throw-away aliases): not merging's
            if paths[key] is not al:
                out.append(f"{path}.aliases[{key!r}] is not the alias at that path in the tree")
            else:
                t = al._target          # through a chain the alias is registered on the FINAL target (Alias.aliases proxies)
                while t is not None and t.is_alias:
                    t = t._target
                if t is not obj:
                    out.append(f"{path}.aliases[{key!r}] is bound to another object")
        if len(out) >= limit:
            break
    return out


def _safe_module_file(obj):
    try:
        return obj.module.filepath is not None
    except Exception:  # noqa: BLE001
        return False


NESTED_KEYS = [f"{k}({o})" for k in ("nested", "deep", "leaf") for o in ("py first", "pyi first")]


def run_load_nested(search: Path, name: str, members: dict, reverse: bool, drop=()):
    """One load, several modules of it read: label -> (result, resolved aliases, structure problems).  `drop`: submodules
    attached below a judged module by the layout itself (not part of the pair)."""
    import griffe
    try:
        with walk_order(reverse):
            top = griffe.load(name, search_paths=[str(search)], allow_inspection=False)
    except Exception as e:  # noqa: BLE001
        return {k: (_err(e), [], []) for k in members}
    struct = tree_consistency(top, name, None, top.modules_collection) + backref_problems(top.modules_collection)
    out = {}
    for k, parts in members.items():
        try:
            obj = top
            for part in parts:
                obj = obj.members[part]
            t = abstract(obj)
            t[MEM] = [[n, x] for n, x in t[MEM] if not (n in drop and x[0] == "obj" and x[KIND] == "module")]
            out[k] = (["ok", [obj.filepath.suffix == ".pyi", norm_result(t)]], unresolved_ok(obj), struct)
        except Exception as e:  # noqa: BLE001
            out[k] = (_err(e), [], struct)
        struct = []
    return out


def tree_consistency(obj, path, parent, collection, out=None, depth=0):
    """The merged tree is one tree: every member's parent is its container, paths follow the containment, and
    everything hangs off the same modules collection - whichever file was attached first."""
    out = [] if out is None else out
    if len(out) > 8:
        return out
    if obj.parent is not parent:
        out.append(f"{path}: parent is {getattr(obj.parent, 'path', None)!r}, container is {getattr(parent, 'path', None)!r}")
    if obj.path != path:
        out.append(f"{path}: path is {obj.path!r}")
    if collection is not None:
        try:
            if obj.modules_collection is not collection:
                out.append(f"{path}: modules_collection is another collection")
        except Exception as e:  # noqa: BLE001
            out.append(f"{path}: modules_collection raises {type(e).__name__}")
    if not obj.is_alias:
        for n, m in obj.members.items():
            if m.name != n:
                out.append(f"{path}.{n}: name is {m.name!r}")
            tree_consistency(m, f"{path}.{n}", obj, collection, out, depth + 1)
    return out


def run_producer(d: Path, py: str, pyi: str, stubs_first: bool):
    """Producer API: modules visited WITHOUT parent= and attached with set_member, in either order."""
    import griffe
    write(d / "pkg" / "__init__.py", "")
    write(d / "pkg" / "m.py", py)
    write(d / "pkg" / "m.pyi", pyi)
    collection, lines = griffe.ModulesCollection(), griffe.LinesCollection()

    def visit(name, fn):
        return griffe.visit(name, filepath=d / "pkg" / fn, code=(d / "pkg" / fn).read_text(), modules_collection=collection, lines_collection=lines)
    try:
        pkg = visit("pkg", "__init__.py")
        collection.set_member("pkg", pkg)
        for fn in (("m.pyi", "m.py") if stubs_first else ("m.py", "m.pyi")):
            pkg.set_member("m", visit("m", fn))
        m = pkg.members["m"]
        res = ["ok", [m.filepath.suffix == ".pyi", norm_result(abstract(m))]]
    except Exception as e:  # noqa: BLE001
        return _err(e), [], []
    return res, unresolved_ok(pkg), tree_consistency(pkg, "pkg", None, collection) + backref_problems(collection)


# ----------------------------------------------------------------------------------------------------------------------
# the property, read declaratively over abstracted trees (no model, no fold): what the merged scope must be
# ----------------------------------------------------------------------------------------------------------------------
def spec_scope(s, o):
    buf = {k: v for k, v in s[OV][1]} if s[OV][0] == "dict" else {}
    smap = {n: t for n, t in s[MEM]}
    out = []
    for n, om in o[MEM]:
        om2 = om
        if buf.get(n) and om[0] == "obj" and om[KIND] == "function":     # an overload list belongs to a function
            om2 = list(om)
            om2[OV] = ["list", list(buf[n])]
        sm = smap.get(n)
        if sm is None or sm[0] == "alias" or om2[0] == "alias" or sm[KIND] != om2[KIND]:
            out.append([n, om2])
            continue
        r = list(om2)
        r[DOC] = om2[DOC] or sm[DOC]
        if om2[KIND] == "function":
            sp = {p: a for p, a in sm[PARAMS]}
            r[PARAMS] = [[p, sp[p] if p in sp else a] for p, a in om2[PARAMS]]
            r[RET] = sm[RET]
            if sm[OV][0] == "list" and sm[OV][1]:
                r[OV] = sm[OV]
        elif om2[KIND] == "attribute":
            r[ANN] = sm[ANN]
        else:
            r = spec_scope(sm, om2)
        out.append([n, r])
    onames = {n for n, _ in o[MEM]}
    for n, sm in s[MEM]:
        if n not in onames:
            sm2 = list(sm)
            sm2[2 if sm[0] == "alias" else RT] = False
            out.append([n, sm2])
    r = list(o)
    r[DOC] = o[DOC] or s[DOC]
    imp = dict((k, v) for k, v in o[IMP])
    imp.update((k, v) for k, v in s[IMP])
    r[IMP] = sorted([k, v] for k, v in imp.items())
    r[MEM] = out
    return r


def py_gaps(s, o, prefix=()):
    """Observation only (input distribution): runtime members that are not functions and carry the name of a pending overload
    group of the stubs (aliases / other objects) - the inputs of the repaired findings F1 / F2."""
    f1, f2 = [], []
    if s[0] != "obj" or o[0] != "obj":
        return f1, f2
    omap = {}
    for n, t in o[MEM]:
        omap.setdefault(n, t)
    if s[OV][0] == "dict":
        for fn, ovs in s[OV][1]:
            if ovs and fn in omap:
                m = omap[fn]
                if m[0] == "alias":
                    f1.append(prefix + (fn,))
                elif m[KIND] != "function":
                    f2.append(prefix + (fn,))
    for n, sm in s[MEM]:
        om = omap.get(n)
        if om is not None and om[0] == "obj" and sm[0] == "obj" and om[KIND] == sm[KIND] and om[KIND] in ("module", "class"):
            a, b = py_gaps(sm, om, prefix + (n,))
            f1 += a
            f2 += b
    return f1, f2


FIELDS = {KIND: "kind", DOC: "docstring", PARAMS: "parameters", RET: "returns", OV: "overloads", ANN: "annotation", RT: "runtime", IMP: "imports"}


def tree_diff(a, b, path=()):
    """Differences between two normalised trees as (path, field)."""
    if a[0] != b[0]:
        return [(path, "alias-vs-object")]
    if a[0] == "alias":
        return [] if a == b else [(path, "alias")]
    if a[0] == "alias_to":
        return ([] if a[:3] == b[:3] else [(path, "alias")]) + tree_diff(a[3], b[3], path)
    out = [(path, FIELDS[i]) for i in FIELDS if a[i] != b[i]]
    an, bn = [n for n, _ in a[MEM]], [n for n, _ in b[MEM]]
    if an != bn:
        out.append((path, f"member-names {an} vs {bn}"))
    bm = dict((n, t) for n, t in b[MEM])
    for n, t in a[MEM]:
        if n in bm:
            out += tree_diff(t, bm[n], path + (n,))
    return out


def lost_members(o, r, path=()):
    """Paths of runtime members (with kind / alias-ness) that are not in the merged tree."""
    out = []
    if o[0] != "obj":
        return out
    if r[0] != "obj":
        return [path]
    rm = dict((n, t) for n, t in r[MEM])
    for n, t in o[MEM]:
        if n not in rm or rm[n][0] != t[0] or (t[0] == "obj" and rm[n][KIND] != t[KIND]):
            out.append(path + (n,))
        else:
            out += lost_members(t, rm[n], path + (n,))
    return out


# ----------------------------------------------------------------------------------------------------------------------
# one case through every placement
# ----------------------------------------------------------------------------------------------------------------------
def has_nested_import(src):
    return any(l.startswith("    ") and (l.strip().startswith("from ") or l.strip().startswith("import ")) for l in src.split("\n"))


def run_case(ctx, idx, py, pyi, stream, use_model=True):
    d = ctx.scratch / f"case{idx}"
    d.mkdir(parents=True, exist_ok=True)
    case = {"py": py, "pyi": pyi}
    try:
        return _run_case(ctx, d, case, py, pyi, stream, use_model, idx)
    finally:
        shutil.rmtree(d, ignore_errors=True)


def _run_case(ctx, d, case, py, pyi, stream, use_model, idx):
    write(d / "in" / "m.py", py)
    write(d / "in" / "m.pyi", pyi)
    t_py = abstract(visit_file(d / "in" / "m.py"))
    t_pyi = abstract(visit_file(d / "in" / "m.pyi"))
    both = {n for n, _ in t_py[MEM]} & {n for n, _ in t_pyi[MEM]}
    ctx.case(case, bool(both))
    ctx.observe("stream", stream)
    observe_pair(ctx, t_pyi, t_py, 0)
    f1_paths, f2_paths = py_gaps(t_pyi, t_py)
    ctx.observe("pending_overloads_name_a_non_function", "alias" if f1_paths else ("object" if f2_paths else "no"))

    # ---- implementation, every placement
    impl = {}
    unresolved = {}
    impl["direct(py,pyi)"], unresolved["direct(py,pyi)"] = run_direct(d / "d1", py, pyi, False)
    impl["direct(pyi,py)"], unresolved["direct(pyi,py)"] = run_direct(d / "d2", py, pyi, True)
    write(d / "B" / "pkg" / "__init__.py", "")
    write(d / "B" / "pkg" / "m.py", py)
    write(d / "B" / "pkg" / "m.pyi", pyi)
    structure = {}
    impl["inpkg(py first)"], unresolved["inpkg(py first)"], top = run_load(d / "B", "pkg", "m", reverse=False)
    structure["inpkg(py first)"] = tree_consistency(top, "pkg", None, top.modules_collection) + backref_problems(top.modules_collection) if top is not None else []
    impl["inpkg(pyi first)"], unresolved["inpkg(pyi first)"], top = run_load(d / "B", "pkg", "m", reverse=True)
    structure["inpkg(pyi first)"] = tree_consistency(top, "pkg", None, top.modules_collection) + backref_problems(top.modules_collection) if top is not None else []
    impl["producer(py first)"], unresolved["producer(py first)"], structure["producer(py first)"] = run_producer(d / "P1", py, pyi, False)
    impl["producer(pyi first)"], unresolved["producer(pyi first)"], structure["producer(pyi first)"] = run_producer(d / "P2", py, pyi, True)
    if idx % 2:
        write(d / "A" / "m.py", py)
        write(d / "A" / "m.pyi", pyi)
        impl["toplevel"], unresolved["toplevel"], _ = run_load(d / "A", "m", None)
        ctx.observe("toplevel_form", "m.py+m.pyi")
    else:
        write(d / "A" / "m" / "__init__.py", py)
        write(d / "A" / "m" / "__init__.pyi", pyi)
        impl["toplevel"], unresolved["toplevel"], _ = run_load(d / "A", "m", None)
        ctx.observe("toplevel_form", "__init__.py+__init__.pyi")
    # in-package stubs on the __init__ of a NESTED subpackage (pkgn/sub/__init__.py + .pyi) and one level deeper
    # (pkgn/sub/deep/__init__.py + .pyi), next to a sibling pair inside the subpackage, under both listing orders
    names_py = {n for n, _ in t_py[MEM]} | {n for n, _ in t_pyi[MEM]}
    nested = not (names_py & {"sub", "deep", "leaf"})
    if nested:
        write(d / "N" / "pkgn" / "__init__.py", "")
        for sub in (("sub",), ("sub", "deep")):
            base = d.joinpath("N", "pkgn", *sub)
            write(base / "__init__.py", py)
            write(base / "__init__.pyi", pyi)
        write(d / "N" / "pkgn" / "sub" / "leaf.py", py)
        write(d / "N" / "pkgn" / "sub" / "leaf.pyi", pyi)
        for rev in (False, True):
            tag = "pyi first" if rev else "py first"
            got = run_load_nested(d / "N", "pkgn", {"nested": ("sub",), "deep": ("sub", "deep"), "leaf": ("sub", "leaf")}, rev, ("deep", "leaf"))
            for k, (res, unres, struct) in got.items():
                impl[f"{k}({tag})"], unresolved[f"{k}({tag})"], structure[f"{k}({tag})"] = res, unres, struct
    ctx.observe("nested_subpackage_placements", int(nested))
    extra_stub, extra_rt, nested_c = (idx // 2) % 2 == 1, (idx // 4) % 2 == 1, nested and (idx // 8) % 2 == 1
    # a name bound by the runtime package's __init__ to something that is NOT a module (attribute / function / class / import)
    # and carried by a SUBMODULE of the stubs package: kind mismatch at module level, the runtime member must stay
    clash = (None, "attribute", "function", None, "class", "alias")[idx % 6]
    clash_src = {None: "", "attribute": "clash_n = 1\n", "function": "def clash_n(x):\n    \"\"\"R doc of clash_n.\"\"\"\n",
                 "class": "class clash_n:\n    a = 1\n", "alias": "from extpkg import clash_n\n"}[clash]
    write(d / "C" / "pkgc" / "__init__.py", '"""R package."""\n' + clash_src)
    if clash:
        write(d / "C" / "pkgc-stubs" / "clash_n.pyi", "def s() -> int: ...\n")
    ctx.observe("stubs_package_submodule_named_like_a_runtime_member", clash or "no")
    write(d / "C" / "pkgc" / "m.py", py)
    shadow = (idx // 16) % 2 == 1       # the stubs __init__ also binds the name of a stubs submodule (loaded over it before the second merge)
    write(d / "C" / "pkgc-stubs" / "__init__.pyi", "P: int\n" + ("m: int\n" if shadow else ""))
    ctx.observe("stubs_package_submodule_shadows_stub_member", int(shadow))
    write(d / "C" / "pkgc-stubs" / "m.pyi", pyi)
    if nested_c:     # the same pair once more as a nested subpackage of the runtime package and of the stubs package
        write(d / "C" / "pkgc" / "sub" / "__init__.py", py)
        write(d / "C" / "pkgc-stubs" / "sub" / "__init__.pyi", pyi)
    ctx.observe("stubs_package_nested_subpackage", int(nested_c))
    if extra_stub:
        write(d / "C" / "pkgc-stubs" / "sonly.pyi", "def s() -> int: ...\n")
    if extra_rt:
        write(d / "C" / "pkgc" / "ronly.py", "def r(): ...\n")
    impl["stubs-package"], unresolved["stubs-package"], topc = run_load(d / "C", "pkgc", None, find_stubs_package=True)
    structure["stubs-package"] = tree_consistency(topc, "pkgc", None, topc.modules_collection) + backref_problems(topc.modules_collection) if topc is not None else []
    # a SINGLE-FILE runtime module + a <name>-stubs package with a stub-only submodule, installed in the same search-path
    # directory (the site-packages layout) or in another one
    same_dir = idx % 2 == 0
    sdir = d / "S" / ("site" if same_dir else "typings")
    write(d / "S" / "site" / "modx.py", py)
    write(sdir / "modx-stubs" / "__init__.pyi", pyi)
    write(sdir / "modx-stubs" / "extra.pyi", "def s() -> int: ...\n")
    ctx.observe("single_file_module_stubs_package", "same directory" if same_dir else "another directory")
    impl["single-file + stubs package"], unresolved["single-file + stubs package"], tops = run_load(
        d / "S" / "site", "modx", None, find_stubs_package=True, **({} if same_dir else {"extra_paths": [str(sdir)]}))
    structure["single-file + stubs package"] = tree_consistency(tops, "modx", None, tops.modules_collection) if tops is not None else []
    for k, probs in structure.items():
        if probs:
            ctx.property_failure({**case, "placement": k}, {"merged_tree_is_not_one_tree_or_alias_backrefs_broken": probs[:8]})

    for k, v in impl.items():
        ctx.observe("outcome:" + k.split("(")[0], v[0] if v[0] == "ok" else v[1])

    # ---- direct evaluation of the property on the implementation
    expected = erase(spec_scope(t_pyi, t_py))
    placements_m = {}

    def judge_tree(k, tree):
        tree = erase(tree)
        lost = lost_members(t_py, tree)
        if lost:
            ctx.property_failure({**case, "placement": k}, {"lost_runtime_members": lost}, finding=None)
        diffs = tree_diff(tree, expected)
        if diffs:
            ctx.property_failure({**case, "placement": k}, {"differences_from_property": [list(map(str, x)) for x in diffs[:10]],
                                                            "merged": tree, "expected": expected})

    for k, v in impl.items():
        if v[0] == "err":
            ctx.property_failure({**case, "placement": k}, {"raised": v[1], "expected": "no exception"})
            continue
        is_pyi, tree = v[1]
        if k == "stubs-package":
            mm = dict((n, t) for n, t in tree[MEM])
            if "m" not in mm:
                ctx.property_failure({**case, "placement": k}, {"lost": "submodule m"})
                continue
            # the package level itself: P is stub-only, sonly is a stub-only submodule, ronly stays
            pk = {n: (t[RT] if t[0] == "obj" else t[2]) for n, t in tree[MEM]}
            want = {"m": True, "P": False}
            if extra_stub:
                want["sonly"] = False
            if extra_rt:
                want["ronly"] = True
            if nested_c:
                want["sub"] = True
            if clash:
                want["clash_n"] = True
                got_kind = None if "clash_n" not in mm else ("alias" if mm["clash_n"][0] == "alias" else mm["clash_n"][KIND])
                if got_kind != clash:
                    ctx.property_failure({**case, "placement": k, "pkgc/__init__.py": clash_src, "pkgc-stubs/clash_n.pyi": "def s() -> int: ..."},
                                         {"runtime_member_named_like_a_stubs_submodule": got_kind, "expected": clash + " (kind mismatch: left alone)"})
            if pk != want or tree[DOC] != ["R package."]:
                ctx.property_failure({**case, "placement": k}, {"package_level": pk, "expected": want, "doc": tree[DOC]})
            if nested_c:
                placements_m["stubs-package nested"] = erase(mm["sub"])
                judge_tree("stubs-package nested", mm["sub"])
            tree = mm["m"]
        if k == "single-file + stubs package":
            mm = dict((n, t) for n, t in tree[MEM])
            ex = mm.get("extra")
            if ex is None or ex[0] != "obj" or ex[KIND] != "module" or ex[RT] or [n for n, _ in ex[MEM]] != ["s"]:
                ctx.property_failure({**case, "placement": k, "stubs package in": "the same directory" if same_dir else "another directory"},
                                     {"stub_only_submodule_of_the_stubs_package": "missing" if ex is None else "not a stub-only module with its member",
                                      "expected": "modx.extra (runtime=False) with s"})
            tree = list(tree)
            tree[MEM] = [[n, t] for n, t in tree[MEM] if n != "extra"]
        placements_m[k] = erase(tree)
        if is_pyi:
            ctx.property_failure({**case, "placement": k}, {"result_is": "the stubs module (.pyi filepath)", "expected": "the runtime module"})
            continue
        judge_tree(k, tree)
        if unresolved[k]:
            ctx.property_failure({**case, "placement": k}, {"aliases_resolved_by_merging": unresolved[k]})
    # order independence / placement independence
    trees = list(placements_m.items())
    for (k1_, v1), (k2_, v2) in zip(trees, trees[1:]):
        if v1 != v2:
            ctx.property_failure({**case, "placement": f"{k1_} vs {k2_}"}, {"order_or_placement_dependent": [list(map(str, x)) for x in tree_diff(v1, v2)[:10]]})
    for fam in ("inpkg", "nested", "deep", "leaf"):
        if f"{fam}(py first)" not in impl:
            continue
        a, b = impl[f"{fam}(py first)"], impl[f"{fam}(pyi first)"]
        sa, sb = (a[1][0] if a[0] == "ok" else a[1]), (b[1][0] if b[0] == "ok" else b[1])
        if sa != sb:   # which module survived / which error; tree differences are reported above
            ctx.property_failure({**case, "placement": fam + " both orders"}, {"py first: result is .pyi / error": sa, "pyi first: result is .pyi / error": sb})
    if impl["direct(py,pyi)"] != impl["direct(pyi,py)"]:
        ctx.property_failure({**case, "placement": "merge_stubs argument order"}, {"a,b": str(impl["direct(py,pyi)"])[:300], "b,a": str(impl["direct(pyi,py)"])[:300]})

    if not use_model:
        return None
    # ---- model
    fpy, fpyi = [False, t_py], [True, t_pyi]
    top_c = abstract(visit_file(d / "C" / "pkgc" / "__init__.py", "pkgc"))
    top_c[MEM] = top_c[MEM] + [["m", t_py]] + ([["ronly", abstract(visit_file(d / "C" / "pkgc" / "ronly.py", "ronly"))]] if extra_rt else []) \
        + ([["sub", t_py]] if nested_c else [])
    stub_init_c = abstract(visit_file(d / "C" / "pkgc-stubs" / "__init__.pyi", "pkgc"))
    subs_c = [["m", t_pyi]] + ([["sonly", abstract(visit_file(d / "C" / "pkgc-stubs" / "sonly.pyi", "sonly"))]] if extra_stub else []) \
        + ([["sub", t_pyi]] if nested_c else []) \
        + ([["clash_n", abstract(visit_file(d / "C" / "pkgc-stubs" / "clash_n.pyi", "clash_n"))]] if clash else [])
    queries = {
        "direct(py,pyi)": ["merge_stubs", fpy, fpyi],
        "direct(pyi,py)": ["merge_stubs", fpyi, fpy],
        "inpkg(py first)": ["set_member", fpy, fpyi],
        "inpkg(pyi first)": ["set_member", fpyi, fpy],
        "producer(py first)": ["set_member", fpy, fpyi],
        "producer(pyi first)": ["set_member", fpyi, fpy],
        "toplevel": ["load_package", t_py, t_pyi, []],
        "stubs-package": ["load_package", top_c, stub_init_c, sorted(subs_c)],   # os.walk order within pkgc-stubs: m.pyi, sonly.pyi, sub/
        "merge": ["merge", t_pyi, t_py],
        "single-file + stubs package": ["load_package", t_py, t_pyi, [["extra", abstract(visit_file(sdir / "modx-stubs" / "extra.pyi", "extra"))]]],
    }
    for k in NESTED_KEYS:
        if k in impl:
            queries[k] = ["set_member", fpyi, fpy] if "pyi first" in k else ["set_member", fpy, fpyi]
    return case, impl, queries, (f1_paths, f2_paths), expected


def observe_pair(ctx, s, o, depth):
    ctx.observe("depth", depth)
    smap = dict((n, t) for n, t in s[MEM])
    for n, om in o[MEM]:
        sm = smap.get(n)
        ok = om[KIND] if om[0] == "obj" else "alias"
        sk = "-" if sm is None else (sm[KIND] if sm[0] == "obj" else "alias")
        ctx.observe("kind_pair(runtime,stubs)", f"{ok},{sk}")
        if sm is not None and om[0] == "obj" and sm[0] == "obj" and om[KIND] == sm[KIND]:
            ctx.observe("doc(runtime,stubs)", f"{int(bool(om[DOC]))}{int(bool(sm[DOC]))}")
            if om[KIND] == "function":
                on, sn = {p for p, _ in om[PARAMS]}, {p for p, _ in sm[PARAMS]}
                ctx.observe("params", ("same" if on == sn else "subset" if sn < on else "extra" if sn > on else "mixed"))
                ctx.observe("overloads(runtime,stubs)", f"{om[OV][0]}{len(om[OV][1]) if om[OV][0] == 'list' else ''},{sm[OV][0]}{len(sm[OV][1]) if sm[OV][0] == 'list' else ''}")
            if om[KIND] in ("class", "module"):
                observe_pair(ctx, sm, om, depth + 1)
    onames = {n for n, _ in o[MEM]}
    for n, sm in s[MEM]:
        if n not in onames:
            ctx.observe("stub_only", sm[KIND] if sm[0] == "obj" else "alias")
    if s[OV][0] == "dict":
        for fn, ovs in s[OV][1]:
            if ovs:
                om = dict((n, t) for n, t in o[MEM]).get(fn)
                ctx.observe("pending_overloads_hit", "absent" if om is None else (om[KIND] if om[0] == "obj" else "alias"))


# ----------------------------------------------------------------------------------------------------------------------
# stubs that merely IMPORT names whose targets are loaded (`from pkg.a_impl import convert` in the .pyi while the runtime
# module defines or imports `convert` itself).  Imported stub objects are never merged and nothing gets resolved:
# the merged module is the runtime module plus the stub-only imports (runtime=False, unresolved), the imported module
# is untouched.  In-package m.py/m.pyi in both orders (also against the model), and the package's own __init__ pair
# with the stubs inside the package or in pkg-stubs.
# ----------------------------------------------------------------------------------------------------------------------
def _alias_objects(obj, out, seen):
    """Every alias object reachable by containment (never through an alias), without triggering any resolution."""
    if id(obj) in seen:
        return out
    seen.add(id(obj))
    for m in list(obj.members.values()):
        if m.is_alias:
            out.append(m)
        else:
            _alias_objects(m, out, seen)
    return out


class merge_watch:
    """Attribute alias resolution to MERGING itself (the property: "merging never resolves aliases"): wraps the merge_stubs
    entry points used by the loader and by set_member and records the aliases of the two merged trees, and of the
    packages they live in, whose `resolved` flag turns true during a merge_stubs call.  Other loader phases
    (expand_exports evaluating `module.modules`, wildcard expansion) may resolve aliases: that is not merging."""

    def __enter__(self):
        import _griffe.loader as L
        import _griffe.mixins as X
        self.mods, self.orig, self.resolved = (L, X), (L.merge_stubs, X.merge_stubs), []
        watch = self

        def wrap(orig):
            def merge_stubs(mod1, mod2):
                roots = [mod1, mod2]
                for m in (mod1, mod2):
                    try:
                        roots.append(m.package)
                    except Exception:  # noqa: BLE001  (a parentless stub module has no package)
                        pass
                seen, aliases = set(), []
                for r in roots:
                    _alias_objects(r, aliases, seen)
                before = [a for a in aliases if not a.resolved]
                try:
                    return orig(mod1, mod2)
                finally:
                    watch.resolved += [a.path + " -> " + a.target_path for a in before if a.resolved]
            return merge_stubs
        L.merge_stubs, X.merge_stubs = wrap(self.orig[0]), wrap(self.orig[1])
        return self

    def __exit__(self, *exc):
        self.mods[0].merge_stubs, self.mods[1].merge_stubs = self.orig
        return False


def all_unresolved(obj, skip=()):
    bad = []
    for n, m in obj.members.items():
        if n in skip:
            continue
        if m.is_alias:
            if m.resolved:
                bad.append(m.path + " -> " + m.target_path)
        elif not m.is_module:
            bad += all_unresolved(m)
    return bad


def run_stub_import_case(ctx, idx, py, pyi, use_model=True, layout=None):
    import griffe
    d = ctx.scratch / f"imp{idx}"
    try:
        impl_src = pyi                                   # stub syntax is valid Python: the module the stubs import from
        write(d / "in" / "a_impl.py", impl_src)
        t_impl = abstract(visit_file(d / "in" / "a_impl.py", "a_impl"))
        names = [n for n, t in t_impl[MEM] if t[0] == "obj"]
        if not names:
            return
        write(d / "in" / "m0.py", py)
        local = {n for n, _ in abstract(visit_file(d / "in" / "m0.py"))[MEM]}
        shared = [n for n in names if n not in local][:2]          # imported the same way on both sides
        m_py = py + ("from pkg.a_impl import " + ", ".join(shared) + "\n" if shared else "")
        m_pyi = "from pkg.a_impl import " + ", ".join(names) + "\n"
        case = {"a_impl.py": impl_src, "m.py": m_py, "m.pyi": m_pyi, "stream": "stubs-import-loaded-objects"}
        write(d / "in" / "m.py", m_py)
        write(d / "in" / "m.pyi", m_pyi)
        t_mpy, t_mpyi = abstract(visit_file(d / "in" / "m.py")), abstract(visit_file(d / "in" / "m.pyi"))
        expected = erase(spec_scope(t_mpyi, t_mpy))
        ctx.case(case, bool(local & set(names)) or bool(shared))
        ctx.observe("stream", "stubs-import-loaded-objects")
        ctx.observe("stub_import(runtime side)", "local+imported" if (local & set(names)) and shared else "local" if local & set(names) else
                    "imported" if shared else "absent")
        # model: runtime aliases to loaded targets carry the target's value
        impl_by = dict((n, t) for n, t in t_impl[MEM])
        t_model = list(t_mpy)
        t_model[MEM] = [[n, (["alias_to", t[1], t[2], impl_by[n]] if t[0] == "alias" and n in shared else t)] for n, t in t_mpy[MEM]]
        model_r = ctx.model([["set_member", [False, t_model], [True, t_mpyi]], ["set_member", [True, t_mpyi], [False, t_model]]]) if use_model else None

        def judge(label, mod, impl_mod, skip=(), watched=None):
            got = abstract(mod)
            got[MEM] = [[n, t] for n, t in got[MEM] if n not in skip]
            got = norm_result(got)
            if mod.filepath.suffix == ".pyi":
                ctx.property_failure({**case, "placement": label}, {"result_is": "the stubs module", "expected": "the runtime module"})
                return None
            diffs = tree_diff(erase(got), expected)
            if diffs:
                ctx.property_failure({**case, "placement": label},
                                     {"merged_an_object_the_stubs_only_import_or_lost_something": [list(map(str, x)) for x in diffs[:10]],
                                      "merged": got, "expected": expected})
            # aliases here CAN resolve (their targets are loaded): only resolution during a merge_stubs call counts
            res = watched.resolved if watched is not None else all_unresolved(mod, skip)
            if res:
                ctx.property_failure({**case, "placement": label}, {"aliases_resolved_by_merging": res[:10]})
            br = backref_problems(mod.modules_collection)
            if br:
                ctx.property_failure({**case, "placement": label}, {"alias_backrefs_broken": br})
            after = norm_result(abstract(impl_mod))
            if after != norm_result(t_impl):
                ctx.property_failure({**case, "placement": label},
                                     {"imported_module_modified": [list(map(str, x)) for x in tree_diff(after, norm_result(t_impl))[:10]]})
            return got

        base_case = case
        for lay, k in [(lay, k) for lay in layouts_for(idx, layout) for k in (0, 1)]:
            parts, orders = lay_pair(d / "P", lay, m_py, m_pyi, {"a_impl.py": impl_src})
            label = f"inpkg({lay}, {'py' if k == 0 else 'pyi'} first)"
            case = {**base_case, "layout": lay}
            ctx.observe("layout:stubs-import-loaded-objects", lay)
            try:
                with walk_listed(orders[k]), merge_watch() as w:
                    pkg = griffe.load("pkg", search_paths=[str(d / "P")], allow_inspection=False)
                got = judge(label, member_at(pkg, parts), pkg.members["a_impl"], watched=w)
            except Exception as e:  # noqa: BLE001
                ctx.property_failure({**case, "placement": label}, {"raised": type(e).__name__, "expected": "no exception"})
                continue
            if got is not None and model_r is not None:
                mo = norm_model(model_r[k])
                # the model's AlTo members are plain aliases in the live abstraction: compare them as aliases
                if mo[0] == "ok":
                    t = mo[1][1]
                    t[MEM] = [[n, (["alias", x[1], x[2]] if x[0] == "alias_to" else x)] for n, x in t[MEM]]
                if mo != ["ok", [False, got]]:
                    ctx.tie_failure("correspondence", f"model vs griffe [stubs-import-loaded-objects, {label}]",
                                    {"model": str(mo)[:600], "impl": str(got)[:600]}, case)
        case = base_case
        # the package's own __init__ pair: stubs inside the package / in pkg-stubs
        stubs_pkg = idx % 2 == 1
        write(d / "T" / "site" / "pkg" / "__init__.py", m_py)
        write(d / "T" / "site" / "pkg" / "a_impl.py", impl_src)
        if stubs_pkg:
            write(d / "T" / "stubs" / "pkg-stubs" / "__init__.pyi", m_pyi)
            paths = [str(d / "T" / "stubs"), str(d / "T" / "site")]
        else:
            write(d / "T" / "site" / "pkg" / "__init__.pyi", m_pyi)
            paths = [str(d / "T" / "site")]
        label = "package __init__ + " + ("pkg-stubs" if stubs_pkg else "__init__.pyi")
        try:
            with merge_watch() as w:
                top = griffe.load("pkg", search_paths=paths, allow_inspection=False, find_stubs_package=True, try_relative_path=False)
            judge(label, top, top.members["a_impl"], skip=("a_impl",), watched=w)
            ctx.observe("outcome:stubs-import-loaded-objects", "ok")
        except Exception as e:  # noqa: BLE001
            ctx.property_failure({**case, "placement": label}, {"raised": type(e).__name__, "expected": "no exception"})
    finally:
        shutil.rmtree(d, ignore_errors=True)


# ----------------------------------------------------------------------------------------------------------------------
# classes whose BASE lives in another loaded module: pkg/base_mod.py = the generated runtime code, pkg/m.py derives one class
# per class of base_mod (`class Sub_C(C): own = 1`), pkg/m.pyi re-declares every inherited method in the subclass with
# @overload only.  The stubs of the subclass say nothing about the base: base_mod must be left exactly as visited, the merge
# must not resolve anything (no MRO / bases lookup), the subclass gets `own: int` and no other member.
# ----------------------------------------------------------------------------------------------------------------------
def run_inherited_case(ctx, idx, py):
    import griffe
    d = ctx.scratch / f"inh{idx}"
    try:
        write(d / "in" / "base_mod.py", py)
        t_base = abstract(visit_file(d / "in" / "base_mod.py", "base_mod"))
        classes = [(n, [fn for fn, f in t[MEM] if f[0] == "obj" and f[KIND] == "function"]) for n, t in t_base[MEM] if t[0] == "obj" and t[KIND] == "class"]
        classes = [(n, fns) for n, fns in classes if fns][:3]
        if not classes:
            return
        m_py = "from pkg.base_mod import " + ", ".join(n for n, _ in classes) + "\n" + "".join(f"class Sub_{n}({n}):\n    own = 1\n" for n, _ in classes)
        m_pyi = "from typing import overload\nfrom pkg.base_mod import " + ", ".join(n for n, _ in classes) + "\n" + "".join(
            f"class Sub_{n}({n}):\n" + "".join(f"    @overload\n    def {fn}(self, x: int) -> int: ...\n    @overload\n    def {fn}(self, x: str) -> str: ...\n" for fn in fns)
            + "    own: int\n" for n, fns in classes)
        case = {"base_mod.py": py, "m.py": m_py, "m.pyi": m_pyi, "stream": "inherited-from-loaded-module"}
        ctx.case(case, True)
        ctx.observe("stream", "inherited-from-loaded-module")
        want_base = norm_result(t_base)
        for k in (0, 1, 2):
            label = ("in-package, py first", "in-package, pyi first", "pkg-stubs")[k]
            shutil.rmtree(d / "P", ignore_errors=True)
            write(d / "P" / "site" / "pkg" / "__init__.py", "")
            write(d / "P" / "site" / "pkg" / "base_mod.py", py)
            write(d / "P" / "site" / "pkg" / "m.py", m_py)
            if k == 2:
                write(d / "P" / "stubs" / "pkg-stubs" / "__init__.pyi", "")
                write(d / "P" / "stubs" / "pkg-stubs" / "m.pyi", m_pyi)
                paths = [str(d / "P" / "stubs"), str(d / "P" / "site")]
            else:
                write(d / "P" / "site" / "pkg" / "m.pyi", m_pyi)
                paths = [str(d / "P" / "site")]
            first = ["__init__.py", "base_mod.py"] + (["m.py", "m.pyi"] if k != 1 else ["m.pyi", "m.py"])
            try:
                with walk_listed(first), merge_watch() as w:
                    pkg = griffe.load("pkg", search_paths=paths, allow_inspection=False, find_stubs_package=True, try_relative_path=False)
                m = pkg.members["m"]
                got_base = norm_result(abstract(pkg.members["base_mod"]))
                subs = {n: [[mn, x.kind.value, None if x.is_alias or not x.is_attribute or x.annotation is None else str(x.annotation), bool(x.runtime)]
                            for mn, x in m.members[f"Sub_{n}"].members.items()] for n, _ in classes}
            except Exception as e:  # noqa: BLE001
                ctx.observe("outcome:inherited", type(e).__name__)
                ctx.property_failure({**case, "placement": label}, {"raised": type(e).__name__, "expected": "no exception"})
                continue
            ctx.observe("outcome:inherited", "ok")
            if got_base != want_base:
                ctx.property_failure({**case, "placement": label}, {"base_module_modified_by_the_stubs_of_the_subclass":
                                                                    [list(map(str, x)) for x in tree_diff(got_base, want_base)[:10]]})
            if w.resolved:
                ctx.property_failure({**case, "placement": label}, {"aliases_resolved_by_merging": w.resolved[:10]})
            for n, got in subs.items():
                if got != [["own", "attribute", "int", True]]:
                    ctx.property_failure({**case, "placement": label}, {f"members_of_Sub_{n}": got, "expected": [["own", "attribute", "int", True]]})
            if m.filepath.suffix == ".pyi":
                ctx.property_failure({**case, "placement": label}, {"result_is": "the stubs module", "expected": "the runtime module"})
    finally:
        shutil.rmtree(d, ignore_errors=True)


# ----------------------------------------------------------------------------------------------------------------------
# runtime modules that are INSPECTED, not visited: a sourceless pkg/fast.pyc next to pkg/fast.pyi (allow_inspection on), both
# listing orders.  The runtime side of the pair is what inspection alone makes of the module (same bytecode in a package
# without the .pyi); the merged module must be the property's reading of (that tree, the visited stubs) and the model's.
# ----------------------------------------------------------------------------------------------------------------------
def run_compiled_case(ctx, idx, py, pyi, use_model=True):
    import py_compile
    import sys
    import griffe
    d = ctx.scratch / f"cmp{idx}"
    ref, pk = f"c19ref{idx}", f"c19cmp{idx}"
    try:
        write(d / "src" / "fast.py", py)
        write(d / "R" / ref / "__init__.py", "")
        write(d / "B" / pk / "__init__.py", "")
        write(d / "B" / pk / "fast.pyi", pyi)
        try:
            py_compile.compile(str(d / "src" / "fast.py"), cfile=str(d / "R" / ref / "fast.pyc"), doraise=True)
            shutil.copy(d / "R" / ref / "fast.pyc", d / "B" / pk / "fast.pyc")
            t_insp = abstract(griffe.load(ref, search_paths=[str(d / "R")], allow_inspection=True).members["fast"])
        except Exception as e:  # noqa: BLE001   (the generated module cannot be imported on its own: not a case)
            ctx.observe("compiled_runtime_module", "not importable: " + type(e).__name__)
            return
        t_pyi = abstract(visit_file(d / "B" / pk / "fast.pyi", "fast"))
        case = {"fast.pyc (compiled from)": py, "fast.pyi": pyi, "stream": "inspected-runtime-module"}
        ctx.case(case, bool({n for n, _ in t_insp[MEM]} & {n for n, _ in t_pyi[MEM]}))
        ctx.observe("stream", "inspected-runtime-module")
        ctx.observe("compiled_runtime_module", "inspected")
        expected = erase(spec_scope(t_pyi, t_insp))
        model_r = ctx.model([["set_member", [False, t_insp], [True, t_pyi]], ["set_member", [True, t_pyi], [False, t_insp]]]) if use_model else None
        got = {}
        for k, rev in enumerate((False, True)):
            label = "pyi first" if rev else "pyc first"
            try:
                with walk_order(rev):
                    pkg = griffe.load(pk, search_paths=[str(d / "B")], allow_inspection=True)
                m = pkg.members["fast"]
                live = ["ok", [m.filepath.suffix == ".pyi", norm_result(abstract(m))]]
            except Exception as e:  # noqa: BLE001
                ctx.property_failure({**case, "order": label}, {"raised": type(e).__name__, "expected": "no exception"})
                continue
            finally:
                for name in [n for n in sys.modules if n == pk or n.startswith(pk + ".")]:
                    del sys.modules[name]
            got[label] = live
            if live[1][0]:
                ctx.property_failure({**case, "order": label}, {"result_is": "the stubs module (.pyi filepath)", "expected": "the inspected runtime module"})
                continue
            lost = lost_members(t_insp, live[1][1])
            if lost:
                ctx.property_failure({**case, "order": label}, {"lost_runtime_members": lost})
            diffs = tree_diff(erase(live[1][1]), expected)
            if diffs:
                ctx.property_failure({**case, "order": label}, {"differences_from_property": [list(map(str, x)) for x in diffs[:10]]})
            if model_r is not None and norm_model(model_r[k]) != live:
                ctx.tie_failure("correspondence", f"model vs griffe [inspected-runtime-module, {label}]",
                                {"model": str(norm_model(model_r[k]))[:600], "impl": str(live)[:600]}, case)
        if len(got) == 2 and got["pyc first"] != got["pyi first"]:
            ctx.property_failure(case, {"order_dependent": [list(map(str, x)) for x in tree_diff(got["pyc first"][1][1], got["pyi first"][1][1])[:10]],
                                        "pyc first: result is .pyi": got["pyc first"][1][0], "pyi first: result is .pyi": got["pyi first"][1][0]})
    finally:
        for name in [n for n in sys.modules if n.split(".")[0] in (ref, pk)]:
            del sys.modules[name]
        shutil.rmtree(d, ignore_errors=True)


# ----------------------------------------------------------------------------------------------------------------------
# history: ONE loader reused for several loads of the same package with find_stubs_package on, off, on (and off, on, off),
# with a separate pkg-stubs package and with / without stubs shipped in the package: every load must give the tree a FRESH
# loader gives for that setting, which must be the property's reading of the stubs that the setting selects (pkg-stubs when
# on - it takes precedence over in-package stubs -, the in-package __init__.pyi or none when off).
# ----------------------------------------------------------------------------------------------------------------------
def run_reuse_case(ctx, idx, py, pyi):
    import griffe
    d = ctx.scratch / f"reuse{idx}"
    inner = idx % 2 == 1
    inner_pyi = _restub(pyi, "U", {"int": "complex", "str": "bytearray"})
    try:
        write(d / "site" / "pkgr" / "__init__.py", py)
        if inner:
            write(d / "site" / "pkgr" / "__init__.pyi", inner_pyi)
        write(d / "typings" / "pkgr-stubs" / "__init__.pyi", pyi)
        write(d / "in" / "m.py", py)
        write(d / "in" / "outer.pyi", pyi)
        write(d / "in" / "inner.pyi", inner_pyi)
        t_py, t_outer, t_inner = (abstract(visit_file(d / "in" / f)) for f in ("m.py", "outer.pyi", "inner.pyi"))
        paths = [str(d / "site"), str(d / "typings")]
        case = {"pkgr/__init__.py": py, "pkgr-stubs/__init__.pyi": pyi, **({"pkgr/__init__.pyi": inner_pyi} if inner else {}), "stream": "loader-reused"}
        ctx.case(case, True)
        ctx.observe("stream", "loader-reused")
        ctx.observe("loader_reused: stubs shipped in the package", int(inner))
        expected = {True: erase(spec_scope(t_outer, t_py)), False: erase(spec_scope(t_inner, t_py)) if inner else erase(t_py)}

        def load(loader, flag):
            return norm_result(abstract(loader.load("pkgr", try_relative_path=False, find_stubs_package=flag)))
        try:
            fresh = {flag: load(griffe.GriffeLoader(search_paths=paths, allow_inspection=False), flag) for flag in (True, False)}
            for flag, tree in fresh.items():
                diffs = tree_diff(erase(tree), expected[flag])
                if diffs:
                    ctx.property_failure({**case, "loads": [f"fresh loader, find_stubs_package={flag}"]},
                                         {"differences_from_property": [list(map(str, x)) for x in diffs[:10]]})
            for first in (True, False):
                loader, history = griffe.GriffeLoader(search_paths=paths, allow_inspection=False), []
                for flag in (first, not first, first):
                    history.append(f"find_stubs_package={flag}")
                    tree = load(loader, flag)
                    if tree != fresh[flag]:
                        ctx.property_failure({**case, "loads": list(history)},
                                             {"differs_from_a_fresh_loader": [list(map(str, x)) for x in tree_diff(tree, fresh[flag])[:10]]})
            ctx.observe("outcome:loader-reused", "ok")
        except Exception as e:  # noqa: BLE001
            ctx.observe("outcome:loader-reused", type(e).__name__)
            ctx.property_failure(case, {"raised": type(e).__name__, "expected": "no exception"})
    finally:
        shutil.rmtree(d, ignore_errors=True)


# ----------------------------------------------------------------------------------------------------------------------
# public facade over a private sibling package: pkg/__init__.py = `from _pkg import *`, stubs for pkg.
# Authorities: CPython importing pkg in a subprocess (runtime names, docstrings), CPython's ast on the .pyi (types).
# Checked after load and again after resolve_aliases(implicit=True).
# ----------------------------------------------------------------------------------------------------------------------
EXT_STUB = "def __getattr__(name):\n    return object()\n"
RUNTIME_PROBE = """
import importlib, inspect, json, sys
sys.path[:0] = [sys.argv[1], sys.argv[2]]
pkg = importlib.import_module(sys.argv[3])
out = {}
for name in dir(pkg):
    if name.startswith("_"):
        continue
    obj = getattr(pkg, name)
    if inspect.isfunction(obj) and obj.__module__ == "_pkg" and obj.__name__ == name:
        out[name] = ["function", inspect.getdoc(obj), list(inspect.signature(obj).parameters)]
    elif inspect.isclass(obj) and obj.__module__ == "_pkg":
        out[name] = ["class", inspect.getdoc(obj) if "__doc__" in vars(obj) and obj.__doc__ else None, []]
    elif type(obj) in (int, float, str) or obj is Ellipsis:
        out[name] = ["attribute", None, []]
    else:
        out[name] = ["other", None, []]
print(json.dumps(out))
"""


def stub_declarations(src):
    import ast
    decl = {}
    for node in ast.parse(src).body:
        if isinstance(node, (ast.FunctionDef, ast.AsyncFunctionDef)):
            ov = any(ast.unparse(x) == "overload" for x in node.decorator_list)
            e = decl.setdefault(node.name, {"kind": "function", "overloads": 0, "impl": None})
            if e["kind"] != "function":
                continue
            if ov:
                e["overloads"] += 1
            else:
                a = node.args
                params = {x.arg: (ast.unparse(x.annotation) if x.annotation else None)
                          for x in a.posonlyargs + a.args + a.kwonlyargs + [y for y in (a.vararg, a.kwarg) if y]}
                e["impl"] = {"returns": ast.unparse(node.returns) if node.returns else None, "parameters": params, "doc": ast.get_docstring(node)}
        elif isinstance(node, ast.AnnAssign) and isinstance(node.target, ast.Name):
            decl[node.target.id] = {"kind": "attribute", "annotation": ast.unparse(node.annotation)}
        elif isinstance(node, ast.Assign) and len(node.targets) == 1 and isinstance(node.targets[0], ast.Name):
            decl[node.targets[0].id] = {"kind": "attribute", "annotation": None}
        elif isinstance(node, ast.ClassDef):
            decl[node.name] = {"kind": "class", "doc": ast.get_docstring(node)}
    return decl


FACADE_SRC = '"""Public package."""\nfrom _pkg import *\n'


def run_facade_nested(ctx, d, case, parts, at_runtime, declared, pyi):
    """The facade is the __init__ of a NESTED subpackage (pkg/sub[/deep]/__init__.py = `from _pkg import *`) with its stubs
    next to it.  In-package stubs are merged while the submodules are loaded, BEFORE any wildcard is expanded
    (finding C19-F4): the re-exported names are taken for stub-only members.  A failure is attributed to F4 only when the
    live tree is exactly what the model of the unchanged code computes for the pair as visited (wildcard unexpanded)."""
    import griffe
    base = d.joinpath("site", "pkg", *parts)
    t_py, t_pyi = abstract(visit_file(base / "__init__.py", parts[-1])), abstract(visit_file(base / "__init__.pyi", parts[-1]))
    try:
        model_r = ctx.model([["set_member", [False, t_py], [True, t_pyi]], ["set_member", [True, t_pyi], [False, t_py]]]) if ctx.driver is not None else None
    except Exception:  # noqa: BLE001
        model_r = None
    trees = []
    for k, rev in enumerate((False, True)):
        label = {**case, "order": "pyi first" if rev else "py first"}
        try:
            with walk_order(rev):
                pkg = griffe.load("pkg", search_paths=[str(d / "site")], allow_inspection=False, try_relative_path=False)
            mod = member_at(pkg, parts)
            live = ["ok", [mod.filepath.suffix == ".pyi", norm_result(abstract(mod))]]
            probs = facade_problems(mod, at_runtime, declared, ".".join(("pkg",) + parts))
        except Exception as e:  # noqa: BLE001
            ctx.observe("outcome:wildcard-facade", type(e).__name__)
            ctx.property_failure(label, {"raised": type(e).__name__, "expected": "no exception"})
            continue
        ctx.observe("outcome:wildcard-facade", "ok")
        trees.append(live)
        confirmed = False
        if model_r is not None:
            mo = norm_model(model_r[k])
            confirmed = mo == live
            if not confirmed:
                ctx.tie_failure("correspondence", f"model vs griffe [wildcard-facade nested, {label['order']}]",
                                {"model": str(mo)[:600], "impl": str(live)[:600]}, label)
        wildcard_pending = any(n.endswith("/*") for n, _ in live[1][1][MEM])
        ctx.observe("facade_nested", "problems" if probs else "clean")
        if probs:
            ctx.property_failure({**label, "stage": "after load"}, {"against_cpython_and_the_pyi": probs[:10]},
                                 finding="C19-F4" if confirmed and wildcard_pending and live[1][0] is False else None)
    if len(trees) == 2 and trees[0] != trees[1]:
        ctx.property_failure(case, {"order_dependent": [list(map(str, x)) for x in tree_diff(trees[0][1][1], trees[1][1][1])[:10]]})


def run_facade_case(ctx, idx, py, pyi, placement=None):
    import subprocess
    import sys
    import griffe
    d = ctx.scratch / f"fac{idx}"
    try:
        site, ext = d / "site", d / "ext"
        write(site / "_pkg" / "__init__.py", py)
        for f in ("extpkg/__init__.py", "extpkg/sub.py", "otherpkg/__init__.py", "otherpkg/deep/__init__.py", "otherpkg/deep/mod.py"):
            write(ext / f, EXT_STUB)
        kind = placement or ("__init__.pyi", "pkg-stubs", "nested", "pkg-stubs", "__init__.pyi", "deep")[idx % 6]
        stubs_pkg = kind == "pkg-stubs"
        parts = {"nested": ("sub",), "deep": ("sub", "deep")}.get(kind, ())
        if parts:
            write(site / "pkg" / "__init__.py", '"""Top package."""\n')
            if kind == "deep":
                write(site / "pkg" / "sub" / "__init__.py", "")
            write(site.joinpath("pkg", *parts) / "__init__.py", FACADE_SRC)
            write(site.joinpath("pkg", *parts) / "__init__.pyi", pyi)
            paths = [str(site)]
        else:
            write(site / "pkg" / "__init__.py", FACADE_SRC)
            if stubs_pkg:
                write(d / "stubs" / "pkg-stubs" / "__init__.pyi", pyi)
                paths = [str(d / "stubs"), str(site)]
            else:
                write(site / "pkg" / "__init__.pyi", pyi)
                paths = [str(site)]
        placement = "facade + " + kind
        case = {"_pkg/__init__.py": py, "pkg/__init__.py": "from _pkg import *", "pkg stubs": pyi, "placement": placement, "stream": "wildcard-facade"}
        proc = subprocess.run([sys.executable, "-c", RUNTIME_PROBE, str(site), str(ext), ".".join(("pkg",) + parts)], capture_output=True, text=True,
                              env={"PATH": os.environ.get("PATH", ""), "PYTHONDONTWRITEBYTECODE": "1"})
        if proc.returncode != 0:
            ctx.observe("facade_runtime", "not importable")
            ctx.count("facade_not_importable")
            return
        at_runtime = json.loads(proc.stdout)
        declared = stub_declarations(pyi)
        ctx.case(case, bool(set(at_runtime) & set(declared)))
        ctx.observe("stream", "wildcard-facade")
        ctx.observe("facade_placement", kind)
        if parts:
            run_facade_nested(ctx, d, case, parts, at_runtime, declared, pyi)
            return
        try:
            loader = griffe.GriffeLoader(search_paths=paths, allow_inspection=False)
            pkg = loader.load("pkg", try_relative_path=False, find_stubs_package=True)
            stages = [("after load", facade_problems(pkg, at_runtime, declared))]
            loader.resolve_aliases(implicit=True)
            stages.append(("after resolve_aliases", facade_problems(pkg, at_runtime, declared)))
        except Exception as e:  # noqa: BLE001
            ctx.observe("outcome:wildcard-facade", type(e).__name__)
            ctx.property_failure(case, {"raised": type(e).__name__, "expected": "no exception"})
            return
        ctx.observe("outcome:wildcard-facade", "ok")
        for stage, probs in stages:
            if probs:
                ctx.property_failure({**case, "stage": stage}, {"against_cpython_and_the_pyi": probs[:10]})
    finally:
        shutil.rmtree(d, ignore_errors=True)


def facade_problems(pkg, at_runtime, declared, where="pkg"):
    import griffe
    probs = []
    for name, (kind, doc, params) in at_runtime.items():
        if kind == "other":
            continue
        if name not in pkg.members:
            probs.append(f"{where}.{name} exists at runtime (CPython) but is missing from the merged module")
            continue
        member = pkg.members[name]
        if not member.runtime:
            probs.append(f"{where}.{name} exists at runtime (CPython) but is marked runtime=False")
        spec = declared.get(name)
        try:
            if member.kind.value != kind:
                probs.append(f"{where}.{name} is a {member.kind.value}, CPython says {kind}")
                continue
            same = spec is not None and spec["kind"] == kind
            if kind in ("function", "class"):
                got = member.docstring.value if member.docstring else None
                stub_doc = ((spec.get("impl") or {}).get("doc") if kind == "function" else spec.get("doc")) if same else None
                want = doc if doc is not None else stub_doc
                if got != want:
                    probs.append(f"{where}.{name} docstring is {got!r}, expected {want!r} (CPython: {doc!r}, stubs: {stub_doc!r})")
            if not same:
                continue
            if kind == "function":
                if spec["impl"] is not None:
                    got = None if member.returns is None else str(member.returns)
                    if got != spec["impl"]["returns"]:
                        probs.append(f"{where}.{name} returns {got}, the stubs say {spec['impl']['returns']}")
                    for p in params:
                        if p in spec["impl"]["parameters"]:
                            a = member.parameters[p].annotation
                            if (None if a is None else str(a)) != spec["impl"]["parameters"][p]:
                                probs.append(f"{where}.{name}({p}) is annotated {a}, the stubs say {spec['impl']['parameters'][p]}")
                if spec["overloads"] and len(member.overloads or []) != spec["overloads"]:
                    probs.append(f"{where}.{name} has {len(member.overloads or [])} overloads, the stubs declare {spec['overloads']}")
            elif kind == "attribute":
                a = member.annotation
                if (None if a is None else str(a)) != spec["annotation"]:
                    probs.append(f"{where}.{name} is annotated {a}, the stubs say {spec['annotation']}")
        except (griffe.AliasResolutionError, griffe.CyclicAliasError) as e:
            probs.append(f"{where}.{name} cannot be inspected ({type(e).__name__})")
    for name, spec in declared.items():
        if name in at_runtime:
            continue
        if spec["kind"] == "function" and spec["impl"] is None:
            continue                      # overloads only: no member is created for them
        if name not in pkg.members:
            probs.append(f"{where}.{name} declared in the stubs is missing from the merged module")
        elif pkg.members[name].runtime:
            probs.append(f"stub-only {where}.{name} is not marked as unavailable at runtime")
    return probs


FACADE_CORPUS = [
    ('"""Private implementation."""\nLIMIT = 10\ndef scale(value, factor=2):\n    """Runtime docstring of scale."""\n    return value * factor\n'
     'class Box:\n    """Runtime docstring of Box."""\n    size = 0\n    def grow(self, amount):\n        """Runtime docstring of grow."""\n',
     'LIMIT: int\ndef scale(value: float, factor: int = ...) -> float: ...\ndef only_in_stubs(flag: bool) -> None: ...\n'
     'class Box:\n    size: int\n    def grow(self, amount: int) -> None: ...\n'),
    ('from typing import overload\ndef g(x): ...\ndef h(x):\n    "R doc h"\nA = 1\n',
     'from typing import overload\n@overload\ndef g(x: int) -> int: ...\n@overload\ndef g(x: str) -> str: ...\ndef h(x: int) -> str:\n    "S doc h"\nA: str\nB: int\n'),
]

XCHECK: list = []     # a few model queries of every kind, kept for the thorough tier's extraction cross-check


def compare_with_model(ctx, batch):
    if len(XCHECK) < 40:
        for b in batch[:18]:
            XCHECK.extend([b[2]["merge"], b[2]["inpkg(py first)"], b[2]["stubs-package"]][:2 if len(XCHECK) > 24 else 3])
    keys = ["direct(py,pyi)", "direct(pyi,py)", "inpkg(py first)", "inpkg(pyi first)", "producer(py first)", "producer(pyi first)",
            "toplevel", "stubs-package", "single-file + stubs package", "merge"]
    flat, spans = [], []
    for b in batch:
        ks = keys + [k for k in NESTED_KEYS if k in b[2]]
        spans.append((len(flat), ks))
        flat += [b[2][k] for k in ks]
    outs = ctx.model(flat)
    for i, (case, impl, queries, (f1p, f2p), expected) in enumerate(batch):
        start, ks = spans[i]
        res = dict(zip(ks, outs[start:start + len(ks)]))
        for k in [x for x in ks if x != "merge"]:
            m = norm_model(res[k])
            got = impl[k]
            if k in ("toplevel", "stubs-package", "single-file + stubs package") and got[0] == "ok":
                got = ["ok", got[1][1]]
            ctx.observe("model_outcome", m[0] if m[0] == "ok" else m[1])
            if m != got:
                ctx.tie_failure("correspondence", f"model vs griffe [{k}]",
                                {"differences": [list(map(str, x)) for x in (tree_diff(_tree(m), _tree(got))[:8] if m[0] == got[0] == "ok" else [])],
                                 "model": str(m)[:600], "impl": str(got)[:600]}, case)
        # the theorems read as a function, sampled: the model's merge is the declarative reading of the property
        mm = norm_model(res["merge"])
        if mm[0] == "ok":
            mm = ["ok", erase(mm[1])]
        if mm != ["ok", expected]:
            ctx.tie_failure("oracle", "merge_obj (model) vs declarative spec (python)", {"model": str(mm)[:600], "spec": str(expected)[:600]}, case)
        ctx.count("model_cases")


def _tree(v):
    t = v[1]
    return t if t and t[0] in ("obj", "alias", "alias_to") else t[1]


# ----------------------------------------------------------------------------------------------------------------------
# aliases whose target IS loaded: merger.py merges the stub into the target of the runtime alias (AlTo in the model).
# (C) against set_member_module in both orders; direct evaluation: the target module must end up as the property says,
# the aliases stay aliases, both orders agree.
# ----------------------------------------------------------------------------------------------------------------------
class walk_listed:
    """Listing order for one directory given explicitly (first the files named, then the rest sorted)."""

    def __init__(self, first):
        self.first = first

    def __enter__(self):
        real = self.real = os.walk
        first = self.first

        def walk(*a, **k):
            for root, dirs, files in real(*a, **k):
                dirs.sort()
                files.sort(key=lambda f: (first.index(f) if f in first else len(first), f))
                yield root, dirs, files
        os.walk = walk

    def __exit__(self, *exc):
        os.walk = self.real


# where the (module, stubs) pair sits inside pkg: sibling files, the __init__ pair of a nested subpackage, one level deeper
LAYOUTS = {"flat": ("m",), "nested": ("sub",), "deep": ("sub", "deep")}


def lay_pair(root: Path, layout: str, py: str, pyi: str, others: dict):
    """Write pkg/ with the third files `others` and the pair placed per layout; returns (member parts, the two listing orders)."""
    shutil.rmtree(root, ignore_errors=True)
    write(root / "pkg" / "__init__.py", "")
    for fn, src in others.items():
        write(root / "pkg" / fn, src)
    parts = LAYOUTS[layout]
    if layout == "flat":
        write(root / "pkg" / "m.py", py)
        write(root / "pkg" / "m.pyi", pyi)
        head = ["__init__.py", *others]
        return parts, (head + ["m.py", "m.pyi"], head + ["m.pyi", "m.py"])
    if layout == "deep":
        write(root / "pkg" / "sub" / "__init__.py", "")
    base = root.joinpath("pkg", *parts)
    write(base / "__init__.py", py)
    write(base / "__init__.pyi", pyi)
    return parts, (["__init__.py", *others, "__init__.pyi"], ["__init__.pyi", "__init__.py", *others])


def layouts_for(idx, only=None):
    return [only] if only else ["flat", "nested" if idx % 2 == 0 else "deep"]


def member_at(top, parts):
    for part in parts:
        top = top.members[part]
    return top


def run_resolvable_case(ctx, idx, py, pyi, use_model=True, layout=None, chain=None):
    import griffe
    d = ctx.scratch / f"res{idx}"
    try:
        write(d / "in" / "a_impl.py", py)
        write(d / "in" / "m.pyi", pyi)
        t_impl = abstract(visit_file(d / "in" / "a_impl.py", "a_impl"))
        t_pyi = abstract(visit_file(d / "in" / "m.pyi"))
        imported = [n for n, t in t_impl[MEM] if t[0] == "obj"]
        if not imported:
            return
        # every other case: a CHAIN  m.X -> b_mid.X -> a_impl.X  (the middle module re-exports, it is listed before the pair)
        chain = idx % 2 == 1 if chain is None else chain
        src_mod = "b_mid" if chain else "a_impl"
        mid_src = "from pkg.a_impl import " + ", ".join(imported) + "\n"
        m_src = f"from pkg.{src_mod} import " + ", ".join(imported) + "\n"
        case = {"a_impl.py": py, "m.py": m_src, "m.pyi": pyi, "stream": "alias-to-loaded-target", **({"b_mid.py": mid_src} if chain else {})}
        ctx.observe("alias chain length(alias-to-loaded-target)", 2 if chain else 1)
        restricted = list(t_pyi)
        restricted[MEM] = [[n, t] for n, t in t_pyi[MEM] if n in imported]
        if t_pyi[OV][0] == "dict":
            restricted[OV] = ["dict", [[k, v] for k, v in t_pyi[OV][1] if k in imported]]
        exp = spec_scope(restricted, t_impl)
        exp[DOC], exp[IMP] = t_impl[DOC], t_impl[IMP]
        exp = erase(exp)
        want_m = [[n, "alias", f"pkg.{src_mod}." + n, True] for n in imported] + \
                 [[n, t[0], t[1] if t[0] == "alias" else t[KIND], False] for n, t in t_pyi[MEM] if n not in imported]
        ctx.case(case, bool(restricted[MEM]))
        ctx.observe("stream", "alias-to-loaded-target")
        # model input: m.py as visited, each alias carrying the current value of its (loaded) target
        write(d / "in" / "m.py", m_src)
        t_m = abstract(visit_file(d / "in" / "m.py"))
        impl_by = dict((n, t) for n, t in t_impl[MEM])
        t_m[MEM] = [[n, ["alias_to", t[1], t[2], (["alias_to", "pkg.a_impl." + n, True, impl_by[n]] if chain else impl_by[n])]] for n, t in t_m[MEM]]
        model_q = [["set_member", [False, t_m], [True, t_pyi]], ["set_member", [True, t_pyi], [False, t_m]]]
        model_r = ctx.model(model_q) if use_model else None
        if use_model and len(XCHECK) < 60 and idx % 5 == 0:
            XCHECK.extend(model_q[1:])
        results = []
        base_case = case

        def after_load(pkg, m, got, got_m, is_pyi, case, order, lay, mo_raw):
            ctx.observe("outcome:alias-to-loaded-target", "ok")
            ctx.observe("layout:alias-to-loaded-target", lay)
            br = backref_problems(pkg.modules_collection)
            ctx.observe("resolved_aliases_after_load(alias-to-loaded-target)", min(3, sum(1 for x in m.members.values() if x.is_alias and x.resolved)))
            if br:
                ctx.property_failure({**case, "order": order}, {"alias_backrefs_broken": br})
            results.append((got, got_m, is_pyi))
            if mo_raw is not None:
                after = dict((n, x) for n, x in pkg.members["a_impl"].members.items())
                live = abstract(m)
                live[MEM] = [[n, (["alias_to", t[1], t[2], (["alias_to", "pkg.a_impl." + n, True, abstract(after[n])] if chain else abstract(after[n]))]
                                  if n in imported else t)] for n, t in live[MEM]
                             if not (m is pkg and n in ("a_impl", "b_mid"))]      # (the package's own submodules: not part of the pair)
                if chain:      # the middle module's aliases stay what they are
                    mid = [[n, "alias" if x.is_alias else "obj", x.target_path if x.is_alias else x.kind.value] for n, x in pkg.members["b_mid"].members.items()]
                    if mid != [[n, "alias", "pkg.a_impl." + n] for n in imported]:
                        ctx.property_failure({**case, "order": order}, {"members_of_b_mid": mid})
                got_c = ["ok", [is_pyi, norm_result(live)]]
                mo = norm_model(mo_raw)
                ctx.observe("model_outcome(alias-to-loaded-target)", mo[0] if mo[0] == "ok" else mo[1])
                if mo != got_c:
                    ctx.tie_failure("correspondence", f"model vs griffe [alias-to-loaded-target, {lay}, {order[1]}]",
                                    {"differences": [list(map(str, x)) for x in (tree_diff(_tree(mo), _tree(got_c))[:8] if mo[0] == "ok" else [])],
                                     "model": str(mo)[:600], "impl": str(got_c)[:600]}, case)
            if is_pyi:
                ctx.property_failure({**case, "order": order}, {"result_is": "the stubs module", "expected": "the runtime module"})
            if got_m != [[n, ("alias" if kk == "alias" else "obj"), v, r] for n, kk, v, r in want_m]:
                ctx.property_failure({**case, "order": order}, {"members_of_m": got_m, "expected": want_m})
            diffs = tree_diff(erase(got), exp)
            if diffs:
                ctx.property_failure({**case, "order": order}, {"target_module_differs_from_property": [list(map(str, x)) for x in diffs[:10]],
                                                                "a_impl_after": got, "expected": exp})

        for lay, k in [(lay, k) for lay in layouts_for(idx, layout if layout not in ("init", "init-stubs") else "flat") for k in (0, 1)]:
            parts, orders = lay_pair(d / "P", lay, m_src, pyi, {"a_impl.py": py, **({"b_mid.py": mid_src} if chain else {})})
            order = [lay, "py first" if k == 0 else "pyi first"]
            case = {**base_case, "layout": lay}
            try:
                with walk_listed(orders[k]):
                    pkg = griffe.load("pkg", search_paths=[str(d / "P")], allow_inspection=False)
                got = norm_result(abstract(pkg.members["a_impl"]))
                m = member_at(pkg, parts)
                got_m = [[n, "alias" if x.is_alias else "obj", x.target_path if x.is_alias else x.kind.value, bool(x.runtime)] for n, x in m.members.items()]
                is_pyi = m.filepath.suffix == ".pyi"
            except Exception as e:  # noqa: BLE001
                ctx.property_failure({**case, "order": order}, {"raised": type(e).__name__, "expected": "no exception"})
                ctx.observe("outcome:alias-to-loaded-target", type(e).__name__)
                continue
            after_load(pkg, m, got, got_m, is_pyi, case, order, lay, model_r[k] if model_r is not None else None)
        # the DOUBLE-merge placements: the re-exporting module is the package __init__ itself, its stubs are in the package
        # (pkg/__init__.pyi) or in pkg-stubs: merged when the stubs module is registered and again by _load_package.  The
        # members the first merge moved into the classes reached through the aliases must be left alone by the second.
        for lay in (["init", "init-stubs"] if layout is None else [layout] if layout in ("init", "init-stubs") else []):
            if layout is None and idx >= 24 and (idx // 2) % 2 != (0 if lay == "init" else 1):
                continue
            shutil.rmtree(d / "D", ignore_errors=True)
            write(d / "D" / "site" / "pkg" / "__init__.py", m_src)
            write(d / "D" / "site" / "pkg" / "a_impl.py", py)
            if chain:
                write(d / "D" / "site" / "pkg" / "b_mid.py", mid_src)
            if lay == "init":
                write(d / "D" / "site" / "pkg" / "__init__.pyi", pyi)
                paths = [str(d / "D" / "site")]
            else:
                write(d / "D" / "stubs" / "pkg-stubs" / "__init__.pyi", pyi)
                paths = [str(d / "D" / "stubs"), str(d / "D" / "site")]
            order = [lay, "package __init__"]
            case = {**base_case, "layout": lay}
            try:
                pkg = griffe.load("pkg", search_paths=paths, allow_inspection=False, find_stubs_package=True, try_relative_path=False)
                got = norm_result(abstract(pkg.members["a_impl"]))
                got_m = [[n, "alias" if x.is_alias else "obj", x.target_path if x.is_alias else x.kind.value, bool(x.runtime)]
                         for n, x in pkg.members.items() if n not in ("a_impl", "b_mid")]
                is_pyi = pkg.filepath.suffix == ".pyi"
            except Exception as e:  # noqa: BLE001
                ctx.property_failure({**case, "order": order}, {"raised": type(e).__name__, "expected": "no exception"})
                ctx.observe("outcome:alias-to-loaded-target", type(e).__name__)
                continue
            mo2 = ctx.model([["load_package", t_m, t_pyi, []]])[0] if use_model else None
            if mo2 is not None and mo2[0] == "ok":
                mo2 = ["ok", [False, mo2[1]]]
            after_load(pkg, pkg, got, got_m, is_pyi, case, order, lay, mo2)
        for r0, r1 in zip(results, results[1:]):
            if r0 != r1:
                ctx.property_failure(base_case, {"order_or_layout_dependent": [list(map(str, x)) for x in tree_diff(r0[0], r1[0])[:10]],
                                                 "m_first": r0[1], "m_second": r1[1]})
    finally:
        shutil.rmtree(d, ignore_errors=True)


# ----------------------------------------------------------------------------------------------------------------------
# third files and chains: pkg/m.py + m.pyi (the pair), pkg/user.py re-exporting m's names + user.pyi re-declaring them,
# pkg/via.py re-exporting user's names (alias -> alias -> object) + via.pyi, all six files in a seeded listing order.
# (C) against the sequential model (Model/C19_seq.v: aliases resolved against what is loaded at the moment of each merge,
# merged through, written back).  Direct: no exception, runtime modules survive, the same listing with the two files of
# ONE pair swapped gives the same trees, no alias is left bound to a dropped object (finding C19-F6 when the model of the
# unchanged code computes the very same trees and the very same stale aliases).
# ----------------------------------------------------------------------------------------------------------------------
import re as _re

SEQ_FUEL = 24


def _restub(text, tag, sub):
    text = text.replace("S doc", f"{tag} doc").replace("S module docstring", f"{tag} module docstring")
    for a, b in sub.items():
        text = _re.sub(rf"\b{a}\b", b, text)
    return text


def stale_aliases(collection):
    paths, stack = {}, [(n, m) for n, m in collection.members.items()]
    while stack:
        path, obj = stack.pop()
        paths[path] = obj
        if not obj.is_alias:
            stack += [(f"{path}.{n}", m) for n, m in obj.members.items()]
    return sorted(p for p, o in paths.items() if o.is_alias and o._target is not None and paths.get(o.target_path) is not o._target)


def run_seq_load(d, files, order):
    import griffe
    shutil.rmtree(d / "Q", ignore_errors=True)
    write(d / "Q" / "pkg" / "__init__.py", "")
    for fn, src in files.items():
        write(d / "Q" / "pkg" / fn, src)
    try:
        with walk_listed(["__init__.py", *order]):
            pkg = griffe.load("pkg", search_paths=[str(d / "Q")], allow_inspection=False)
        mods = []
        for n, m in pkg.members.items():
            if not m.is_alias and m.is_module:
                mods.append([n, [m.filepath.suffix == ".pyi", norm_result(abstract(m))]])
        return ["ok", mods, stale_aliases(pkg.modules_collection)]
    except Exception as e:  # noqa: BLE001
        return _err(e)


def run_interleaved_case(ctx, idx, py, pyi, use_model=True, order=None, pair=None):
    d = ctx.scratch / f"seq{idx}"
    try:
        write(d / "in" / "m.py", py)
        write(d / "in" / "m.pyi", pyi)
        t_py, t_pyi = abstract(visit_file(d / "in" / "m.py")), abstract(visit_file(d / "in" / "m.pyi"))
        rt_names = [n for n, t in t_py[MEM] if t[0] == "obj"]
        st_only = [n for n, t in t_pyi[MEM] if t[0] == "obj" and n not in {k for k, _ in t_py[MEM]}]
        names = rt_names + st_only[:2]
        if not names:
            return
        files = {"m.py": py, "m.pyi": pyi,
                 "user.py": "from pkg.m import " + ", ".join(names) + "\n",
                 "user.pyi": _restub(pyi, "U", {"int": "complex", "str": "bytearray"}),
                 # ... and an alias to the pair's MODULE itself, re-declared by via's stubs so that merging binds it
                 "via.py": "from pkg.user import " + ", ".join(names) + "\nfrom pkg import m as mod_m\n",
                 "via.pyi": _restub(pyi, "V", {"int": "frozenset", "float": "memoryview"}) + "mod_m: int\n"}
        pair = pair or ("m", "user", "via")[idx % 3]
        trees = {fn: abstract(visit_file(d / "Q0" / fn, fn.split(".")[0])) for fn in files if not write(d / "Q0" / fn, files[fn])}

        def swap(o):
            o = list(o)
            i, j = o.index(pair + ".py"), o.index(pair + ".pyi")
            o[i], o[j] = o[j], o[i]
            return o

        def model_seq(o):
            q = ["load_seq", SEQ_FUEL, "pkg", [[fn.split(".")[0], [fn.endswith(".pyi"), trees[fn]]] for fn in o]]
            mo = ctx.model([q])[0]
            if len(XCHECK) < 70 and idx % 7 == 0:
                XCHECK.append(q)
            if mo[0] == "ok":
                return ["ok", [[n, [bool(f[0]), norm_result(f[1])]] for n, f in mo[1]], sorted(mo[2])], bool(mo[3])
            return mo, False

        # listing orders in which a merge goes through an alias already bound to a dropped object are outside the model
        # (object identity): with the model at hand they are not generated (counted); without it, any order
        models, tries = {}, 0
        while True:
            if order is None or tries:
                order = list(files)
                ctx.rng.shuffle(order)
            swapped = swap(order)
            if not use_model:
                break
            models = {tuple(o): model_seq(o) for o in (order, swapped)}
            if not any(dirty for _, dirty in models.values()):
                break
            tries += 1
            ctx.count("interleaved_orders_redrawn(merge through a stale alias)")
            if tries > 12:
                return
        case = {**{k: v for k, v in files.items()}, "order": order, "pair": pair, "stream": "interleaved-third-files"}
        ctx.case(case, True)
        ctx.observe("stream", "interleaved-third-files")
        pos = {f: k for k, f in enumerate(order)}
        ctx.observe("seq: user pair merged when m is", "absent" if max(pos["user.py"], pos["user.pyi"]) < min(pos["m.py"], pos["m.pyi"]) else
                    "merged" if max(pos["user.py"], pos["user.pyi"]) > max(pos["m.py"], pos["m.pyi"]) else
                    "stubs only" if pos["m.pyi"] < pos["m.py"] else "runtime only")
        results = []
        for o in (order, swapped):
            real = run_seq_load(d, files, o)
            ctx.observe("outcome:interleaved", real[0] if real[0] == "ok" else real[1])
            confirmed = False
            if use_model:
                mo = models[tuple(o)][0]
                confirmed = mo == real
                ctx.observe("model_outcome(interleaved)", mo[0] if mo[0] == "ok" else mo[1])
                if not confirmed:
                    diff = []
                    if mo[0] == real[0] == "ok":
                        rm = dict((n, f) for n, f in real[1])
                        for n, f in mo[1]:
                            if n in rm and rm[n] != f:
                                diff.append([n] + [list(map(str, x)) for x in tree_diff(f[1], rm[n][1])[:6]])
                        diff.append({"stale(model)": mo[2], "stale(griffe)": real[2]})
                    ctx.tie_failure("correspondence", "model vs griffe [interleaved-third-files]",
                                    {"order": o, "differences": diff, "model": str(mo)[:500], "impl": str(real)[:500]}, {**case, "order": o})
            results.append((o, real, confirmed))
            if real[0] != "ok":
                ctx.property_failure({**case, "order": o}, {"raised": real[1], "expected": "no exception"})
                continue
            for n, f in real[1]:
                if f[0]:
                    ctx.property_failure({**case, "order": o}, {"module": n, "result_is": "the stubs module", "expected": "the runtime module"})
            ctx.observe("seq: stale aliases", min(len(real[2]), 3))
            if real[2]:
                ctx.property_failure({**case, "order": o}, {"aliases_bound_to_dropped_objects": real[2][:8]}, finding="C19-F6" if confirmed else None)
        (o1, r1, c1), (o2, r2, c2) = results
        if r1[0] == r2[0] == "ok" and (sorted(r1[1]) != sorted(r2[1]) or r1[2] != r2[2]):
            m1, m2 = dict((n, f) for n, f in r1[1]), dict((n, f) for n, f in r2[1])
            dd = [[n] + [list(map(str, x)) for x in tree_diff(erase(m1[n][1]), erase(m2[n][1]))[:6]] for n in m1 if n in m2 and m1[n] != m2[n]]
            ctx.observe("seq: pair order matters", pair)
            ctx.property_failure({**case, "order": o1, "swapped": f"{pair}.py <-> {pair}.pyi"},
                                 {"result_depends_on_which_file_of_the_pair_comes_first": dd[:4], "stale": [r1[2][:4], r2[2][:4]]},
                                 finding="C19-F6" if c1 and c2 and not _pair_adjacent(o1, pair) else None)
    finally:
        shutil.rmtree(d, ignore_errors=True)


def _pair_adjacent(order, pair):
    return abs(order.index(pair + ".py") - order.index(pair + ".pyi")) == 1


def explore(ctx):
    batch = []
    idx = 0
    pairs = [(py, pyi, "corpus") for py, pyi in CORPUS]
    cdir = Path(__file__).resolve().parents[2] / "corpus" / "C19"
    if cdir.exists():
        for f in sorted(cdir.glob("*.json")):
            j = json.loads(f.read_text())
            pairs.append((j["py"], j["pyi"], "corpus-file"))
    n_random = ctx.budget(390, 4300)
    for _ in range(n_random):
        py, pyi = gen_pair(ctx.rng)
        pairs.append((py, pyi, "random"))
    for py, pyi, stream in pairs:
        if has_nested_import(py) and stream == "random":
            ctx.observe("nested_import", 1)
        r = run_case(ctx, idx, py, pyi, stream)
        if stream == "corpus" or idx % 3 == 0:
            run_resolvable_case(ctx, idx, py, pyi)
        if stream == "corpus" or idx % 3 == 1:
            run_stub_import_case(ctx, idx, py, pyi)
            run_inherited_case(ctx, idx, py)
        if stream == "corpus" or idx % 3 == 2:
            run_interleaved_case(ctx, idx, py, pyi)
        if idx % 4 == 1:
            run_reuse_case(ctx, idx, py, pyi)
        idx += 1
        if r is not None:
            batch.append(r)
        if len(batch) >= 200:
            compare_with_model(ctx, batch)
            batch = []
    if batch:
        compare_with_model(ctx, batch)
    before = ctx.known_hits.get("C19-F6", 0)
    run_interleaved_case(ctx, 900000, *F6_WITNESS, order=["m.pyi", "user.py", "user.pyi", "via.py", "via.pyi", "m.py"])
    ctx.witness("C19-F6", ctx.known_hits.get("C19-F6", 0) > before)
    for k, (py, pyi) in enumerate(FACADE_CORPUS):
        for j, pl in enumerate(("__init__.pyi", "pkg-stubs", "nested", "deep")):
            run_facade_case(ctx, 1000 + 10 * k + j, py, pyi, placement=pl)
    ctx.witness("C19-F4", ctx.known_hits.get("C19-F4", 0) > 0)      # the hand pair above in the nested placement is the witness
    for k in range(ctx.budget(60, 650)):
        py, pyi = gen_pair(ctx.rng, anns=SAFE_ANNS)
        run_facade_case(ctx, len(FACADE_CORPUS) + k, py, pyi)
    for k, (py, pyi) in enumerate(FACADE_CORPUS):
        run_compiled_case(ctx, 2000 + k, py, pyi)
    for k in range(ctx.budget(40, 300)):
        py, pyi = gen_pair(ctx.rng, anns=SAFE_ANNS, aliases=False)
        run_compiled_case(ctx, 2010 + k, py, pyi)
    if not ctx.quick:
        # extraction check: the same queries evaluated inside Coq (vm_compute) and by the extracted OCaml driver
        ctx.cross_check_extraction(XCHECK, n=24)


def search(ctx):
    """A tie broke: evaluate the property on the implementation alone (no model) over the corpus and a larger random budget."""
    idx = 100000
    for py, pyi in CORPUS:
        run_case(ctx, idx, py, pyi, "search-corpus", use_model=False)
        idx += 1
        if ctx.prop_failures:
            return
    for _ in range(1500):
        py, pyi = gen_pair(ctx.rng)
        run_case(ctx, idx, py, pyi, "search-random", use_model=False)
        if idx % 3 == 0:
            run_resolvable_case(ctx, idx, py, pyi, use_model=False)
        if idx % 3 == 1:
            run_stub_import_case(ctx, idx, py, pyi, use_model=False)
            run_inherited_case(ctx, idx, py)
        if idx % 3 == 2:
            run_facade_case(ctx, idx, *gen_pair(ctx.rng, anns=SAFE_ANNS))
        idx += 1
        if ctx.prop_failures:
            return


def replay(ctx, data):
    case = data.get("failing_input") or {}
    if case.get("stream") == "wildcard-facade":
        print("---- _pkg/__init__.py\n" + case["_pkg/__init__.py"] + "---- pkg/__init__.py\nfrom _pkg import *\n---- stubs for pkg (" + case["placement"] + ")\n" + case["pkg stubs"])
        ctx.scratch.mkdir(parents=True, exist_ok=True)
        try:
            run_facade_case(ctx, 0, case["_pkg/__init__.py"], case["pkg stubs"], placement=case["placement"].replace("facade + ", ""))
            for t in ctx.tie_failures:
                print("MODEL DISAGREES:", t["name"], json.dumps(t["detail"], default=str)[:1500])
            for f in ctx.prop_failures:
                print("PROPERTY FAILURE:", json.dumps(f["detail"], default=str)[:1500], "classified:", f["classified_as"])
        finally:
            shutil.rmtree(ctx.scratch, ignore_errors=True)
        return 0
    if case.get("stream") in ("inspected-runtime-module", "loader-reused"):
        for k, v in case.items():
            if k not in ("stream", "order", "loads"):
                print(f"---- {k}\n{v}", end="")
        print("order / loads:", case.get("order") or case.get("loads"))
        ctx.scratch.mkdir(parents=True, exist_ok=True)
        try:
            if case["stream"] == "inspected-runtime-module":
                run_compiled_case(ctx, 0, case["fast.pyc (compiled from)"], case["fast.pyi"], use_model=ctx.driver is not None)
            else:
                run_reuse_case(ctx, 1 if "pkgr/__init__.pyi" in case else 0, case["pkgr/__init__.py"], case["pkgr-stubs/__init__.pyi"])
            for f in ctx.prop_failures:
                print("PROPERTY FAILURE:", json.dumps(f["detail"], default=str)[:1500], "classified:", f["classified_as"])
            for t in ctx.tie_failures:
                print("MODEL DISAGREES:", t["name"], json.dumps(t["detail"], default=str)[:1500])
        finally:
            shutil.rmtree(ctx.scratch, ignore_errors=True)
        return 0
    if case.get("stream") == "inherited-from-loaded-module":
        print("---- pkg/base_mod.py\n" + case["base_mod.py"] + "---- pkg/m.py\n" + case["m.py"] + "---- pkg/m.pyi\n" + case["m.pyi"])
        ctx.scratch.mkdir(parents=True, exist_ok=True)
        try:
            run_inherited_case(ctx, 0, case["base_mod.py"])
            for f in ctx.prop_failures:
                print("PROPERTY FAILURE:", json.dumps(f["detail"], default=str)[:1500], "classified:", f["classified_as"])
        finally:
            shutil.rmtree(ctx.scratch, ignore_errors=True)
        return 0
    if case.get("stream") == "interleaved-third-files":
        for fn in ("m.py", "m.pyi", "user.py", "user.pyi", "via.py", "via.pyi"):
            print(f"---- pkg/{fn}\n" + case[fn], end="")
        print("listing order:", case["order"], "- and with the two files of", case.get("pair", "m"), "swapped")
        ctx.scratch.mkdir(parents=True, exist_ok=True)
        try:
            run_interleaved_case(ctx, 0, case["m.py"], case["m.pyi"], use_model=ctx.driver is not None, order=list(case["order"]), pair=case.get("pair", "m"))
            for f in ctx.prop_failures:
                print("PROPERTY FAILURE:", json.dumps(f["detail"], default=str)[:1500], "classified:", f["classified_as"])
            for t in ctx.tie_failures:
                print("MODEL DISAGREES:", t["name"], json.dumps(t["detail"], default=str)[:1500])
        finally:
            shutil.rmtree(ctx.scratch, ignore_errors=True)
        return 0
    if case.get("stream") == "stubs-import-loaded-objects":
        print("---- pkg/a_impl.py\n" + case["a_impl.py"] + "---- pkg/m.py\n" + case["m.py"] + "---- pkg/m.pyi\n" + case["m.pyi"])
        ctx.scratch.mkdir(parents=True, exist_ok=True)
        try:
            py = case["m.py"]
            py = py[:py.rindex("from pkg.a_impl import")] if "from pkg.a_impl import" in py else py
            run_stub_import_case(ctx, 0, py, case["a_impl.py"], use_model=ctx.driver is not None, layout=case.get("layout"))
            for f in ctx.prop_failures:
                print("PROPERTY FAILURE:", json.dumps(f["detail"], default=str)[:1500], "classified:", f["classified_as"])
            for t in ctx.tie_failures:
                print("MODEL DISAGREES:", t["name"], json.dumps(t["detail"], default=str)[:1500])
        finally:
            shutil.rmtree(ctx.scratch, ignore_errors=True)
        return 0
    if "a_impl.py" in case:
        print("---- pkg/a_impl.py\n" + case["a_impl.py"] + "---- pkg/m.py\n" + case["m.py"] + "---- pkg/m.pyi\n" + case["m.pyi"])
        ctx.scratch.mkdir(parents=True, exist_ok=True)
        try:
            run_resolvable_case(ctx, 0, case["a_impl.py"], case["m.pyi"], use_model=ctx.driver is not None, layout=case.get("layout"), chain="b_mid.py" in case)
            for f in ctx.prop_failures:
                print("PROPERTY FAILURE:", json.dumps(f["detail"], default=str)[:1500], "classified:", f["classified_as"])
            for t in ctx.tie_failures:
                print("MODEL DISAGREES:", t["name"], json.dumps(t["detail"], default=str)[:1500])
            pass
        finally:
            shutil.rmtree(ctx.scratch, ignore_errors=True)
        return 0
    if "py" not in case:
        print("replay names no input:", data.get("no_longer_checks"))
        return 0
    print("---- m.py\n" + case["py"] + "---- m.pyi\n" + case["pyi"])
    ctx.scratch.mkdir(parents=True, exist_ok=True)
    try:
        r = run_case(ctx, 0, case["py"], case["pyi"], "replay", use_model=ctx.driver is not None)
        if r is not None:
            _, impl, queries, _, expected = r
            for k, v in impl.items():
                print(f"griffe [{k}]:", json.dumps(v)[:1500])
            print("property (declarative spec):", json.dumps(expected)[:1500])
            outs = ctx.model(list(queries.values()))
            for k, o in zip(queries, outs):
                print(f"model  [{k}]:", json.dumps(norm_model(o))[:1500])
        for f in ctx.prop_failures:
            print("PROPERTY FAILURE:", json.dumps(f["detail"], default=str)[:800], "classified:", f["classified_as"])
        pass
    finally:
        shutil.rmtree(ctx.scratch, ignore_errors=True)
    return 0
