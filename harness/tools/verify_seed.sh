#!/bin/bash
# usage: verify_seed.sh <worktree> <mutant dir with patch.diff demo.py meta.json> <property id> <name>
# Confirms: patch applies, full suite passes with it, demo FAILs with it and PASSes without; then stores it under seeded/.
set -u
WT="$1"; M="$2"; PID="$3"; NAME="$4"
VERIF="$(cd "$(dirname "$0")/../.." && pwd)"
git -C "$WT" checkout -q -- . || exit 2
git -C "$WT" apply "$M/patch.diff" || { echo "RESULT $NAME patch-does-not-apply"; exit 1; }
cd "$WT"
T=$(PYTHONPATH="$WT/src" timeout 1800 /venv/bin/python -m pytest -q -p no:cacheprovider --timeout=900 -n 8 2>&1 | tail -1)
PYTHONPATH="$WT/src" timeout 300 /venv/bin/python "$M/demo.py" > /dev/null 2>&1; D1=$?
git -C "$WT" checkout -q -- .
PYTHONPATH="$WT/src" timeout 300 /venv/bin/python "$M/demo.py" > /dev/null 2>&1; D0=$?
echo "RESULT $NAME tests='$T' demo_with_patch_rc=$D1 demo_without_rc=$D0"
if echo "$T" | grep -q "825 passed" && ! echo "$T" | grep -q failed && [ $D1 -ne 0 ] && [ $D0 -eq 0 ]; then
  mkdir -p "$VERIF/seeded/$NAME"
  cp "$M/patch.diff" "$M/demo.py" "$VERIF/seeded/$NAME/"
  /venv/bin/python - "$M/meta.json" "$VERIF/seeded/$NAME/meta.json" "$PID" "$T" <<'PY'
import json,sys
src,dst,pid,tests=sys.argv[1:5]
try: m=json.load(open(src))
except Exception: m={}
m["property"]=pid
m["confirmed"]={"suite_with_patch": tests, "suite_cmd": "PYTHONPATH=<worktree>/src /venv/bin/python -m pytest -q -p no:cacheprovider --timeout=900 -n 8",
                "demo_with_patch": "exit!=0 (FAIL)", "demo_without_patch": "exit 0 (PASS)", "by": "harness/tools/verify_seed.sh in a scratch worktree"}
json.dump(m,open(dst,"w"),indent=1)
PY
  echo "KEPT $NAME"
else
  echo "REJECTED $NAME"
fi
