"""Bookkeeping consistency: every `fixed:` entry names a commit of /repo's history, every /repo `fix:` commit is referenced,
every seeded dir has its three files, MANIFEST is up to date with the check modules.  usage: python -m harness.tools.consistency"""
import json
import re
import subprocess
import sys
from pathlib import Path

VERIF = Path(__file__).resolve().parents[2]


def main():
    bad = []
    log = subprocess.check_output(["git", "-C", "/repo", "log", "--format=%H %s"], text=True).splitlines()
    full = [l.split()[0] for l in log]
    used = set()
    for f in sorted((VERIF / "findings").glob("C*.json")):
        d = json.loads(f.read_text())
        for x in d.get("fixed", []):
            m = re.match(r"fixed: property=(C\d+) ((?:[0-9a-f]{7,40} )+)", x)
            if not m:
                bad.append(f"{f.name}: malformed fixed entry {x[:60]!r}")
                continue
            for hh in m.group(2).split():          # one entry may name several commits (a repair landed in steps)
                hits = [h for h in full if h.startswith(hh)]
                if not hits:
                    bad.append(f"{f.name}: fixed entry names {hh}, not a commit of /repo")
                used.update(hits)
        for x in d.get("findings", []):
            for k in ("id", "what", "status"):
                if k not in x:
                    bad.append(f"{f.name}: finding without {k}")
    for l in log:
        h, subj = l.split(" ", 1)
        if subj.startswith("fix:") and h not in used:
            bad.append(f"/repo fix commit {h[:7]} is not referenced by any findings/*.json: {subj[:80]}")
        if not subj.startswith("fix:") and not subj.startswith("snapshot") and "GRIFFE_VERIF" not in subj:
            bad.append(f"/repo commit {h[:7]} is neither a fix: commit nor a guarded hook: {subj[:80]}")
    for d in sorted((VERIF / "seeded").iterdir()):
        if d.is_dir():
            for n in ("patch.diff", "demo.py", "meta.json"):
                if not (d / n).exists():
                    bad.append(f"seeded/{d.name}: {n} missing")
    lock = VERIF / "harness" / "anchors.lock.json"
    head = subprocess.check_output(["git", "-C", "/repo", "rev-parse", "HEAD"], text=True).strip()
    if not lock.exists() or json.loads(lock.read_text()).get("head") != head:
        bad.append("harness/anchors.lock.json was not recorded at /repo's HEAD (run python -m harness.tools.anchor_lock once all checks pass)")
    man = json.loads((VERIF / "MANIFEST.json").read_text())
    claimed = json.loads((VERIF / "harness" / "claimed.json").read_text())
    if sorted(c["property_id"] for c in man["checks"]) != sorted(claimed):
        bad.append("MANIFEST.checks differs from harness/claimed.json (run python -m harness.common.manifest)")
    for b in bad:
        print("INCONSISTENT:", b)
    print(len(bad), "inconsistencies")
    return 1 if bad else 0


if __name__ == "__main__":
    sys.exit(main())
