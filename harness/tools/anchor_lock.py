"""Record the fingerprint of /repo's sources (harness/anchors.lock.json) that the models, proofs and correspondence were last
validated against.  Run after every landed fix commit, once all checks pass on the new HEAD.  A quick check on a tree that
differs from this fingerprint deepens its exploration (framework.source_delta).  usage: python -m harness.tools.anchor_lock"""
import json
import subprocess
import sys

from harness.common import framework


def main():
    dirty = subprocess.run(["git", "-C", "/repo", "status", "--porcelain"], capture_output=True, text=True).stdout.strip()
    if dirty:
        print("refusing: /repo is dirty")
        return 1
    head = subprocess.run(["git", "-C", "/repo", "rev-parse", "HEAD"], capture_output=True, text=True).stdout.strip()
    fp = framework.source_fingerprint("/repo")
    framework.LOCK.write_text(json.dumps({"head": head, "files": fp}, indent=1, sort_keys=True))
    print("fingerprint of", len(fp), "files at", head[:7])
    return 0


if __name__ == "__main__":
    sys.exit(main())
