"""Regenerate the "seeded changes" section of DESIGN.md from seeded/*/meta.json and seeded/RESULTS.json (idempotent, marker-delimited)."""
import json
import re
from pathlib import Path

VERIF = Path(__file__).resolve().parents[2]


def main():
    res = json.loads((VERIF / "seeded" / "RESULTS.json").read_text())
    fp_file = VERIF / "seeded" / "FIRST_PASS.json"     # verdict of the check as it stood when the change was first evaluated (rounds 2-5)
    first = json.loads(fp_file.read_text()) if fp_file.exists() else {}
    rows, n, c, cf = [], 0, 0, 0
    for d in sorted((VERIF / "seeded").iterdir()):
        if not (d / "meta.json").exists():
            continue
        meta = json.loads((d / "meta.json").read_text())
        r = res.get(d.name, {})
        n += 1
        if r.get("caught"):
            c += 1
            verdict = "reported with failing input" if r.get("with_failing_input") else "reported, no-failing-input-found (broken tie/proof named in replay)"
            cf += bool(r.get("with_failing_input"))
        elif r.get("caught") is None:
            verdict = "not run (" + str(r.get("line", "no result"))[:60] + ")"
        else:
            verdict = "**NOT reported**"
        files = meta.get("files")
        if isinstance(files, str):
            files = re.findall(r"[\w/.-]+\.py", files)
        summ = " ".join(str(meta.get("summary", "")).split())
        needs = " ".join(str(meta.get("needs", "")).split())
        fpv = first.get(d.name, {}).get("first_pass")
        if fpv:
            verdict += f" (first evaluation, before any follow-up: {fpv})"
        rows.append(f"- `{d.name}` ({', '.join(Path(f).name for f in (files or []))}) — {summ[:260]}{'…' if len(summ) > 260 else ''} "
                    f"*Needs:* {needs[:200]}{'…' if len(needs) > 200 else ''} → check `{meta['property']}` ({r.get('tier', 'quick')}): {verdict}.")
    out = ["<!-- seeded-register -->", "## 6b. Seeded changes and the checks that report them (generated from seeded/)", "",
           "Each entry is a change to /repo written by a fresh sub-agent that saw only the property text and its own scratch worktree "
           "(nothing from /verif), confirmed by `harness/tools/verify_seed.sh` in a scratch worktree: the whole test suite passes with it "
           "(`825 passed, 2 skipped`), its demonstration fails with it and passes without. Rounds: 1 = `-m1..m3`, 2 = `-m4..m6`, 3 = `-m7..m9`, "
           "4 = `-m10..m12`, 5 = `-m13..m15` (rounds 4 and 5 asked for the hard kinds: history-dependent state, two cooperating sites, fault "
           "paths, non-default options and entry points). Changes whose context was moved by later `fix:` commits were ported keeping their intent "
           "and re-verified. "
           "Result = `bin/check <property> --tier quick` (default seed) run against a scratch worktree with the patch applied "
           "(`harness/tools/run_seeded.py`; `seeded/RESULTS.json`). The checks are never told about these patches: a miss is repaired by "
           "a principled generator/model extension, and the entry stays as a regression target.", "",
           f"Totals: {n} kept changes, {c} reported ({cf} with a concrete failing input), {n - c} not reported at the time of the last run.", "",
           "First-evaluation rates (the check as it stood when a round's changes arrived, i.e. an estimate of what a *new* change of that kind "
           "meets): " + "; ".join(
               f"round {r}: {sum(1 for v in first.values() if v['round'] == r and v['first_pass'] == 'failing-input')}/"
               f"{sum(1 for v in first.values() if v['round'] == r)} with a failing input, "
               f"{sum(1 for v in first.values() if v['round'] == r and v['first_pass'] == 'broken-tie')} as a broken tie only, "
               f"{sum(1 for v in first.values() if v['round'] == r and v['first_pass'] == 'not-reported')} not reported"
               for r in sorted({v['round'] for v in first.values()})) + ". Every miss was handed back to the property's owner as a *class* of "
           "inputs/histories/options to cover (never the patch), which is why the final column differs; the residual risk for an unseen change of "
           "the hard kinds is what the last rounds' first-evaluation rates show.", ""]
    out += rows
    out.append("<!-- /seeded-register -->\n")
    block = "\n".join(out)
    p = VERIF / "DESIGN.md"
    s = p.read_text()
    s = re.sub(r"<!-- seeded-register -->.*?<!-- /seeded-register -->\n", "", s, flags=re.S)
    m = re.search(r"^## 7\. ", s, flags=re.M)
    s = s[:m.start()] + block + "\n" + s[m.start():]
    p.write_text(s)
    print(n, "seeded", c, "reported", cf, "with failing input")


if __name__ == "__main__":
    main()
