"""Cherry-pick the `fix:` commits a property owner prepared in /verif/build/fix-Cxx into /repo, run the suite,
and rewrite the commit hashes in findings/Cxx.json "fixed" entries.  usage: python -m harness.tools.land_fix C12"""
import json
import re
import subprocess
import sys
from pathlib import Path

VERIF = Path(__file__).resolve().parents[2]
REPO = "/repo"


def sh(*a, **k):
    return subprocess.run(a, capture_output=True, text=True, **k)


def main(pid):
    clone = VERIF / "build" / f"fix-{pid}"
    base = sh("git", "-C", str(clone), "merge-base", "HEAD", "origin/HEAD").stdout.strip() or sh("git", "-C", str(clone), "rev-parse", "origin/main").stdout.strip()
    commits = sh("git", "-C", str(clone), "log", "--reverse", "--format=%H %s", f"{base}..HEAD").stdout.strip().splitlines()
    if not commits:
        print("no commits to land")
        return 1
    for c in commits:
        if not c.split(" ", 1)[1].startswith("fix:"):
            print("refusing: commit message does not start with fix:", c)
            return 1
    if sh("git", "-C", REPO, "status", "--porcelain").stdout.strip():
        print("refusing: /repo is dirty")
        return 1
    sh("git", "-C", REPO, "fetch", "-q", str(clone), "HEAD")
    mapping = {}
    for c in commits:
        h, subj = c.split(" ", 1)
        p = sh("git", "-C", REPO, "-c", "user.name=builder", "-c", "user.email=builder@example.com", "cherry-pick", h)
        if p.returncode != 0:
            print("cherry-pick failed for", c, p.stdout[-400:], p.stderr[-400:])
            sh("git", "-C", REPO, "cherry-pick", "--abort")
            return 1
        new = sh("git", "-C", REPO, "rev-parse", "--short", "HEAD").stdout.strip()
        mapping[h[:7]] = new
        print("landed", h[:7], "->", new, subj)
    t = sh("bash", "-c", f"cd {REPO} && PYTHONPATH={REPO}/src /venv/bin/python -m pytest -q -p no:cacheprovider --timeout=900 -n 8 2>&1 | tail -1").stdout.strip()
    print("suite on /repo:", t)
    if "825 passed" not in t or "failed" in t:
        print("SUITE REGRESSION - investigate (commits are in /repo; revert with git reset --hard if needed)")
        return 1
    b = sh(sys.executable, "-m", "harness.tools.baseline_suite", cwd=str(VERIF))
    print(b.stdout.strip())
    if b.returncode != 0:
        print("BASELINE REGRESSION - investigate")
        return 1
    fp = VERIF / "findings" / f"{pid}.json"
    if fp.exists():
        s = fp.read_text()
        for old, new in mapping.items():
            s = re.sub(rf"\b{old}[0-9a-f]*\b", new, s)
        fp.write_text(s)
    print(sh(sys.executable, "-m", "harness.tools.anchor_lock", cwd=str(VERIF)).stdout.strip())
    return 0


if __name__ == "__main__":
    sys.exit(main(sys.argv[1]))
