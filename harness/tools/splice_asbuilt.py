"""Insert asbuilt/Cxx.md into DESIGN.md at the end of each `### Cxx` section (idempotent, marker-delimited)."""
import re
from pathlib import Path

VERIF = Path(__file__).resolve().parents[2]


def main():
    p = VERIF / "DESIGN.md"
    s = p.read_text()
    for f in sorted((VERIF / "asbuilt").glob("C*.md")):
        pid = f.stem
        block = f"<!-- asbuilt:{pid} -->\n{f.read_text().strip()}\n<!-- /asbuilt:{pid} -->\n\n"
        s = re.sub(rf"<!-- asbuilt:{pid} -->.*?<!-- /asbuilt:{pid} -->\n\n", "", s, flags=re.S)
        m = re.search(rf"^### {pid} — .*?(?=^### C\d\d — |^## 6\. )", s, flags=re.S | re.M)
        if not m:
            print("section not found for", pid)
            continue
        s = s[:m.end()] + block + s[m.end():]
    p.write_text(s)


if __name__ == "__main__":
    main()
