"""Run the pinned baseline test command (/root/.vp/BASELINE.json) on /repo and verify every stable_pass test still passes.
usage: python -m harness.tools.baseline_suite   (exit 0 iff none of the 754 pinned tests is missing from the passed set)"""
import json
import subprocess
import sys
import tempfile
import xml.etree.ElementTree as ET
from pathlib import Path


def main():
    b = json.loads(Path("/root/.vp/BASELINE.json").read_text())
    with tempfile.TemporaryDirectory() as d:
        x = Path(d) / "junit.xml"
        subprocess.run(b["cmd"].replace("<file>", str(x)), shell=True, capture_output=True, text=True, timeout=3600)
        passed = set()
        for tc in ET.parse(x).iter("testcase"):
            if not any(c.tag in ("failure", "error", "skipped") for c in tc):
                passed.add(f"{tc.get('classname')}::{tc.get('name')}")
    missing = sorted(set(b["stable_pass"]) - passed)
    print(f"baseline: {len(b['stable_pass'])} pinned, {len(passed)} passed now, {len(missing)} pinned tests no longer pass")
    for m in missing[:20]:
        print("  MISSING", m)
    return 1 if missing else 0


if __name__ == "__main__":
    sys.exit(main())
