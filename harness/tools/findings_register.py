"""Regenerate the findings register section of DESIGN.md from findings/*.json (idempotent, marker-delimited)."""
import json
import re
from pathlib import Path

VERIF = Path(__file__).resolve().parents[2]


def main():
    out = ["<!-- findings-register -->", "## 6a. Findings register (generated from findings/*.json)", "",
           "Known findings are genuine defects of the tree recorded rather than repaired (each with a classifier so that a *different* "
           "violation of the same property still alarms); fixed entries were repaired by `fix:` commits in /repo and suppress nothing.", ""]
    nk = nf = 0
    for f in sorted((VERIF / "findings").glob("C*.json")):
        d = json.loads(f.read_text())
        known = [x for x in d.get("findings", []) if x.get("status") == "known"]
        fixed = d.get("fixed", [])
        if not known and not fixed:
            continue
        out.append(f"**{f.stem}**")
        for x in known:
            nk += 1
            w = x.get("witness")
            out.append(f"- known `{x['id']}` — {x.get('site', '?')}: {x['what']}" + (f" (Coq: {x.get('coq_predicate')})" if x.get("coq_predicate") else ""))
        for s in fixed:
            nf += 1
            out.append(f"- {s}")
        out.append("")
    out.insert(4, f"Totals: {nk} known findings, {nf} repaired defects.")
    out.append("<!-- /findings-register -->\n")
    block = "\n".join(out)
    p = VERIF / "DESIGN.md"
    s = p.read_text()
    s = re.sub(r"<!-- findings-register -->.*?<!-- /findings-register -->\n", "", s, flags=re.S)
    m = re.search(r"^## 7\. ", s, flags=re.M)
    s = s[:m.start()] + block + "\n" + s[m.start():]
    p.write_text(s)
    print(nk, "known", nf, "fixed")


if __name__ == "__main__":
    main()
