#!/bin/bash
# usage: eval_round.sh <PID> <snapshot verif dir> <offset>  : verify /tmp/seed-out/PID/r*-mK (K=1..3) in worktree /tmp/sw-PID, keep as seeded/PID-m<offset+K>,
# then run the snapshot's check against each kept one. Output: one line per change.
P="$1"; SNAP="$2"; OFF="${3:-3}"
VERIF="$(cd "$(dirname "$0")/../.." && pwd)"
WT=${WTBASE:-/tmp/sw}-$P
NAMES=""
for K in 1 2 3; do
  D=$(ls -d /tmp/seed-out/$P/r*-m$K 2>/dev/null | tail -1); [ -d "$D" ] || continue
  N=$P-m$((OFF+K))
  git -C $WT reset -q --hard; git -C $WT clean -qfd
  bash $VERIF/harness/tools/verify_seed.sh $WT $D $P $N 2>&1 | grep -E '^(RESULT|KEPT|REJECTED)'
  [ -d $VERIF/seeded/$N ] && { NAMES="$NAMES $N"; [ "$(readlink -f $SNAP)" != "$(readlink -f $VERIF)" ] && { rm -rf $SNAP/seeded/$N; cp -r $VERIF/seeded/$N $SNAP/seeded/; }; }
done
git -C $WT reset -q --hard
[ -n "$NAMES" ] && (cd $SNAP && PYTHONPATH=/repo/src:$SNAP PYTHONHASHSEED=0 /venv/bin/python -m harness.tools.run_seeded --worktree $WT $NAMES 2>&1 | cut -c1-260)
git -C $WT reset -q --hard
