#!/bin/bash
# usage: run_seeded_all.sh [tier] [ids...] : every kept seeded change against its property's check, one scratch worktree per property, 5 at a time
cd "$(dirname "$0")/../.." || exit 2
TIER="${1:-quick}"; shift 2>/dev/null
IDS="${*:-C01 C02 C03 C04 C05 C06 C07 C08 C09 C10 C11 C12 C13 C14 C15 C16 C17 C18 C19 C20}"
export PYTHONPATH=/repo/src:$PWD PYTHONHASHSEED=0
mkdir -p build/logs
printf '%s\n' $IDS | xargs -P 5 -I{} bash -c "rm -rf /tmp/wt-seed-{}; git -C /repo worktree prune; git -C /repo worktree add -q --detach /tmp/wt-seed-{} HEAD && /venv/bin/python -m harness.tools.run_seeded --worktree /tmp/wt-seed-{} --tier $TIER {} > build/logs/seeded-{}.log 2>&1; git -C /repo worktree remove --force /tmp/wt-seed-{}; tail -n 3 build/logs/seeded-{}.log | cut -c1-220"
