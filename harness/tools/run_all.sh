#!/bin/bash
# usage: run_all.sh [seed] [tier] [ids...]  -> build/logs/all-<seed>/Cxx.log and a summary line per property
cd "$(dirname "$0")/../.." || exit 2
SEED="${1:-1}"; TIER="${2:-quick}"; shift 2 2>/dev/null
IDS="${*:-C01 C02 C03 C04 C05 C06 C07 C08 C09 C10 C11 C12 C13 C14 C15 C16 C17 C18 C19 C20}"
OUT=build/logs/all-$SEED-$TIER; mkdir -p $OUT
export VERIF_EVIDENCE_DIR="${VERIF_EVIDENCE_DIR:-$PWD/evidence}"
printf '%s\n' $IDS | xargs -P 4 -I{} bash -c "bin/check {} --tier $TIER --seed $SEED > $OUT/{}.log 2>&1; echo {} rc=\$? \$(grep -c '^KNOWN-FINDING' $OUT/{}.log) known \$(grep '^VIOLATION' $OUT/{}.log | head -1) \$(tail -1 $OUT/{}.log | grep -o 'wall=[0-9.]*s')"
