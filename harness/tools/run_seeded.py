"""Run a property's check against every kept seeded change and record which are caught.

usage: python -m harness.tools.run_seeded [--repo /repo | --worktree DIR] [--tier quick] [ids or seeded names...]
With --worktree the patch is applied in that scratch worktree and the check runs with GRIFFE_REPO=DIR (nothing in
/repo is touched); with --repo (default at the end of the build) it is applied to /repo and undone straight afterwards.
Results: seeded/RESULTS.json (name -> {caught, line, wall_s}).
"""
import argparse
import json
import os
import subprocess
import sys
import time
from pathlib import Path

VERIF = Path(__file__).resolve().parents[2]


def main():
    ap = argparse.ArgumentParser()
    ap.add_argument("--worktree")
    ap.add_argument("--tier", default="quick")
    ap.add_argument("names", nargs="*")
    a = ap.parse_args()
    tree = a.worktree or "/repo"
    res_path = VERIF / "seeded" / "RESULTS.json"
    results = json.loads(res_path.read_text()) if res_path.exists() else {}
    dirs = sorted(d for d in (VERIF / "seeded").iterdir() if d.is_dir() and (d / "patch.diff").exists())
    touched = set()
    if a.worktree:      # scratch worktrees follow /repo's HEAD (fix commits land while they exist)
        head = subprocess.run(["git", "-C", "/repo", "rev-parse", "HEAD"], capture_output=True, text=True).stdout.strip()
        subprocess.run(["git", "-C", tree, "checkout", "-q", "--", "."], check=False)
        subprocess.run(["git", "-C", tree, "checkout", "-q", "--detach", head], check=False)
    for d in dirs:
        meta = json.loads((d / "meta.json").read_text())
        pid = meta["property"]
        if a.names and d.name not in a.names and pid not in a.names:
            continue
        if not (VERIF / "harness" / "props" / f"{pid.lower()}.py").exists():
            continue
        touched.add(d.name)
        subprocess.run(["git", "-C", tree, "checkout", "-q", "--", "."], check=True)
        ap_ = subprocess.run(["git", "-C", tree, "apply", str(d / "patch.diff")], capture_output=True, text=True)
        if ap_.returncode != 0:
            results[d.name] = {"property": pid, "caught": None, "line": "patch does not apply: " + ap_.stderr[:200]}
            continue
        t0 = time.time()
        try:
            p = subprocess.run([str(VERIF / "bin/check"), pid, "--tier", a.tier], capture_output=True, text=True, timeout=3600,
                               env=dict(os.environ, GRIFFE_REPO=tree, VERIF_EVIDENCE_DIR=str(VERIF / 'build' / 'seeded-evidence')))
            out, rc = p.stdout, p.returncode
        except subprocess.TimeoutExpired:
            out, rc = "TIMEOUT", -1
        finally:
            subprocess.run(["git", "-C", tree, "checkout", "-q", "--", "."], check=True)
        vio = [l for l in out.splitlines() if l.startswith("VIOLATION")]
        results[d.name] = {"property": pid, "caught": bool(vio) and rc == 1, "with_failing_input": bool(vio) and "no-failing-input-found" not in vio[0],
                           "line": vio[0] if vio else out.strip().splitlines()[-1:] , "wall_s": round(time.time() - t0, 1), "tier": a.tier}
        print(d.name, results[d.name], flush=True)
        if not a.worktree:   # in-place run on /repo: the next check regenerates coq/Gen from the restored tree; mirror runs never touch it
            pass
    import fcntl
    with open(VERIF / "seeded" / ".lock", "w") as lk:      # several properties may run side by side (one worktree each)
        fcntl.flock(lk, fcntl.LOCK_EX)
        merged = json.loads(res_path.read_text()) if res_path.exists() else {}
        merged.update({k: v for k, v in results.items() if k in touched})
        res_path.write_text(json.dumps(merged, indent=1, sort_keys=True))


if __name__ == "__main__":
    sys.exit(main())
