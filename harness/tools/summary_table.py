"""Regenerate the per-property summary table of DESIGN.md (section 0a) from evidence/, findings/, seeded/RESULTS.json (idempotent)."""
import json
import re
from pathlib import Path

VERIF = Path(__file__).resolve().parents[2]


def main():
    res = json.loads((VERIF / "seeded" / "RESULTS.json").read_text())
    man = json.loads((VERIF / "MANIFEST.json").read_text())
    titles = {json.loads(l)["id"]: json.loads(l)["title"] for l in (VERIF / "properties.jsonl").read_text().splitlines() if l.strip()}
    out = ["<!-- summary-table -->", "## 0a. State at a glance (generated from evidence/, findings/, seeded/)", "",
           "| id | property | theorems (all closed under the global context) | translator-regenerated Coq files | known findings | repaired defects (`fix:` commits) | seeded changes reported with a failing input | last quick run: cases explored / wall |",
           "|---|---|---|---|---|---|---|---|"]
    tot_t = tot_k = tot_f = 0
    for c in man["checks"]:
        pid = c["property_id"]
        ev = json.loads((VERIF / "evidence" / f"{pid}.json").read_text())
        cov = ev["coverage"]
        fp = VERIF / "findings" / f"{pid}.json"
        fd = json.loads(fp.read_text()) if fp.exists() else {}
        known = [f for f in fd.get("findings", []) if f.get("status") == "known"]
        fixed = fd.get("fixed", [])
        seeds = {k: v for k, v in res.items() if k.startswith(pid + "-")}
        ok = sum(1 for v in seeds.values() if v.get("caught") and v.get("with_failing_input"))
        gens = sorted(p.name for p in (VERIF / "coq" / "Gen").glob(f"{pid}_*.v"))
        tot_t += cov["obligations"]; tot_k += len(known); tot_f += len(fixed)
        out.append(f"| {pid} | {titles[pid]} | {cov['discharged']}/{cov['obligations']} | {', '.join(gens) or '—'} | {len(known)} | {len(fixed)} | "
                   f"{ok}/{len(seeds)} | {cov['evaluations']} / {ev['wall_s']:.0f} s ({ev['tier']}, seed {ev['seed']}) |")
    out += ["", f"Totals: {tot_t} property theorems, {tot_k} known findings, {tot_f} repaired-defect entries "
            f"({len(set(re.findall(r'[0-9a-f]{7}', ' '.join(x for f in (VERIF / 'findings').glob('C*.json') for x in json.loads(f.read_text()).get('fixed', [])))))} distinct commit hashes named).",
            "<!-- /summary-table -->", ""]
    block = "\n".join(out)
    p = VERIF / "DESIGN.md"
    s = p.read_text()
    s = re.sub(r"<!-- summary-table -->.*?<!-- /summary-table -->\n", "", s, flags=re.S)
    m = re.search(r"^## 1\. ", s, flags=re.M)
    s = s[:m.start()] + block + "\n" + s[m.start():]
    p.write_text(s)
    print("summary table written")


if __name__ == "__main__":
    main()
