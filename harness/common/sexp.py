"""S-expression text protocol shared with ocaml/driver.ml and coq/Lib/Sexp.v.

Python values: int -> SInt, str -> SStr (bytes 0..255 only; non-Latin-1 is UTF-8 encoded first),
list/tuple -> SList, bool -> SInt 0/1, None -> SList [] (option encoding: None=(), Some x=(x)).
"""
from __future__ import annotations


def _enc_str(s: str) -> str:
    try:
        raw = s.encode("latin-1")
    except UnicodeEncodeError:
        raw = s.encode("utf-8")
    out = ['"']
    for b in raw:
        c = chr(b)
        if c == "\\":
            out.append("\\\\")
        elif c == '"':
            out.append('\\"')
        elif c == "\n":
            out.append("\\n")
        elif c == "\t":
            out.append("\\t")
        elif c == "\r":
            out.append("\\r")
        elif b < 32 or b > 126:
            out.append("\\x%02x" % b)
        else:
            out.append(c)
    out.append('"')
    return "".join(out)


def dumps(v) -> str:
    if v is None:
        return "()"
    if isinstance(v, bool):
        return "1" if v else "0"
    if isinstance(v, int):
        return str(v)
    if isinstance(v, str):
        return _enc_str(v)
    if isinstance(v, (list, tuple)):
        return "(" + " ".join(dumps(x) for x in v) + ")"
    raise TypeError(f"cannot encode {type(v)}")


def some(v):
    return [v]


def opt(v):
    return [] if v is None else [v]


def loads(s: str):
    i = 0
    n = len(s)

    def item():
        nonlocal i
        while i < n and s[i] in " \t":
            i += 1
        if i >= n:
            raise ValueError("eof")
        c = s[i]
        if c == "(":
            i += 1
            acc = []
            while True:
                while i < n and s[i] in " \t":
                    i += 1
                if i >= n:
                    raise ValueError("eof-list")
                if s[i] == ")":
                    i += 1
                    return acc
                acc.append(item())
        if c == '"':
            i += 1
            out = []
            while True:
                c = s[i]
                if c == '"':
                    i += 1
                    return "".join(out)
                if c == "\\":
                    d = s[i + 1]
                    if d == "n":
                        out.append("\n"); i += 2
                    elif d == "t":
                        out.append("\t"); i += 2
                    elif d == "r":
                        out.append("\r"); i += 2
                    elif d == "x":
                        out.append(chr(int(s[i + 2:i + 4], 16))); i += 4
                    else:
                        out.append(d); i += 2
                else:
                    out.append(c); i += 1
        j = i
        while i < n and s[i] not in " ()":
            i += 1
        return int(s[j:i])

    return item()


def to_coq(v) -> str:
    """Render a value as a Coq term of type sexp (for vm_compute cross-checks)."""
    if v is None:
        return "SList []"
    if isinstance(v, bool):
        return "SInt %d" % (1 if v else 0)
    if isinstance(v, int):
        return "SInt (%d)" % v
    if isinstance(v, str):
        try:
            raw = v.encode("latin-1")
        except UnicodeEncodeError:
            raw = v.encode("utf-8")
        if all(32 <= b <= 126 and b != 34 for b in raw):
            return 'SStr "%s"' % raw.decode("latin-1")
        parts = " ".join('"%03d"%%char ::' % b for b in raw)
        return "SStr (string_of_list_ascii (%s nil))" % parts
    if isinstance(v, (list, tuple)):
        return "SList [" + "; ".join(to_coq(x) for x in v) + "]"
    raise TypeError(type(v))


def parse_coq(text: str):
    """Parse a Coq-printed term of type sexp (Z_scope, string_scope, list notation) into a python value."""
    i = 0
    n = len(text)

    def ws():
        nonlocal i
        while i < n and text[i] in " \t\n\r":
            i += 1

    def term():
        nonlocal i
        ws()
        if text.startswith("(", i) and not text.startswith("(-", i):
            i += 1
            v = term()
            ws()
            assert text[i] == ")", text[i:i + 20]
            i += 1
            return v
        if text.startswith("SInt", i):
            i += 4
            ws()
            par = False
            if text[i] == "(":
                par = True
                i += 1
                ws()
            j = i
            if text[i] == "-":
                i += 1
                ws()
            while i < n and text[i].isdigit():
                i += 1
            v = int(text[j:i].replace(" ", ""))
            ws()
            if text.startswith("%Z", i):
                i += 2
            ws()
            if par:
                assert text[i] == ")"
                i += 1
            return v
        if text.startswith("SStr", i):
            i += 4
            ws()
            assert text[i] == '"', text[i:i + 20]
            i += 1
            out = []
            while True:
                if text[i] == '"':
                    if text.startswith('""', i):
                        out.append('"'); i += 2
                        continue
                    i += 1
                    break
                out.append(text[i]); i += 1
            if text.startswith("%string", i):
                i += 7
            return "".join(out)
        if text.startswith("SList", i):
            i += 5
            ws()
            assert text[i] == "[", text[i:i + 20]
            i += 1
            acc = []
            ws()
            if text[i] == "]":
                i += 1
                return acc
            while True:
                acc.append(term())
                ws()
                if text[i] == ";":
                    i += 1
                    continue
                assert text[i] == "]", text[i:i + 20]
                i += 1
                return acc
        raise ValueError("cannot parse coq sexp at: " + text[i:i + 40])

    v = term()
    return v
