"""Regenerates MANIFEST.json from the property modules that exist (python -m harness.common.manifest)."""
import importlib
import json
import pkgutil
from pathlib import Path

VERIF = Path(__file__).resolve().parents[2]


def main():
    import harness.props as props
    ids = [json.loads(l)["id"] for l in (VERIF / "properties.jsonl").read_text().splitlines() if l.strip()]
    mods = {}
    claimed = json.loads((VERIF / "harness" / "claimed.json").read_text())   # integrated and verified to pass on the unchanged tree
    for pid in claimed:
        mods[pid] = importlib.import_module(f"harness.props.{pid.lower()}")
    checks = []
    for pid in ids:
        if pid not in mods:
            continue
        mod = mods[pid]
        checks.append({
            "property_id": pid,
            "quick_cmd": f"bin/check {pid} --tier quick",
            "thorough_cmd": f"bin/check {pid} --tier thorough",
            "evidence_file": f"/verif/evidence/{pid}.json",
            "replay_cmd_template": f"bin/check {pid} --replay {{path}}",
            "engine": "coq-proof+correspondence",
            "level_claimed": {"category": "proof", "text": mod.LEVEL_TEXT, "design_ref": f"DESIGN.md §5 {pid}"},
            "level_note": mod.LEVEL_NOTE,
            "technique": getattr(mod, "TECHNIQUE", "Coq 8.16 theorems over a Gallina model; model tied to /repo by differential correspondence (extracted OCaml model vs implementation vs CPython) on every run"),
        })
    na_reasons = json.loads((VERIF / "harness" / "not_applicable.json").read_text())
    na = [{"property_id": pid, "reason": na_reasons.get(pid, "not claimed yet: Coq model and correspondence harness for this property are not built in this revision")}
          for pid in ids if pid not in mods]
    manifest = {
        "version": 1,
        "setup_cmd": "bin/setup",
        "hooks": {"guard": "GRIFFE_VERIF", "enable": "no source hooks are needed; checks set GRIFFE_VERIF=1 and use public seams (extensions, wrappers) from the harness process",
                  "baseline_off_cmd": "cd /repo && /venv/bin/python -m pytest -ra -q -p no:cacheprovider --timeout=900 --continue-on-collection-errors",
                  "source_commits": json.loads((VERIF / "harness" / "source_commits.json").read_text()), "add_only": True},
        "engines": [{"name": "coq-proof+correspondence", "path": "bin/check", "serves_properties": [c["property_id"] for c in checks],
                     "kind_free_text": "Coq 8.16.1 development under coq/ (Model, Proofs, Properties), rebuilt on every run; hand-written Gallina models extracted to OCaml and run against /repo/src on generated inputs; translators regenerate coq/Gen/*.v from /repo sources"}],
        "checks": checks,
        "notes": "Every check runs Griffe from /repo/src (PYTHONPATH override, asserted at start). Known findings: known_findings.json. See DESIGN.md.",
        "not_applicable": na,
    }
    allf, fixed = [], []
    for fp in sorted((VERIF / "findings").glob("C*.json")):
        d = json.loads(fp.read_text())
        allf += d.get("findings", [])
        fixed += d.get("fixed", [])
    (VERIF / "known_findings.json").write_text(json.dumps({
        "comment": "Aggregate of findings/Cxx.json (the per-property files the checks read). Genuine defects of the pinned tree that are recorded rather than repaired, each identified by a classifier predicate and a witness; plus the log of repaired defects. Never written at run time.",
        "findings": allf, "fixed": fixed}, indent=1) + "\n")
    (VERIF / "MANIFEST.json").write_text(json.dumps(manifest, indent=1) + "\n")
    print(f"{len(checks)} checks, {len(na)} not claimed")


if __name__ == "__main__":
    main()
