"""Check driver shared by all properties: ties (translator, proofs, correspondence), search, evidence, findings."""
from __future__ import annotations

import argparse
import hashlib
import importlib
import json
import os
import random
import subprocess
import sys
import time
import traceback
from collections import Counter
from pathlib import Path

from . import build
from . import sexp as S

VERIF = build.VERIF
REPO = Path(os.environ.get("GRIFFE_REPO", "/repo"))

BASE_TRUSTED = [
    "Coq 8.16.1 kernel and coqc (vm_compute used for finite reflections and witnesses; native_compute not used)",
    "no axioms declared in the development; per-theorem Print Assumptions output recorded in coverage.assumption_report",
    "harness/common/*.py and this property's harness/props module: generators, abstraction functions "
    "(live Griffe object / Python ast -> model input term), canonicalisation and diff",
    "CPython 3.12.1 (ast, compile, call binding, type()/MRO, dataclasses, importlib, inspect) as the authority where the property names it",
]


class TranslatorError(Exception):
    pass


class ModelUnavailable(Exception):
    pass


def canon_hash(v) -> str:
    return hashlib.sha1(json.dumps(v, sort_keys=True, default=str).encode()).hexdigest()


class Ctx:
    def __init__(self, prop_id: str, tier: str, seed: int, mod):
        self.prop_id = prop_id
        self.tier = tier
        self.seed = seed
        self.rng = random.Random(seed)
        self.mod = mod
        self.t0 = time.time()
        self.stats: Counter = Counter()
        self.dist: dict[str, Counter] = {}
        self.samples: list = []
        self.evaluations = 0
        self._nontrivial: set[str] = set()
        self.tie_failures: list[dict] = []
        self.prop_failures: list[dict] = []
        self.known_hits: Counter = Counter()
        self.witness_reproduced: dict[str, bool] = {}
        self.driver: Path | None = None
        self.model_log = ""
        self.notes: list[str] = []
        self.exhaustive = False
        self.deepen = 1          # >1 when the tree under test differs from the recorded source fingerprint (quick tier only)
        self.scratch = build.BUILD / f"run-{prop_id}-{os.getpid()}"
        fp = VERIF / "findings" / f"{prop_id}.json"   # committed; aggregated into known_findings.json; never written at run time
        kf = json.loads(fp.read_text()) if fp.exists() else {"findings": []}
        self.known = {f["id"]: f for f in kf.get("findings", []) if f["property"] == prop_id and f.get("status") == "known"}

    # ---- budget helpers
    @property
    def quick(self) -> bool:
        return self.tier == "quick"

    def budget(self, quick: int, thorough: int) -> int:
        if not self.quick:
            return thorough
        # change-triggered deepening: a tree that differs from the fingerprint gets a larger exploration, never beyond thorough
        return quick if self.deepen <= 1 else max(quick, min(thorough, quick * self.deepen))

    def elapsed(self) -> float:
        return time.time() - self.t0

    # ---- bookkeeping
    def count(self, key: str, n: int = 1):
        self.stats[key] += n

    def observe(self, dist: str, key, n: int = 1):
        self.dist.setdefault(dist, Counter())[str(key)] += n

    def case(self, case, nontrivial: bool = True):
        """Register one explored case (for evaluations / distinct_nontrivial / samples)."""
        self.evaluations += 1
        if nontrivial:
            h = canon_hash(case)
            if h not in self._nontrivial:
                self._nontrivial.add(h)
                if len(self.samples) < 6 or (len(self.samples) < 12 and self.rng.random() < 0.01):
                    self.samples.append(case)

    def tie_failure(self, kind: str, name: str, detail, case=None):
        """A proof obligation, translator or correspondence that no longer checks."""
        self.stats[f"tie_failure:{kind}"] += 1
        if len(self.tie_failures) < 50:
            self.tie_failures.append({"kind": kind, "name": name, "detail": detail, "case": case})

    def property_failure(self, case, detail, finding: str | None = None):
        """The property itself evaluated false on the implementation for this input."""
        if finding is not None and finding in self.known:
            self.known_hits[finding] += 1
            return
        self.stats["property_failure"] += 1
        if len(self.prop_failures) < 50:
            self.prop_failures.append({"case": case, "detail": detail, "classified_as": finding})

    def witness(self, finding_id: str, reproduced: bool):
        self.witness_reproduced[finding_id] = bool(reproduced)

    # ---- model execution
    def model(self, values: list) -> list:
        if self.driver is None:
            raise ModelUnavailable(self.model_log)
        if not values:
            return []
        outs = build.run_driver(self.driver, [S.dumps(v) for v in values])
        return [S.loads(o) for o in outs]

    def model_vm(self, values: list, tag: str = "x") -> list:
        module, fn = self.mod.MODEL
        return build.vm_compute_eval(module, fn, values, f"{self.prop_id}-{tag}")

    def cross_check_extraction(self, values: list, n: int = 60):
        """Thorough tier: re-evaluate a seeded sample inside Coq and compare with the extracted driver."""
        if not values or self.driver is None:
            return
        sample = values if len(values) <= n else self.rng.sample(values, n)
        a = self.model(sample)
        b = self.model_vm(sample, "xcheck")
        bad = [(v, x, y) for v, x, y in zip(sample, a, b) if x != y]
        self.stats["extraction_crosscheck_cases"] += len(sample)
        for v, x, y in bad[:3]:
            self.tie_failure("extraction", "vm_compute-vs-ocaml", {"ocaml": x, "coq": y}, v)


LOCK = VERIF / "harness" / "anchors.lock.json"


def source_fingerprint(repo: Path = None) -> dict:
    """sha256 of every file the models were written from / validated against: src/_griffe/**/*.py and docs/schema.json."""
    repo = Path(repo or REPO)
    files = sorted((repo / "src" / "_griffe").rglob("*.py")) + [repo / "docs" / "schema.json"]
    return {str(f.relative_to(repo)): hashlib.sha256(f.read_bytes()).hexdigest() for f in files if f.exists()}


def source_delta() -> dict:
    """Files of the tree under test that differ from the fingerprint recorded when the models, proofs and correspondence
    were last validated against /repo (harness/anchors.lock.json, rewritten by harness.tools.anchor_lock after every landed fix)."""
    if not LOCK.exists():
        return {"lock_head": None, "changed_files": ["<no fingerprint recorded>"]}
    lock = json.loads(LOCK.read_text())
    now = source_fingerprint()
    changed = sorted(f for f in set(lock["files"]) | set(now) if lock["files"].get(f) != now.get(f))
    return {"lock_head": lock.get("head"), "changed_files": changed}


def sanity_griffe() -> dict:
    import _griffe
    import griffe
    import _griffe.loader
    src = str(REPO / "src")
    for m in (griffe, _griffe, _griffe.loader):
        if not str(Path(m.__file__).resolve()).startswith(src):
            raise SystemExit(f"BROKEN: {m.__name__} imported from {m.__file__}, not from {src}")
    head = subprocess.run(["git", "-C", str(REPO), "rev-parse", "HEAD"], capture_output=True, text=True).stdout.strip()
    dirty = subprocess.run(["git", "-C", str(REPO), "status", "--porcelain"], capture_output=True, text=True).stdout.split("\n")
    return {"repo_head": head, "repo_dirty": [d for d in dirty if d][:20]}


def write_replay(ctx: Ctx, payload: dict) -> str:
    d = Path(os.environ.get("VERIF_REPLAY_DIR", VERIF / "replays"))   # a mirror run (bin/check) writes into the main directory
    d.mkdir(exist_ok=True)
    k = 0
    while (d / f"{ctx.prop_id}-{ctx.seed}-{k}.json").exists():
        k += 1
    p = d / f"{ctx.prop_id}-{ctx.seed}-{k}.json"
    p.write_text(json.dumps(payload, indent=1, default=str))
    for base in (VERIF, d.parent):
        try:
            return str(p.relative_to(base))
        except ValueError:
            pass
    return str(p)


def run_check(prop_id: str, tier: str, seed: int) -> int:
    mod = importlib.import_module(f"harness.props.{prop_id.lower()}")
    ctx = Ctx(prop_id, tier, seed, mod)
    info = sanity_griffe()
    delta = source_delta()
    if delta["changed_files"] and tier == "quick" and os.environ.get("VERIF_NO_DEEPEN") != "1":
        ctx.deepen = int(os.environ.get("VERIF_DEEPEN", "3"))
        print(f"[{prop_id}] source differs from the recorded fingerprint in {len(delta['changed_files'])} file(s) "
              f"({', '.join(delta['changed_files'][:4])}): exploration budgets x{ctx.deepen}", flush=True)
    info["source_fingerprint"] = {**delta, "changed_files": delta["changed_files"][:40], "deepened_x": ctx.deepen}
    obligations = 0
    discharged = 0
    assumption_report = []
    checker_cmds = []

    # (T) translators
    try:
        if hasattr(mod, "translate"):
            mod.translate(ctx)
    except TranslatorError as e:
        ctx.tie_failure("translator", getattr(mod, "TRANSLATOR_NAME", "translate"), str(e))
    except Exception as e:
        ctx.tie_failure("translator", getattr(mod, "TRANSLATOR_NAME", "translate"), "".join(traceback.format_exception_only(type(e), e)))

    # forbidden constructs
    bad = build.forbidden_scan()
    for b in bad:
        ctx.tie_failure("forbidden", b, "forbidden construct in the Coq development")

    # proofs
    targets = list(getattr(mod, "COQ_TARGETS", []))
    clean = (tier == "thorough" and os.environ.get("VERIF_NO_CLEAN") != "1")
    if clean:
        # rebuild only this property's files from scratch (other checks may share the tree concurrently)
        for t in targets + [f"Properties/{prop_id}.vo"]:
            for suf in ("", "k", "s"):
                q = build.COQ / (t + suf)
                if q.exists():
                    q.unlink()
    ok, out, errs = build.make_targets(targets) if targets else (True, "", [])
    checker_cmds.append("make -k -j16 " + " ".join(targets) + " (in coq/)")
    for e in errs:
        ctx.tie_failure("proof", f"{e['file']}:{e['name']}", e["error"])
    pr = build.compile_properties(prop_id)
    checker_cmds.append(pr["cmd"])
    obligations = len(pr["theorem_names"])
    if pr["ok"]:
        discharged = len(pr["theorems"])
    else:
        for e in pr["errors"]:
            ctx.tie_failure("proof", f"{e['file']}:{e['name']}", e["error"])
    allowed_axioms = set(getattr(mod, "ALLOWED_AXIOMS", []))
    for t in pr["theorems"]:
        assumption_report.append(f"{t['name']}: " + ("Closed under the global context" if t["closed"] else "Axioms: " + ", ".join(t["assumptions"])))
        for a in t["assumptions"]:
            if a not in allowed_axioms:
                ctx.tie_failure("proof", f"Properties/{prop_id}.v:{t['name']}", f"unexpected axiom {a}")
                discharged = max(0, discharged - 1)
    if tier == "thorough" and pr["ok"] and os.environ.get("VERIF_NO_COQCHK") != "1":
        cmd = ["timeout", "1500", "coqchk", "-silent", "-o"] + build.COQFLAGS + [f"Verif.Properties.{prop_id}"]
        p = subprocess.run(cmd, cwd=build.COQ, capture_output=True, text=True)
        checker_cmds.append(" ".join(cmd))
        ctx.notes.append("coqchk: " + " | ".join((p.stdout + p.stderr).strip().split("\n")[-12:]))
        if p.returncode != 0:
            ctx.tie_failure("proof", f"coqchk:Properties/{prop_id}", (p.stdout + p.stderr)[-600:])

    # model driver
    if getattr(mod, "MODEL", None):
        module, fn = mod.MODEL
        mt = [m for m in getattr(mod, "MODEL_TARGETS", [])]
        if mt:
            ok2, out2, errs2 = build.make_targets(mt)
            for e in errs2:
                ctx.tie_failure("model-build", f"{e['file']}:{e['name']}", e["error"])
        ctx.driver, ctx.model_log = build.build_model_driver(prop_id, module, fn)
        if ctx.driver is None:
            ctx.tie_failure("model-build", module, ctx.model_log)

    # (C)/(O) + direct property evaluation
    ctx.scratch.mkdir(parents=True, exist_ok=True)
    try:
        mod.explore(ctx)
    except ModelUnavailable:
        ctx.notes.append("model unavailable; explored implementation-vs-authority only")
        if hasattr(mod, "search"):
            mod.search(ctx)
    except Exception as e:
        ctx.tie_failure("harness", "explore", traceback.format_exc()[-1500:])
    # when a tie broke, widen the search for a concrete failing input
    if ctx.tie_failures and not ctx.prop_failures and hasattr(mod, "search"):
        try:
            mod.search(ctx)
        except Exception:
            ctx.notes.append("search raised: " + traceback.format_exc()[-600:])
    subprocess.run(["rm", "-rf", str(ctx.scratch)])

    # verdict
    rc = 0
    lines = []
    for fid, f in ctx.known.items():
        if ctx.witness_reproduced.get(fid) or ctx.known_hits.get(fid):
            lines.append(f"KNOWN-FINDING: property={prop_id} {fid} {f['what']}")
    violations = 0
    if ctx.prop_failures:
        rc = 1
        violations = ctx.stats["property_failure"]
        ctx.prop_failures.sort(key=lambda f: len(json.dumps(f["case"], default=str)))   # smallest failing input first
        first = ctx.prop_failures[0]
        path = write_replay(ctx, {"property": prop_id, "seed": seed, "tier": tier, "kind": "failing-input",
                                  "failing_input": first["case"], "detail": first["detail"], "classified_as": first["classified_as"],
                                  "more": ctx.prop_failures[1:10], "broken_ties": ctx.tie_failures[:10], **info})
        lines.append(f"VIOLATION property={prop_id} replay={path}")
    elif ctx.tie_failures:
        rc = 1
        violations = 1
        path = write_replay(ctx, {"property": prop_id, "seed": seed, "tier": tier, "kind": "tie-broken",
                                  "no_longer_checks": [f"{t['kind']}:{t['name']}" for t in ctx.tie_failures],
                                  "broken_ties": ctx.tie_failures[:20], **info})
        lines.append(f"VIOLATION property={prop_id} replay={path} no-failing-input-found")

    trusted = BASE_TRUSTED + (build.EXTRACTION_TRUSTED if getattr(mod, "MODEL", None) else []) + list(getattr(mod, "TRUSTED", []))
    evidence = {
        "property_id": prop_id, "tier": tier, "seed": seed, "level": "proof",
        "coverage": {
            "obligations": obligations, "discharged": discharged,
            "checker_cmd": " && ".join(checker_cmds), "trusted_base": trusted,
            "theorems": pr["theorem_names"], "assumption_report": assumption_report,
            "evaluations": ctx.evaluations, "distinct_nontrivial": len(ctx._nontrivial),
            "rule": getattr(mod, "RULE", ""), "samples": ctx.samples[:12], "exhaustive": ctx.exhaustive,
            "stats": dict(ctx.stats), "distribution": {k: dict(v.most_common(40)) for k, v in ctx.dist.items()},
            "known_findings_hit": dict(ctx.known_hits), "known_witness_reproduced": ctx.witness_reproduced,
            "tie_failures": [f"{t['kind']}:{t['name']}" for t in ctx.tie_failures][:20],
            "notes": ctx.notes, **info,
        },
        "assumptions": list(getattr(mod, "ASSUMPTIONS", [])),
        "wall_s": round(time.time() - ctx.t0, 2), "violations": violations,
    }
    evdir = Path(os.environ.get("VERIF_EVIDENCE_DIR", VERIF / "evidence"))   # seeded-change runs write elsewhere
    evdir.mkdir(parents=True, exist_ok=True)
    (evdir / f"{prop_id}.json").write_text(json.dumps(evidence, indent=1, default=str))
    for l in lines:
        print(l)
    print(f"[{prop_id}] tier={tier} seed={seed} obligations={obligations} discharged={discharged} evaluations={ctx.evaluations} "
          f"distinct_nontrivial={len(ctx._nontrivial)} tie_failures={len(ctx.tie_failures)} property_failures={len(ctx.prop_failures)} "
          f"wall={evidence['wall_s']}s rc={rc}")
    return rc


def main(argv=None):
    ap = argparse.ArgumentParser()
    ap.add_argument("prop")
    ap.add_argument("--tier", default=os.environ.get("VERIF_TIER", "quick"), choices=["quick", "thorough"])
    ap.add_argument("--seed", type=int, default=int(os.environ.get("VERIF_SEED", "20260930")))
    ap.add_argument("--replay")
    a = ap.parse_args(argv)
    if a.replay:
        mod = importlib.import_module(f"harness.props.{a.prop.lower()}")
        ctx = Ctx(a.prop, a.tier, a.seed, mod)
        sanity_griffe()
        if getattr(mod, "MODEL", None):
            ctx.driver, ctx.model_log = build.build_model_driver(a.prop, *mod.MODEL)
        data = json.loads(Path(a.replay).read_text())
        if hasattr(mod, "replay"):
            return mod.replay(ctx, data) or 0
        print(json.dumps(data, indent=1))
        return 0
    return run_check(a.prop, a.tier, a.seed)


if __name__ == "__main__":
    sys.exit(main())
