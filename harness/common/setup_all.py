"""setup_cmd: regenerate Gen/*.v from /repo, build every .vo, extract and link every model driver."""
import importlib
import pkgutil
import sys

from . import build, framework


def main():
    import harness.props as props
    mods = [importlib.import_module(f"harness.props.{m.name}") for m in pkgutil.iter_modules(props.__path__) if m.name.startswith("c") and m.name[1:].isdigit()]
    for m in mods:
        if hasattr(m, "translate"):
            try:
                m.translate(framework.Ctx(m.ID, "quick", 0, m))
            except Exception as e:  # reported by the check itself
                print(f"[setup] translator of {m.ID} failed: {e}")
    build.write_coqproject()
    ok, out, errs = build.make_targets([], timeout_s=3000)
    print(out[-2000:])
    for m in mods:
        if getattr(m, "MODEL", None):
            exe, log = build.build_model_driver(m.ID, *m.MODEL)
            print(f"[setup] driver {m.ID}: {exe} {log[:200]}")
    # a failing proof is reported by the property's own check, not by setup
    return 0


if __name__ == "__main__":
    sys.exit(main())
