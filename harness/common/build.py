"""Coq / OCaml build steps shared by every check.  All scratch output lives under /verif/build."""
from __future__ import annotations

import fcntl
import hashlib
import os
import re
import subprocess
import time
from contextlib import contextmanager
from pathlib import Path

VERIF = Path(__file__).resolve().parents[2]
COQ = VERIF / "coq"
BUILD = VERIF / "build"
COQ_DIRS = ["Lib", "Gen", "Model", "Proofs", "Properties"]
COQFLAGS = ["-Q", str(COQ), "Verif"]

FORBIDDEN = re.compile(
    r"\b(Admitted|admit|Axiom|Axioms|Parameter|Parameters|Conjecture|Conjectures|give_up)\b"
    r"|Unset\s+Guard|Unset\s+Positivity|Unset\s+Universe|bypass_check|Admit\s+Obligations|type-in-type|impredicative-set"
)


@contextmanager
def build_lock():
    BUILD.mkdir(exist_ok=True)
    with open(BUILD / ".lock", "w") as fh:
        fcntl.flock(fh, fcntl.LOCK_EX)
        try:
            yield
        finally:
            fcntl.flock(fh, fcntl.LOCK_UN)


def strip_comments(text: str) -> str:
    out = []
    depth = 0
    i = 0
    n = len(text)
    in_str = False
    while i < n:
        if depth == 0 and text[i] == '"':
            in_str = not in_str
            out.append(text[i])
            i += 1
            continue
        if not in_str and text.startswith("(*", i):
            depth += 1
            i += 2
            continue
        if not in_str and depth > 0 and text.startswith("*)", i):
            depth -= 1
            i += 2
            continue
        if depth == 0:
            out.append(text[i])
        elif text[i] == "\n":
            out.append("\n")
        i += 1
    return "".join(out)


def forbidden_scan() -> list[str]:
    """Return a list of 'file:line: token' for forbidden constructs anywhere in the development."""
    bad = []
    for d in COQ_DIRS:
        for f in sorted((COQ / d).glob("*.v")):
            code = strip_comments(f.read_text())
            # blank out string literals
            code_ns = re.sub(r'"[^"]*"', '""', code)
            depth = 0
            for ln, line in enumerate(code_ns.split("\n"), 1):
                m = FORBIDDEN.search(line)
                if m:
                    bad.append(f"{f.relative_to(VERIF)}:{ln}: {m.group(0)}")
                if re.match(r"\s*Section\b", line):
                    depth += 1
                if depth == 0 and re.match(r"\s*(Variable|Variables|Hypothesis|Hypotheses|Context)\b", line):
                    bad.append(f"{f.relative_to(VERIF)}:{ln}: assumption outside section")
                if re.match(r"\s*End\b", line) and depth > 0:
                    depth -= 1
    return bad


def write_coqproject() -> bool:
    files = []
    for d in COQ_DIRS:
        files += sorted(str(p.relative_to(COQ)) for p in (COQ / d).glob("*.v"))
    content = "-Q . Verif\n" + "\n".join(files) + "\n"
    cp = COQ / "_CoqProject"
    changed = not cp.exists() or cp.read_text() != content
    if changed:
        cp.write_text(content)
    if changed or not (COQ / "Makefile").exists():
        subprocess.run(["coq_makefile", "-f", "_CoqProject", "-o", "Makefile"], cwd=COQ, check=True,
                       capture_output=True)
    return changed


def _enclosing_name(path: Path, line: int) -> str:
    try:
        lines = path.read_text().split("\n")
    except OSError:
        return "?"
    for i in range(min(line, len(lines)) - 1, -1, -1):
        m = re.match(r"\s*(?:Local\s+|Global\s+|Program\s+)?(Lemma|Theorem|Corollary|Fact|Remark|Proposition|Definition|Fixpoint|Example|Instance)\s+([A-Za-z0-9_']+)", lines[i])
        if m:
            return m.group(2)
    return "?"


def parse_coq_errors(output: str) -> list[dict]:
    errs = []
    for m in re.finditer(r'File "([^"]+)", line (\d+), characters [^\n]*\n(Error:?[^\n]*(?:\n(?!File |make|COQC)[^\n]*){0,6})', output):
        f = Path(m.group(1))
        if not f.is_absolute():
            f = (COQ / f).resolve()
        errs.append({"file": str(f.relative_to(VERIF)) if str(f).startswith(str(VERIF)) else str(f),
                     "line": int(m.group(2)), "name": _enclosing_name(f, int(m.group(2))),
                     "error": m.group(3).strip()[:600]})
    return errs


def make_targets(targets: list[str], timeout_s: int = 1500, clean: bool = False) -> tuple[bool, str, list[dict]]:
    """make -k the given .vo targets (relative to coq/). Returns (ok, output, errors)."""
    with build_lock():
        write_coqproject()
        if clean:
            subprocess.run(["make", "clean"], cwd=COQ, capture_output=True, timeout=300)
            write_coqproject()
            subprocess.run(["coq_makefile", "-f", "_CoqProject", "-o", "Makefile"], cwd=COQ, check=True,
                           capture_output=True)
        try:
            p = subprocess.run(["timeout", str(timeout_s), "make", "-k", "-j16"] + targets, cwd=COQ,
                               capture_output=True, text=True)
            out = p.stdout + p.stderr
            ok = p.returncode == 0
        except Exception as e:  # pragma: no cover
            out, ok = repr(e), False
    errs = parse_coq_errors(out)
    if not ok and not errs:
        errs = [{"file": "?", "line": 0, "name": "?", "error": out[-800:]}]
    return ok, out, errs


def compile_properties(prop_id: str, timeout_s: int = 600) -> dict:
    """Compile coq/Properties/<id>.v directly, capturing Print Assumptions output.

    Returns {ok, theorems:[{name, assumptions:[...], closed:bool}], errors:[...], cmd}.
    """
    src = COQ / "Properties" / f"{prop_id}.v"
    text = strip_comments(src.read_text())
    theorem_names = re.findall(r"\b(?:Theorem|Corollary)\s+([A-Za-z0-9_']+)", text)
    printed = re.findall(r"Print\s+Assumptions\s+([A-Za-z0-9_'.]+)\s*\.", text)
    cmd = ["timeout", str(timeout_s), "coqc"] + COQFLAGS + [str(src)]
    with build_lock():
        p = subprocess.run(cmd, cwd=COQ, capture_output=True, text=True)
    out = p.stdout
    res = {"ok": p.returncode == 0, "cmd": " ".join(cmd), "theorem_names": theorem_names, "printed": printed,
           "errors": parse_coq_errors(p.stdout + p.stderr) if p.returncode != 0 else [], "theorems": []}
    if p.returncode != 0 and not res["errors"]:
        res["errors"] = [{"file": str(src.relative_to(VERIF)), "line": 0, "name": "?", "error": (p.stdout + p.stderr)[-800:]}]
    # split Print Assumptions blocks: each is either "Closed under the global context" or "Axioms:\n..."
    blocks = re.split(r"(?m)^(?=Closed under the global context|Axioms:)", out)
    blocks = [b for b in blocks if b.startswith("Closed under") or b.startswith("Axioms:")]
    for name, b in zip(printed, blocks):
        if b.startswith("Closed under"):
            res["theorems"].append({"name": name, "closed": True, "assumptions": []})
        else:
            axs = re.findall(r"(?m)^([A-Za-z0-9_'.]+)\s*:", b[len("Axioms:"):])
            res["theorems"].append({"name": name, "closed": False, "assumptions": axs})
    if res["ok"] and len(res["theorems"]) != len(printed):
        res["ok"] = False
        res["errors"].append({"file": str(src.relative_to(VERIF)), "line": 0, "name": "Print Assumptions",
                              "error": f"expected {len(printed)} assumption blocks, parsed {len(res['theorems'])}"})
    missing = [t for t in theorem_names if t not in printed]
    if missing:
        res["ok"] = False
        res["errors"].append({"file": str(src.relative_to(VERIF)), "line": 0, "name": ",".join(missing),
                              "error": "theorem without Print Assumptions"})
    return res


EXTRACT_TEMPLATE = """From Verif Require Import Lib.Sexp {module}.
From Coq Require Extraction ExtrOcamlBasic ExtrOcamlString.
Extraction Language OCaml.
Definition run := {run_fn}.
Extraction "model.ml" run.
"""

EXTRACTION_TRUSTED = [
    "extraction: Coq 8.16.1 Extraction plugin with exactly ExtrOcamlBasic (Extract Inductive bool=>bool, option=>option, "
    "unit=>unit, list=>list, prod=>(*), sumbool=>bool, sumor=>option; Extract Inlined Constant andb/orb/negb/fst/snd) and ExtrOcamlString "
    "(Extract Inductive ascii=>char with its char-code constants, string=>char list); Z/N/nat/positive stay extracted inductives",
    "ocaml: OCaml 4.13.1 ocamlfind ocamlopt; hand-written ocaml/driver.ml (s-expression reader/printer, 80 lines)",
]


def build_model_driver(prop_id: str, module: str, run_fn: str, timeout_s: int = 600) -> tuple[Path | None, str]:
    """Extract <module>.<run_fn> to OCaml and link it with ocaml/driver.ml. Returns (driver path | None, log)."""
    d = BUILD / "ocaml" / prop_id
    d.mkdir(parents=True, exist_ok=True)
    ext = d / "Extract.v"
    ext.write_text(EXTRACT_TEMPLATE.format(module=module, run_fn=run_fn))
    with build_lock():
        p = subprocess.run(["timeout", str(timeout_s), "coqc"] + COQFLAGS + ["Extract.v"], cwd=d,
                           capture_output=True, text=True)
        if p.returncode != 0 or not (d / "model.ml").exists():
            return None, "extraction failed: " + (p.stdout + p.stderr)[-1500:]
        drv_src = (VERIF / "ocaml" / "driver.ml").read_bytes()
        h = hashlib.sha256((d / "model.ml").read_bytes() + drv_src).hexdigest()
        stamp = d / "stamp"
        exe = d / "driver"
        if exe.exists() and stamp.exists() and stamp.read_text() == h:
            return exe, "cached"
        (d / "driver.ml").write_bytes(drv_src)
        p = subprocess.run(["ocamlfind", "ocamlopt", "-O3", "-w", "-a", "model.mli", "model.ml", "driver.ml", "-o", "driver"],
                           cwd=d, capture_output=True, text=True)
        if p.returncode != 0:
            p = subprocess.run(["ocamlfind", "ocamlopt", "-w", "-a", "model.mli", "model.ml", "driver.ml", "-o", "driver"],
                               cwd=d, capture_output=True, text=True)
        if p.returncode != 0:
            return None, "ocaml build failed: " + (p.stdout + p.stderr)[-1500:]
        stamp.write_text(h)
    return exe, "built"


def run_driver(exe: Path, lines: list[str], timeout_s: int = 1800) -> list[str]:
    env = dict(os.environ, OCAMLRUNPARAM="l=8G")
    p = subprocess.run(["bash", "-c", f"ulimit -s unlimited 2>/dev/null; exec {exe}"], input="\n".join(lines) + "\n",
                       capture_output=True, text=True, timeout=timeout_s, env=env)
    out = p.stdout.split("\n")
    if out and out[-1] == "":
        out.pop()
    if len(out) != len(lines):
        raise RuntimeError(f"model driver returned {len(out)} lines for {len(lines)} inputs (rc={p.returncode}): {p.stderr[-400:]}")
    return out


def vm_compute_eval(module: str, run_fn: str, values: list, tag: str, timeout_s: int = 900) -> list:
    """Evaluate run_fn on the given (python-encoded) sexp values inside Coq with vm_compute; returns parsed python values."""
    from . import sexp as S
    d = BUILD / "vm" / tag
    d.mkdir(parents=True, exist_ok=True)
    f = d / "cases.v"
    body = [f"From Verif Require Import Lib.Sexp {module}.",
            "From Coq Require Import List ZArith String Ascii.", "Import ListNotations.", "Open Scope string_scope.", "Open Scope Z_scope."]
    for k, v in enumerate(values):
        body.append(f"Definition c{k} : sexp := {S.to_coq(v)}.")
        body.append(f"Eval vm_compute in ({run_fn} c{k}).")
    f.write_text("\n".join(body) + "\n")
    p = subprocess.run(["timeout", str(timeout_s), "coqc"] + COQFLAGS + ["cases.v"], cwd=d, capture_output=True, text=True)
    if p.returncode != 0:
        raise RuntimeError("vm_compute evaluation failed: " + (p.stdout + p.stderr)[-800:])
    chunks = re.split(r"\n\s*: sexp\n", p.stdout)
    res = []
    for c in chunks:
        c = c.strip()
        if not c:
            continue
        if not c.startswith("="):
            raise RuntimeError("unexpected vm_compute output: " + c[:200])
        res.append(S.parse_coq(c[1:]))
    if len(res) != len(values):
        raise RuntimeError(f"vm_compute returned {len(res)} results for {len(values)} cases")
    return res
