"""(T) translator for C12, second table: every place where the docstring parsers touch `docstring.parent` (or compile an
annotation) and the exception classes caught around it.  Regenerates coq/Gen/C12_guards.v:

    guard_sites : list (site, exceptions the operation can raise, exception classes caught around it)

What an operation can raise is decided by its syntactic shape (rules below; this reading of Griffe's object model and of
CPython's compile() is the trusted part); what is caught is read off the enclosing `with suppress(...)` / `try ... except`.
Coq proves (by computation on the regenerated table) that every raised class is a subclass of a caught one.

Rules (R = raised):
  a. X.attr with X = docstring.parent        R AttributeError unless X is known not to be None (earlier operand of the same
                                             `and`, enclosing `if docstring.parent is not None`, handler of a try whose body
                                             already used X) AND attr exists on every object kind (UNIVERSAL)
     attr = relative_filepath                R also ValueError, BuiltinModuleError
  b. X.parameters[...]                       R KeyError
  c. X[...]    (member look-up)              R KeyError, ValueError, TypeError, AliasResolutionError, CyclicAliasError,
                                             and AttributeError for the attribute read off the member
  d. E.elements[...]                         R IndexError, AttributeError
  e. compile(...)                            R SyntaxError, ValueError, RecursionError, MemoryError
  f. safe_get_annotation(... parent=X)       R AttributeError, RecursionError
Fail closed: an exception class outside the table in a suppress/except clause, or a handler shape that is not understood.
"""
from __future__ import annotations

import ast
from pathlib import Path

from harness.common.framework import REPO, VERIF, TranslatorError

FILES = ["google", "numpy", "sphinx", "utils"]
EXC = ["AttributeError", "KeyError", "IndexError", "ValueError", "TypeError", "AliasResolutionError", "CyclicAliasError",
       "BuiltinModuleError", "SyntaxError", "RecursionError", "MemoryError", "LookupError", "RuntimeError", "Exception",
       "UnicodeEncodeError"]
UNIVERSAL = {"name", "parent", "labels", "is_function", "is_class", "is_attribute", "is_module", "is_alias", "kind", "path",
             "members", "docstring", "module"}


def _is_parent(n) -> bool:
    return (isinstance(n, ast.Attribute) and n.attr == "parent" and isinstance(n.value, ast.Name) and n.value.id == "docstring")


def _exc_names(node, where):
    if node is None:
        return ["Exception"]            # bare except
    items = node.elts if isinstance(node, ast.Tuple) else [node]
    out = []
    for it in items:
        if isinstance(it, ast.Name) and it.id in EXC:
            out.append(it.id)
        elif isinstance(it, ast.Name) and it.id == "BaseException":
            out.append("Exception")
        else:
            raise TranslatorError(f"{where}: exception class {ast.unparse(it)} is not in the model's table")
    return out


def _nonnull_test(test) -> bool:
    """`docstring.parent is not None` or `docstring.parent` (possibly inside an `and`)"""
    if isinstance(test, ast.BoolOp) and isinstance(test.op, ast.And):
        return any(_nonnull_test(v) for v in test.values)
    if _is_parent(test):
        return True
    return (isinstance(test, ast.Compare) and _is_parent(test.left) and len(test.ops) == 1 and isinstance(test.ops[0], ast.IsNot)
            and isinstance(test.comparators[0], ast.Constant) and test.comparators[0].value is None)


class _Scan(ast.NodeVisitor):
    def __init__(self, mod):
        self.mod = mod
        self.func = "<module>"
        self.caught: list[list[str]] = []
        self.nonnull = 0
        self.sites = []

    def site(self, node, what, raised):
        raised = sorted(set(raised), key=EXC.index)
        if raised:
            caught = sorted({c for frame in self.caught for c in frame}, key=EXC.index)
            self.sites.append((f"{self.mod}.{self.func}:{what}", raised, caught, node.lineno))

    # ---- scopes
    def visit_FunctionDef(self, node):
        old, self.func = self.func, node.name
        oc, self.caught = self.caught, []
        on, self.nonnull = self.nonnull, 0
        self.generic_visit(node)
        self.func, self.caught, self.nonnull = old, oc, on

    visit_AsyncFunctionDef = visit_FunctionDef

    def visit_With(self, node):
        frame = None
        for item in node.items:
            c = item.context_expr
            if isinstance(c, ast.Call) and isinstance(c.func, ast.Name) and c.func.id == "suppress":
                frame = (frame or []) + [n for a in c.args for n in _exc_names(a, f"docstrings/{self.mod}.py:{node.lineno}")]
            else:
                self.visit(c)
        if frame is not None:
            self.caught.append(frame)
        for st in node.body:
            self.visit(st)
        if frame is not None:
            self.caught.pop()

    def visit_Try(self, node):
        where = f"docstrings/{self.mod}.py:{node.lineno}"
        frame = [n for h in node.handlers for n in _exc_names(h.type, where)]
        self.caught.append(frame)
        for st in node.body:
            self.visit(st)
        self.caught.pop()
        uses_parent = any(_is_parent(n) for st in node.body for n in ast.walk(st))
        for h in node.handlers:
            names = _exc_names(h.type, where)
            known = uses_parent and not ({"AttributeError", "Exception"} & set(names))
            self.nonnull += known
            for st in h.body:
                self.visit(st)
            self.nonnull -= known
        for st in node.orelse + node.finalbody:
            self.visit(st)

    def visit_If(self, node):
        self.visit(node.test)
        known = _nonnull_test(node.test)
        self.nonnull += known
        for st in node.body:
            self.visit(st)
        self.nonnull -= known
        for st in node.orelse:
            self.visit(st)

    def visit_BoolOp(self, node):
        if isinstance(node.op, ast.And):
            added = 0
            for v in node.values:
                self.visit(v)
                if _nonnull_test(v):
                    self.nonnull += 1
                    added += 1
            self.nonnull -= added
        else:
            self.generic_visit(node)

    # ---- operations
    def visit_Attribute(self, node):
        if _is_parent(node.value) and isinstance(node.ctx, ast.Load):
            raised = []
            if not (self.nonnull and node.attr in UNIVERSAL):
                raised.append("AttributeError")
            if node.attr == "relative_filepath":
                raised += ["ValueError", "BuiltinModuleError"]
            self.site(node, f"parent.{node.attr}", raised)
        self.generic_visit(node)

    def visit_Subscript(self, node):
        v = node.value
        if isinstance(v, ast.Attribute) and v.attr == "parameters" and _is_parent(v.value):
            self.site(node, "parent.parameters[]", ["KeyError"])
        elif _is_parent(v):
            self.site(node, "parent[]", ["KeyError", "ValueError", "TypeError", "AliasResolutionError", "CyclicAliasError", "AttributeError"])
        elif isinstance(v, ast.Attribute) and v.attr == "elements":
            self.site(node, "elements[]", ["IndexError", "AttributeError"])
        self.generic_visit(node)

    def visit_Call(self, node):
        if isinstance(node.func, ast.Name) and node.func.id == "compile":
            self.site(node, "compile()", ["SyntaxError", "ValueError", "RecursionError", "MemoryError"])
        if isinstance(node.func, ast.Name) and node.func.id == "safe_get_annotation":
            self.site(node, "safe_get_annotation()", ["AttributeError", "RecursionError"])
        self.generic_visit(node)


def extract_sites():
    sites = []
    for mod in FILES:
        p = REPO / "src/_griffe/docstrings" / f"{mod}.py"
        sc = _Scan(mod)
        sc.visit(ast.parse(p.read_text()))
        sites += sc.sites
    if len(sites) < 10:
        raise TranslatorError(f"only {len(sites)} parent look-ups found in the docstring parsers: the scan no longer understands the code")
    return sites


def translate(ctx=None):
    sites = extract_sites()
    L = ["(* GENERATED by harness/translate/c12_guards.py from src/_griffe/docstrings/{google,numpy,sphinx,utils}.py - do not edit.",
         "   Every look-up on docstring.parent / annotation compilation: what it can raise, what is caught around it. *)",
         "From Coq Require Import List String.", "From Verif Require Import Model.C12_guards.", "Import ListNotations.",
         "Open Scope string_scope.", "Open Scope list_scope.", "",
         "Definition guard_sites : list (string * list exc * list exc) :="]
    rows = []
    for name, raised, caught, lineno in sites:
        rows.append(f'  ("{name}", [{"; ".join("E" + r for r in raised)}], [{"; ".join("E" + c for c in caught)}])')
    L.append("  [\n" + ";\n".join(rows) + "\n  ].")
    L.append("")
    out = VERIF / "coq" / "Gen" / "C12_guards.v"
    content = "\n".join(L)
    if not out.exists() or out.read_text() != content:
        out.write_text(content)
    return sites
