"""(T) translator for C05: regenerates coq/Gen/C05_ladder.v from /repo/src/_griffe/{mixins,loader}.py and agents/visitor.py.

Fail closed: any AST shape outside the whitelist raises TranslatorError.  Translated:
  mixins.ObjectAliasMixin.is_wildcard_exposed   the decision ladder (a sequence of `if <test>: return <expr>` closed by a `return`)
                                                -> gen_is_wildcard_exposed
  loader.GriffeLoader.expand_wildcards          the line-number rule `overwrite = (alias_lineno or 0) > (old_lineno or 0)` and the line
                                                an existing member is compared by -> gen_overwrite, gen_old_lineno_uses_alias_lineno
  agents/visitor.Visitor.visit_importfrom       the test that skips `from . import b` in a package __init__ -> gen_skip_bare_import
  agents/visitor.Visitor.visit_expr             the method names of `__all__.<method>(...)` that extend the exports -> gen_all_methods
Proofs/C05_ladder.v proves that the hand-written model (wildcard_exposed, apply_one's comparison, visit_stmt's skip) equals the
generated definitions for all inputs.
"""
from __future__ import annotations

import ast
from pathlib import Path

from harness.common.framework import REPO, VERIF, TranslatorError


def _u(node) -> str:
    return ast.unparse(node)


def _find_method(tree, cls, name):
    for node in ast.walk(tree):
        if isinstance(node, ast.ClassDef) and node.name == cls:
            for item in node.body:
                if isinstance(item, (ast.FunctionDef, ast.AsyncFunctionDef)) and item.name == name:
                    return item
    raise TranslatorError(f"{cls}.{name} not found")


def _body_without_docstring(fn):
    body = list(fn.body)
    if body and isinstance(body[0], ast.Expr) and isinstance(body[0].value, ast.Constant) and isinstance(body[0].value.value, str):
        body = body[1:]
    return body


# ---- mixins.is_wildcard_exposed -----------------------------------------------------------------------------------
ATOMS = {
    "self.runtime": "runtime", "self.parent": "has_parent", "self.parent.is_module": "parent_is_module",
    "self.is_alias": "is_alias", "self.is_module": "is_module", "self.is_imported": "is_imported",
    "self.parent.exports is not None": "(match exports with Some _ => true | None => false end)",
    "self.name in self.parent.exports": "(match exports with Some ex => in_exports name ex | None => false end)",
}


def _bool(node) -> str:
    src = _u(node)
    if src in ATOMS:
        return ATOMS[src]
    if isinstance(node, ast.BoolOp):
        op = " || " if isinstance(node.op, ast.Or) else " && "
        return "(" + op.join(_bool(v) for v in node.values) + ")"
    if isinstance(node, ast.UnaryOp) and isinstance(node.op, ast.Not):
        return "(negb " + _bool(node.operand) + ")"
    if isinstance(node, ast.Constant) and isinstance(node.value, bool):
        return "true" if node.value else "false"
    if (isinstance(node, ast.Call) and isinstance(node.func, ast.Attribute) and node.func.attr == "startswith"
            and _u(node.func.value) == "self.name" and len(node.args) == 1 and not node.keywords
            and isinstance(node.args[0], ast.Constant) and node.args[0].value == "_"):
        return "(starts_underscore name)"
    raise TranslatorError(f"is_wildcard_exposed: expression outside the whitelist: {src}")


def _ladder(fn) -> str:
    body = _body_without_docstring(fn)
    if not body or not isinstance(body[-1], ast.Return) or body[-1].value is None:
        raise TranslatorError("is_wildcard_exposed: the ladder must end in `return <expr>`")
    out = _bool(body[-1].value)
    for st in reversed(body[:-1]):
        if not (isinstance(st, ast.If) and not st.orelse and len(st.body) == 1 and isinstance(st.body[0], ast.Return) and st.body[0].value is not None):
            raise TranslatorError(f"is_wildcard_exposed: statement outside the whitelist: {_u(st)[:80]}")
        out = f"if {_bool(st.test)} then {_bool(st.body[0].value)}\n  else {out}"
    return out


# ---- loader.expand_wildcards: the line rule -------------------------------------------------------------------------
def _line_rule(fn):
    overwrite = None
    old_lineno = None
    for node in ast.walk(fn):
        if isinstance(node, ast.Assign) and len(node.targets) == 1 and isinstance(node.targets[0], ast.Name):
            if node.targets[0].id == "overwrite" and not (isinstance(node.value, ast.Constant) and node.value.value is False):
                if overwrite is not None:
                    raise TranslatorError("expand_wildcards: several assignments to `overwrite`")
                overwrite = node.value
            if node.targets[0].id == "old_lineno":
                if old_lineno is not None:
                    raise TranslatorError("expand_wildcards: several assignments to `old_lineno`")
                old_lineno = node.value
    if overwrite is None or old_lineno is None:
        raise TranslatorError("expand_wildcards: `overwrite` / `old_lineno` assignment not found")
    if _u(old_lineno) != "old_member.alias_lineno if old_member.is_alias else old_member.lineno":
        raise TranslatorError(f"expand_wildcards: old_lineno = {_u(old_lineno)}")
    if not (isinstance(overwrite, ast.Compare) and len(overwrite.ops) == 1 and len(overwrite.comparators) == 1):
        raise TranslatorError(f"expand_wildcards: overwrite = {_u(overwrite)}")
    left, right = _u(overwrite.left), _u(overwrite.comparators[0])
    if left != "alias_lineno or 0" or right != "old_lineno or 0":
        raise TranslatorError(f"expand_wildcards: overwrite compares {left} with {right}")
    ops = {ast.Gt: "Nat.ltb old new", ast.GtE: "Nat.leb old new", ast.Lt: "Nat.ltb new old", ast.LtE: "Nat.leb new old"}
    for k, v in ops.items():
        if isinstance(overwrite.ops[0], k):
            return v
    raise TranslatorError(f"expand_wildcards: comparison operator {_u(overwrite)}")


# ---- visitor.visit_importfrom: the skipped bare relative import -----------------------------------------------------
SKIP_ATOMS = {"node.module": "has_module", "name.asname": "has_asname", "self.current.module.is_init_module": "is_init"}


def _skip_bool(node) -> str:
    src = _u(node)
    if src in SKIP_ATOMS:
        return SKIP_ATOMS[src]
    if isinstance(node, ast.BoolOp):
        op = " || " if isinstance(node.op, ast.Or) else " && "
        return "(" + op.join(_skip_bool(v) for v in node.values) + ")"
    if isinstance(node, ast.UnaryOp) and isinstance(node.op, ast.Not):
        return "(negb " + _skip_bool(node.operand) + ")"
    if (isinstance(node, ast.Compare) and len(node.ops) == 1 and _u(node.left) == "node.level"
            and isinstance(node.comparators[0], ast.Constant) and isinstance(node.comparators[0].value, int) and 0 <= node.comparators[0].value < 10):
        k = node.comparators[0].value
        op = node.ops[0]
        if isinstance(op, ast.Eq):
            return f"(Nat.eqb level {k})"
        if isinstance(op, ast.Gt):
            return f"(Nat.ltb {k} level)"
        if isinstance(op, ast.GtE):
            return f"(Nat.leb {k} level)"
    raise TranslatorError(f"visit_importfrom: expression outside the whitelist: {src}")


def _skip_test(fn):
    loops = [st for st in _body_without_docstring(fn) if isinstance(st, ast.For)]
    if len(loops) != 1 or _u(loops[0].target) != "name" or _u(loops[0].iter) != "node.names":
        raise TranslatorError("visit_importfrom: expected one loop `for name in node.names`")
    first = loops[0].body[0]
    if not (isinstance(first, ast.If) and not first.orelse and len(first.body) == 1 and isinstance(first.body[0], ast.Continue)):
        raise TranslatorError("visit_importfrom: the loop must start with `if <test>: continue`")
    return _skip_bool(first.test)


# ---- visitor.visit_expr: __all__.extend / __all__.append ------------------------------------------------------------
def _all_methods(fn):
    found = None
    for node in ast.walk(fn):
        if (isinstance(node, ast.Compare) and len(node.ops) == 1 and isinstance(node.ops[0], ast.In) and _u(node.left) == "call.func.attr"
                and isinstance(node.comparators[0], (ast.Set, ast.Tuple, ast.List))):
            vals = [e.value for e in node.comparators[0].elts if isinstance(e, ast.Constant) and isinstance(e.value, str)]
            if len(vals) != len(node.comparators[0].elts):
                raise TranslatorError("visit_expr: non-literal method name")
            if found is not None:
                raise TranslatorError("visit_expr: several method-name tests")
            found = sorted(vals)
    if found is None:
        raise TranslatorError("visit_expr: `call.func.attr in {...}` not found")
    if any(not v.isidentifier() for v in found):
        raise TranslatorError("visit_expr: method name is not an identifier")
    return found


def translate(ctx=None):
    src = Path(REPO) / "src" / "_griffe"
    mixins = ast.parse((src / "mixins.py").read_text())
    loader = ast.parse((src / "loader.py").read_text())
    visitor = ast.parse((src / "agents" / "visitor.py").read_text())
    ladder = _ladder(_find_method(mixins, "ObjectAliasMixin", "is_wildcard_exposed"))
    rule = _line_rule(_find_method(loader, "GriffeLoader", "expand_wildcards"))
    skip = _skip_test(_find_method(visitor, "Visitor", "visit_importfrom"))
    methods = _all_methods(_find_method(visitor, "Visitor", "visit_expr"))
    text = f'''(* GENERATED by harness/translate/c05_ladder.py from src/_griffe/mixins.py, loader.py, agents/visitor.py -- do not edit. *)
From Coq Require Import List String Bool Arith.
From Verif Require Import Lib.Sexp Model.C05_imports.
Import ListNotations.
Open Scope string_scope.

(* mixins.ObjectAliasMixin.is_wildcard_exposed *)
Definition gen_is_wildcard_exposed (runtime has_parent parent_is_module : bool) (exports : option (list item)) (name : string)
  (is_alias is_module is_imported : bool) : bool :=
  {ladder}.

(* loader.GriffeLoader.expand_wildcards: overwrite = (alias_lineno or 0) > (old_lineno or 0) *)
Definition gen_overwrite (old new : nat) : bool := {rule}.

(* agents/visitor.Visitor.visit_importfrom: the statement is skipped *)
Definition gen_skip_bare_import (has_module : bool) (level : nat) (has_asname is_init : bool) : bool :=
  {skip}.

(* agents/visitor.Visitor.visit_expr: __all__.<method>(...) extends the exports *)
Definition gen_all_methods : list string := [{"; ".join('"' + m + '"' for m in methods)}].
'''
    out = Path(VERIF) / "coq" / "Gen" / "C05_ladder.v"
    if not out.exists() or out.read_text() != text:
        out.write_text(text)
    return text
