"""(T) translator for C09, fourth table: how a docstring reaches a parser while the full dump is produced.
Regenerates coq/Gen/C09_parse.v from /repo/src/_griffe/docstrings/parsers.py (+ google.py / numpy.py / sphinx.py for the
signatures) and enumerations.Parser:

* the signature of `parse` (positional parameters, keyword-only parameters, whether it has **options);
* the `parsers` table: Parser member value -> signature of the function it names;
* the signature of `infer_docstring_style`, and which keywords `parse_auto` consumes before it calls `parse` again;
* the shape of `parse` itself: a falsy parser returns one text section, whatever the options; anything else is
  `parsers[Parser(parser)](docstring, **options)` -- a subscript of the table (KeyError/ValueError for an unknown style),
  not a lookup with a fallback.

Fail closed (TranslatorError) on any other shape.
"""
from __future__ import annotations

import ast
from pathlib import Path

from harness.common.framework import REPO, VERIF, TranslatorError
from harness.translate.c09_exprs import enum_members
from harness.translate.c09_schema import coq_list, coq_string

FILES = {"parsers": "src/_griffe/docstrings/parsers.py", "google": "src/_griffe/docstrings/google.py",
         "numpy": "src/_griffe/docstrings/numpy.py", "sphinx": "src/_griffe/docstrings/sphinx.py"}


def _parse(rel: str):
    try:
        return ast.parse((REPO / rel).read_text())
    except (OSError, SyntaxError) as e:
        raise TranslatorError(f"cannot read {rel}: {e}") from e


def _functions(tree):
    return {n.name: n for n in tree.body if isinstance(n, ast.FunctionDef)}


def signature(fn: ast.FunctionDef, where: str):
    a = fn.args
    if a.vararg is not None:
        raise TranslatorError(f"{where}: *args in a parser entry point is outside the modelled call shape")
    return ([x.arg for x in a.posonlyargs + a.args], [x.arg for x in a.kwonlyargs], a.kwarg is not None)


def coq_sig(sig) -> str:
    pos, kw, var = sig
    return f"(mkFsig {coq_list(coq_string(x) for x in pos)} {coq_list(coq_string(x) for x in kw)} {'true' if var else 'false'})"


def tables():
    trees = {k: _parse(v) for k, v in FILES.items()}
    members = enum_members(_parse("src/_griffe/enumerations.py"), "Parser")
    if not members:
        raise TranslatorError("enumerations.py: Parser has no members")
    defs = {}
    for k in ("google", "numpy", "sphinx", "parsers"):
        defs.update(_functions(trees[k]))
    pf = _functions(trees["parsers"])
    for need in ("parse", "parse_auto", "infer_docstring_style"):
        if need not in pf:
            raise TranslatorError(f"parsers.py: {need} not found")
    # the table
    table = None
    for node in trees["parsers"].body:
        target = node.targets[0] if isinstance(node, ast.Assign) and len(node.targets) == 1 else getattr(node, "target", None)
        if isinstance(target, ast.Name) and target.id == "parsers" and isinstance(getattr(node, "value", None), ast.Dict):
            table = []
            for k, v in zip(node.value.keys, node.value.values):
                if not (isinstance(k, ast.Attribute) and isinstance(k.value, ast.Name) and k.value.id == "Parser" and k.attr in members):
                    raise TranslatorError(f"parsers.py: unexpected key {ast.unparse(k)} in the parsers table")
                if not (isinstance(v, ast.Name) and v.id in defs):
                    raise TranslatorError(f"parsers.py: parser {ast.unparse(v)} of the table is not a known function")
                table.append((members[k.attr], signature(defs[v.id], v.id)))
    if not table:
        raise TranslatorError("parsers.py: the `parsers` table was not found")
    # the shape of parse()
    parse = pf["parse"]
    body = [st for st in parse.body if not (isinstance(st, ast.Expr) and isinstance(st.value, ast.Constant))]
    ok = len(body) == 2 and isinstance(body[0], ast.If) and ast.unparse(body[0].test) == "parser" and not body[0].orelse
    if ok:
        ret = body[0].body[-1]
        call = ret.value if isinstance(ret, ast.Return) else None
        ok = (isinstance(call, ast.Call) and isinstance(call.func, ast.Subscript) and ast.unparse(call.func.value) == "parsers"
              and [ast.unparse(x) for x in call.args] == ["docstring"] and len(call.keywords) == 1 and call.keywords[0].arg is None
              and ast.unparse(call.keywords[0].value) == "options")
        conv = [st for st in body[0].body[:-1]]
        ok = ok and all("Parser(parser)" in ast.unparse(st) for st in conv)
    if ok:
        last = body[1]
        ok = (isinstance(last, ast.Return) and isinstance(last.value, ast.List) and len(last.value.elts) == 1
              and isinstance(last.value.elts[0], ast.Call) and ast.unparse(last.value.elts[0].func) == "DocstringSectionText"
              and not last.value.elts[0].keywords)
    if not ok:
        raise TranslatorError("parsers.py: parse() no longer has the shape `if parser: return parsers[Parser(parser)](docstring, **options)` / "
                              "`return [DocstringSectionText(docstring.value)]`")
    # parse_auto: infer(docstring, <explicit keywords>, **options) then parse(docstring, style, **options)
    auto = pf["parse_auto"]
    consumed, again = None, False
    for node in ast.walk(auto):
        if isinstance(node, ast.Call) and ast.unparse(node.func) == "infer_docstring_style":
            consumed = [k.arg for k in node.keywords if k.arg is not None]
            if not any(k.arg is None and ast.unparse(k.value) == "options" for k in node.keywords):
                raise TranslatorError("parsers.py: parse_auto no longer forwards **options to infer_docstring_style")
        if isinstance(node, ast.Call) and ast.unparse(node.func) == "parse":
            again = ([ast.unparse(x) for x in node.args] == ["docstring", "style"] and len(node.keywords) == 1
                     and node.keywords[0].arg is None and ast.unparse(node.keywords[0].value) == "options")
    auto_sig = signature(auto, "parse_auto")
    if consumed is None or not again or sorted(consumed) != sorted(auto_sig[1]):
        raise TranslatorError("parsers.py: parse_auto no longer is `infer_docstring_style(docstring, <its keywords>, **options)` then `parse(docstring, style, **options)`")
    return (signature(parse, "parse"), table, signature(pf["infer_docstring_style"], "infer_docstring_style"), list(members.values()))


def translate(ctx=None) -> Path:
    parse_sig, table, infer_sig, members = tables()
    rows = [f"  ({coq_string(style)}, {coq_sig(sig)})" for style, sig in table]
    out = ["(* GENERATED by harness/translate/c09_parse.py from /repo/src/_griffe/docstrings/parsers.py (+ the parsers' signatures) -- do not edit *)",
           "From Coq Require Import List String.", "Import ListNotations.", "Open Scope string_scope.", "Open Scope list_scope.", "",
           "(* a Python signature as far as keyword binding looks at it: positional parameters, keyword-only parameters, has **kwargs *)",
           "Record fsig := mkFsig { fs_positional : list string; fs_kwonly : list string; fs_varkw : bool }.", "",
           f"Definition parse_sig : fsig := {coq_sig(parse_sig)}.",
           f"Definition infer_sig : fsig := {coq_sig(infer_sig)}.", "",
           "(* the `parsers` table: value of the Parser member -> signature of the function *)",
           "Definition parser_table : list (string * fsig) :=", "[" + ";\n".join(rows).lstrip() + "].", "",
           "(* values of enumerations.Parser *)",
           f"Definition parser_enum : list string := {coq_list(coq_string(x) for x in members)}.", ""]
    p = VERIF / "coq/Gen/C09_parse.v"
    text = "\n".join(out)
    if not p.exists() or p.read_text() != text:
        p.write_text(text)
    return p


if __name__ == "__main__":
    print(translate().read_text())
