"""(T) translator for C20: regenerates coq/Gen/C20_syspath.v from <tree>/src/_griffe/importer.py.

Translated: the context manager `sys_path(*paths)` that dynamic_import wraps every import in.
  `if not paths: yield; return`                                   (checked, fail closed)
  `old_path = sys.path` ... `try: yield / finally: sys.path = old_path`   (checked, fail closed)
  `sys.path = <expr>` (and the local names it is built from)      -> Definition sys_path_law (paths old : list nat) : list nat
The expression language understood (anything else raises TranslatorError):
  [str(p) for p in paths] | [p for p in paths] | list(paths)      -> paths
  old_path | sys.path | list(old_path) | old_path[:] / .copy()    -> old
  a + b | [*a, *b]                                                -> a ++ b
  [p for p in a if p not in b]                                    -> filter (fun p => negb (mem p b)) a
  [p for p in a if p in b]                                        -> filter (fun p => mem p b) a
  a local name assigned once before                                -> its translation
dynamic_import: `with sys_path(*(import_paths or ())):` around the import loop (checked, fail closed).
loader.GriffeLoader.load: the fallback `dynamic_import(top_module_name, self.finder.search_paths)` (checked);
loader.load_git: `search_paths = [worktree / path for path in search_paths or ["."]]` (checked).
"""
from __future__ import annotations

import ast

from harness.common.framework import REPO, VERIF, TranslatorError

SRC = "src/_griffe/importer.py"


def _fn(tree, name):
    for n in ast.walk(tree):
        if isinstance(n, ast.FunctionDef) and n.name == name:
            return n
    raise TranslatorError(f"C20: {name} not found")


def _is_sys_path(e):
    return isinstance(e, ast.Attribute) and e.attr == "path" and isinstance(e.value, ast.Name) and e.value.id == "sys"


def _expr(e, env, var=None):
    """python expression -> Coq term over `paths` and `old`."""
    s = ast.unparse(e)
    if isinstance(e, ast.Name):
        if e.id == "paths":
            return "paths"
        if e.id in env:
            return env[e.id]
        raise TranslatorError(f"C20: sys_path: unknown name {e.id!r} in {s!r}")
    if _is_sys_path(e):
        return "old"
    if isinstance(e, ast.Call) and isinstance(e.func, ast.Name) and e.func.id in ("list", "tuple") and len(e.args) == 1 and not e.keywords:
        return _expr(e.args[0], env)
    if isinstance(e, ast.Call) and isinstance(e.func, ast.Attribute) and e.func.attr == "copy" and not e.args:
        return _expr(e.func.value, env)
    if isinstance(e, ast.Subscript) and isinstance(e.slice, ast.Slice) and e.slice.lower is None and e.slice.upper is None and e.slice.step is None:
        return _expr(e.value, env)
    if isinstance(e, ast.BinOp) and isinstance(e.op, ast.Add):
        return f"({_expr(e.left, env)} ++ {_expr(e.right, env)})"
    if isinstance(e, ast.List) and e.elts and all(isinstance(x, ast.Starred) for x in e.elts):
        return "(" + " ++ ".join(_expr(x.value, env) for x in e.elts) + ")"
    if isinstance(e, ast.ListComp) and len(e.generators) == 1 and isinstance(e.generators[0].target, ast.Name) and not e.generators[0].is_async:
        g = e.generators[0]
        v = g.target.id
        elt = e.elt
        if isinstance(elt, ast.Call) and isinstance(elt.func, ast.Name) and elt.func.id == "str" and len(elt.args) == 1:
            elt = elt.args[0]           # str(path): the identity on directory identities
        if not (isinstance(elt, ast.Name) and elt.id == v):
            raise TranslatorError(f"C20: sys_path: comprehension element not understood: {s!r}")
        src = _expr(g.iter, env)
        for cond in g.ifs:
            if isinstance(cond, ast.Compare) and len(cond.ops) == 1 and isinstance(cond.left, ast.Name) and cond.left.id == v \
                    and isinstance(cond.ops[0], (ast.In, ast.NotIn)):
                other = _expr(cond.comparators[0], env)
                test = f"mem p {other}" if isinstance(cond.ops[0], ast.In) else f"negb (mem p {other})"
                src = f"(filter (fun p => {test}) {src})"
            else:
                raise TranslatorError(f"C20: sys_path: comprehension condition not understood: {s!r}")
        return src
    raise TranslatorError(f"C20: sys_path: expression not understood: {s!r}")


def translate(ctx=None):
    tree = ast.parse((REPO / SRC).read_text())
    fn = _fn(tree, "sys_path")
    if not (fn.args.vararg and fn.args.vararg.arg == "paths" and not fn.args.args and not fn.args.kwonlyargs):
        raise TranslatorError("C20: sys_path no longer has the signature (*paths)")
    body = [s for s in fn.body if not (isinstance(s, ast.Expr) and isinstance(s.value, ast.Constant))]
    # 1. `if not paths: yield; return`
    g = body[0]
    ok = (isinstance(g, ast.If) and ast.unparse(g.test) == "not paths" and not g.orelse and len(g.body) == 2
          and isinstance(g.body[0], ast.Expr) and isinstance(g.body[0].value, ast.Yield) and isinstance(g.body[1], ast.Return) and g.body[1].value is None)
    if not ok:
        raise TranslatorError("C20: sys_path: the `if not paths: yield; return` guard has changed")
    env, law, saved, rest = {}, None, None, body[1:]
    i = 0
    while i < len(rest) and isinstance(rest[i], ast.Assign) and len(rest[i].targets) == 1:
        tgt, val = rest[i].targets[0], rest[i].value
        if isinstance(tgt, ast.Name) and _is_sys_path(val) and saved is None and law is None:
            saved = tgt.id
            env[saved] = "old"
        elif isinstance(tgt, ast.Name) and tgt.id not in env and tgt.id != "paths":
            env[tgt.id] = _expr(val, env)
        elif _is_sys_path(tgt) and law is None:
            if saved is None:
                raise TranslatorError("C20: sys_path: sys.path is overwritten before it has been saved")
            law = _expr(val, env)
        else:
            raise TranslatorError(f"C20: sys_path: statement not understood: {ast.unparse(rest[i])!r}")
        i += 1
    if law is None or i != len(rest) - 1:
        raise TranslatorError("C20: sys_path: expected `old = sys.path; ...; sys.path = <expr>; try: yield finally: sys.path = old`")
    t = rest[i]
    ok = (isinstance(t, ast.Try) and not t.handlers and not t.orelse and len(t.body) == 1 and isinstance(t.body[0], ast.Expr)
          and isinstance(t.body[0].value, ast.Yield) and len(t.finalbody) == 1 and ast.unparse(t.finalbody[0]) == f"sys.path = {saved}")
    if not ok:
        raise TranslatorError("C20: sys_path: the `try: yield / finally: sys.path = <saved>` block has changed")
    # 2. dynamic_import wraps its whole import loop in sys_path(*(import_paths or ()))
    di = _fn(tree, "dynamic_import")
    withs = [n for n in ast.walk(di) if isinstance(n, ast.With)]
    if not any(ast.unparse(w.items[0].context_expr) == "sys_path(*(import_paths or ()))" and
               any(isinstance(c, ast.Call) and ast.unparse(c.func) == "import_module" for c in ast.walk(w)) for w in withs):
        raise TranslatorError("C20: dynamic_import no longer imports inside `with sys_path(*(import_paths or ()))`")
    imports_outside = [c for c in ast.walk(di) if isinstance(c, ast.Call) and ast.unparse(c.func) in ("import_module", "__import__")
                       and not any(c in list(ast.walk(w)) for w in withs)]
    if imports_outside:
        raise TranslatorError("C20: dynamic_import imports outside the sys_path block")
    # 3. the two call sites in loader.py
    ltree = ast.parse((REPO / "src/_griffe/loader.py").read_text())
    load = _fn(ltree, "load")      # first one found by ast.walk is GriffeLoader.load or the module-level load: check all
    calls = [ast.unparse(c) for c in ast.walk(ltree) if isinstance(c, ast.Call) and ast.unparse(c.func) == "dynamic_import"]
    if calls != ["dynamic_import(top_module_name, self.finder.search_paths)"]:
        raise TranslatorError(f"C20: loader.py calls dynamic_import otherwise than the fallback of GriffeLoader.load: {calls}")
    lg = _fn(ltree, "load_git")
    if not any(isinstance(n, ast.Assign) and ast.unparse(n) == "search_paths = [worktree / path for path in search_paths or ['.']]" for n in ast.walk(lg)):
        raise TranslatorError("C20: load_git no longer restricts the search paths to the worktree (`search_paths or ['.']`)")
    del load
    text = f"""(* GENERATED by harness/translate/c20_syspath.py from {SRC} -- do not edit.
   The list that importer.sys_path (called with the paths) assigns to sys.path while its block runs, from the given paths and the
   previous value of sys.path (directories as identities; str(path) is the identity). *)
From Coq Require Import List Arith Bool.
Import ListNotations.

Definition mem (p : nat) (l : list nat) : bool := existsb (Nat.eqb p) l.

Definition sys_path_law (paths old : list nat) : list nat := {law}.
"""
    p = VERIF / "coq/Gen/C20_syspath.v"
    if not p.exists() or p.read_text() != text:
        p.write_text(text)
    return {"sys_path_law": law}
