"""(T) translator for C16: regenerates coq/Gen/C16_shape.v from /repo/src/_griffe/{mixins,models}.py.

Fail closed: any AST shape outside the whitelist raises TranslatorError.  Translated / validated:
  mixins._get_parts                      str -> empty check (ValueError) -> split("."); else list(key); empty -> ValueError   (shape only)
  mixins.GetMembersMixin.get_member      one dictionary access per name, recursion through `self.members[..].get_member(..)`; __getitem__
                                         likewise through all_members                                                    (shape only)
  mixins.SetMembersMixin.set_member      single-name branch: the order of
                                           (A) `self.members[name] = value` + `value._modules_collection = self` / `value.parent = self`
                                           (R) `for alias in <replaced>.aliases.values()` (or `list(...)` of it)`: with suppress(AliasResolutionError,
                                               CyclicAliasError): alias.target = value`, guarded by "bound and not an alias"
                                         -> attach_before_retarget : bool   (the model's set_value takes the order from here)
                                         the stub-merge probe in front of both; the recursive multi-name branch    (shape only)
  mixins.SetMembersMixin.__setitem__     assignment + attachment, no re-targeting loop; recursion through `self.members[..][..] = value`
  mixins.DelMembersMixin.del_member      `del self.members[name]`; recursion through `self.members[..].del_member(..)`
  mixins.DelMembersMixin.__delitem__     `del self.members[name]`, on KeyError `del self.inherited_members[name]`
  models.Alias.parent (setter)           `self._parent = value; self._update_target_aliases()`
  models.Alias._update_target_aliases    `with suppress(AttributeError, AliasResolutionError, CyclicAliasError):
                                              self._target.aliases[self.path] = self`
  models.Alias.target (setter)           `if value is self or value.path == self.path: raise CyclicAliasError(..)`;
                                         `self._target = value`; `self.target_path = value.path`;
                                         `if self.parent is not None: self._target.aliases[self.path] = self`
"""
from __future__ import annotations

import ast

from harness.common.framework import REPO, VERIF, TranslatorError

OUT = VERIF / "coq" / "Gen" / "C16_shape.v"


def _fail(msg):
    raise TranslatorError("C16 shape: " + msg)


def _src(node) -> str:
    return ast.unparse(node)


def _func(tree, cls, name, setter=False):
    for n in ast.walk(tree):
        if isinstance(n, ast.ClassDef) and n.name == cls:
            for f in n.body:
                if isinstance(f, ast.FunctionDef) and f.name == name:
                    is_setter = any(isinstance(d, ast.Attribute) and d.attr == "setter" for d in f.decorator_list)
                    if is_setter == setter:
                        return f
    _fail(f"{cls}.{name}{' (setter)' if setter else ''} not found")


def _body(f):
    """Function body without the docstring."""
    b = list(f.body)
    if b and isinstance(b[0], ast.Expr) and isinstance(b[0].value, ast.Constant) and isinstance(b[0].value.value, str):
        b = b[1:]
    return b


def _suppressed(w) -> list[str]:
    if not (isinstance(w, ast.With) and len(w.items) == 1):
        _fail("expected a single-item with statement, got " + _src(w)[:80])
    c = w.items[0].context_expr
    if not (isinstance(c, ast.Call) and _src(c.func) == "suppress"):
        _fail("expected `with suppress(...)`, got " + _src(c)[:80])
    return sorted(_src(a) for a in c.args)


def _single_branch(f):
    """`parts = _get_parts(key)` then `if len(parts) == 1: <single> else: <multi>`: returns (single, multi)."""
    b = _body(f)
    if len(b) != 2 or _src(b[0]) != "parts = _get_parts(key)":
        _fail(f"{f.name}: expected `parts = _get_parts(key)` followed by one if statement")
    i = b[1]
    if not (isinstance(i, ast.If) and _src(i.test) == "len(parts) == 1" and i.orelse):
        _fail(f"{f.name}: expected `if len(parts) == 1: ... else: ...`")
    return i.body, i.orelse


ATTACH = ("if self.is_collection:\n    value._modules_collection = self\nelse:\n    value.parent = self")


def _check_attach(stmts, where):
    """`self.members[name] = value` immediately followed by the attachment if/else; returns the index of the assignment."""
    for j, s in enumerate(stmts):
        if _src(s) == "self.members[name] = value":
            if j + 1 >= len(stmts) or _src(stmts[j + 1]) != ATTACH:
                _fail(f"{where}: `self.members[name] = value` is not followed by the attachment of value")
            return j
    _fail(f"{where}: `self.members[name] = value` not found at the top level of the single-name branch")


def _find_loops(stmts):
    out = []
    for s in stmts:
        for n in ast.walk(s):
            if isinstance(n, (ast.For, ast.While)):
                out.append(n)
    return out


def _set_member(tree) -> bool:
    f = _func(tree, "SetMembersMixin", "set_member")
    single, multi = _single_branch(f)
    if [_src(s) for s in multi] != ["self.members[parts[0]].set_member(parts[1:], value)"]:
        _fail("set_member: unexpected multi-name branch")
    if _src(single[0]) != "name = parts[0]":
        _fail("set_member: single-name branch does not start with `name = parts[0]`")
    a = _check_attach(single, "set_member")
    loops = _find_loops(single)
    if len(loops) != 1 or not isinstance(loops[0], ast.For):
        _fail(f"set_member: expected exactly one for loop (the re-targeting loop), found {len(loops)}")
    loop = loops[0]
    it = loop.iter
    if isinstance(it, ast.Call) and _src(it.func) == "list" and len(it.args) == 1 and not it.keywords:
        it = it.args[0]          # a snapshot of the dictionary's values: same sequence
    if not (_src(loop.target) == "alias" and isinstance(it, ast.Call) and _src(it).endswith(".aliases.values()")
            and isinstance(it.func, ast.Attribute) and isinstance(it.func.value, ast.Attribute)
            and isinstance(it.func.value.value, ast.Name) and not loop.orelse and len(loop.body) == 1):
        _fail("set_member: unexpected re-targeting loop header: " + _src(loop)[:100])
    var = it.func.value.value.id
    if _suppressed(loop.body[0]) != ["AliasResolutionError", "CyclicAliasError"]:
        _fail("set_member: the re-targeting loop suppresses " + str(_suppressed(loop.body[0])))
    if [_src(s) for s in loop.body[0].body] != ["alias.target = value"]:
        _fail("set_member: unexpected body of the re-targeting loop")
    # the guard: `if name in self.members:` -> `member = self.members[name]` -> `if not member.is_alias:`
    top = [s for s in single if isinstance(s, ast.If) and _src(s.test) == "name in self.members"]
    if len(top) != 1 or top[0].orelse or _src(top[0].body[0]) != "member = self.members[name]":
        _fail("set_member: expected `if name in self.members: member = self.members[name] ...`")
    inner = [s for s in top[0].body[1:]]
    if len(inner) != 1 or not (isinstance(inner[0], ast.If) and _src(inner[0].test) == "not member.is_alias" and not inner[0].orelse):
        _fail("set_member: expected `if not member.is_alias:` as the only statement after `member = ...`")
    guarded = inner[0].body
    # the stub-merge probe comes first inside the guard
    probe = [s for s in guarded if isinstance(s, ast.If) and _src(s.test) == "member.is_module and (not (member.is_namespace_package or member.is_namespace_subpackage))"]
    if len(probe) != 1 or len(probe[0].body) != 1 or _suppressed(probe[0].body[0]) != ["AliasResolutionError", "BuiltinModuleError", "CyclicAliasError"]:
        _fail("set_member: stub-merge probe not recognised")
    pb = probe[0].body[0].body
    if not (len(pb) == 1 and isinstance(pb[0], ast.If) and _src(pb[0].test) == "value.is_module and value.filepath != member.filepath"
            and len(pb[0].body) == 1 and _suppressed(pb[0].body[0]) == ["ValueError"]
            and [_src(s) for s in pb[0].body[0].body] == ["value = merge_stubs(member, value)"]):
        _fail("set_member: stub-merge probe body not recognised")
    if var == "member":
        # the loop sits inside the guard, before the assignment
        if loop not in guarded or top[0].lineno > single[a].lineno:
            _fail("set_member: re-targeting loop over `member` is not inside the guard in front of the assignment")
        rest = [s for s in guarded if s is not probe[0] and s is not loop]
        if rest:
            _fail("set_member: unexpected statements inside the guard: " + _src(rest[0])[:80])
        return False
    # the loop runs after the attachment, over a variable that the guard binds to the replaced member
    binds = [s for s in guarded if _src(s) == f"{var} = member"]
    inits = [s for s in single if _src(s) == f"{var} = None" and s.lineno < top[0].lineno]
    after = [s for s in single[a + 2:] if isinstance(s, ast.If) and _src(s.test) == f"{var} is not None" and not s.orelse]
    if len(binds) != 1 or len(inits) != 1 or len(after) != 1 or after[0].body != [loop]:
        _fail(f"set_member: re-targeting loop over `{var}` is not `if {var} is not None:` after the attachment")
    rest = [s for s in guarded if s is not probe[0] and s is not binds[0]]
    if rest:
        _fail("set_member: unexpected statements inside the guard: " + _src(rest[0])[:80])
    return True


def _setitem(tree):
    f = _func(tree, "SetMembersMixin", "__setitem__")
    single, multi = _single_branch(f)
    if [_src(s) for s in multi] != ["self.members[parts[0]][parts[1:]] = value"]:
        _fail("__setitem__: unexpected multi-name branch")
    if [_src(s) for s in single] != ["name = parts[0]", "self.members[name] = value", ATTACH]:
        _fail("__setitem__: unexpected single-name branch")


def _del(tree):
    f = _func(tree, "DelMembersMixin", "del_member")
    single, multi = _single_branch(f)
    if [_src(s) for s in single] != ["name = parts[0]", "del self.members[name]"] or \
            [_src(s) for s in multi] != ["self.members[parts[0]].del_member(parts[1:])"]:
        _fail("del_member: unexpected body")
    f = _func(tree, "DelMembersMixin", "__delitem__")
    single, multi = _single_branch(f)
    want = "try:\n    del self.members[name]\nexcept KeyError:\n    del self.inherited_members[name]"
    if [_src(s) for s in single] != ["name = parts[0]", want] or [_src(s) for s in multi] != ["del self.all_members[parts[0]][parts[1:]]"]:
        _fail("__delitem__: unexpected body")


def _get(tree):
    f = _func(tree, "GetMembersMixin", "get_member")
    if [_src(s) for s in _body(f)] != ["parts = _get_parts(key)", "if len(parts) == 1:\n    return self.members[parts[0]]",
                                       "return self.members[parts[0]].get_member(parts[1:])"]:
        _fail("get_member: unexpected body")
    f = _func(tree, "GetMembersMixin", "__getitem__")
    if [_src(s) for s in _body(f)] != ["parts = _get_parts(key)", "if len(parts) == 1:\n    return self.all_members[parts[0]]",
                                       "return self.all_members[parts[0]][parts[1:]]"]:
        _fail("__getitem__: unexpected body")


def _get_parts(tree):
    for n in tree.body:
        if isinstance(n, ast.FunctionDef) and n.name == "_get_parts":
            got = [_src(s) for s in _body(n)]
            want = ["if isinstance(key, str):\n    if not key:\n        raise ValueError('Empty strings are not supported')\n    parts = key.split('.')\nelse:\n    parts = list(key)",
                    "if not parts:\n    raise ValueError('Empty tuples are not supported')", "return parts"]
            if got != want:
                _fail("_get_parts: unexpected body")
            return
    _fail("_get_parts not found")


def _alias(tree):
    f = _func(tree, "Alias", "parent", setter=True)
    if [_src(s) for s in _body(f)] != ["self._parent = value", "self._update_target_aliases()"]:
        _fail("Alias.parent setter: unexpected body: " + " | ".join(_src(s)[:60] for s in _body(f)))
    f = _func(tree, "Alias", "_update_target_aliases")
    b = _body(f)
    if len(b) != 1 or _suppressed(b[0]) != ["AliasResolutionError", "AttributeError", "CyclicAliasError"] or \
            [_src(s) for s in b[0].body] != ["self._target.aliases[self.path] = self"]:
        _fail("Alias._update_target_aliases: unexpected body")
    f = _func(tree, "Alias", "target", setter=True)
    got = [_src(s) for s in _body(f)]
    want = ["if value is self or value.path == self.path:\n    raise CyclicAliasError([self.target_path])", "self._target = value",
            "self.target_path = value.path", "if self.parent is not None:\n    self._target.aliases[self.path] = self"]
    if got != want:
        _fail("Alias.target setter: unexpected body")


def translate(ctx=None) -> bool:
    mix = ast.parse((REPO / "src" / "_griffe" / "mixins.py").read_text())
    mod = ast.parse((REPO / "src" / "_griffe" / "models.py").read_text())
    _get_parts(mix)
    _get(mix)
    attach_first = _set_member(mix)
    _setitem(mix)
    _del(mix)
    _alias(mod)
    text = ("(* GENERATED by harness/translate/c16_shape.py from /repo/src/_griffe/{mixins,models}.py -- do not edit *)\n"
            "(* SetMembersMixin.set_member, single-name branch: is the new member attached (members[name] = value; value.parent = self)\n"
            "   BEFORE the aliases of the replaced member are re-targeted?  The Alias.target setter reads value.path. *)\n"
            f"Definition attach_before_retarget : bool := {'true' if attach_first else 'false'}.\n")
    if not OUT.exists() or OUT.read_text() != text:
        OUT.write_text(text)
    if ctx is not None:
        ctx.observe("translated", f"attach_before_retarget={attach_first}")
    return attach_first
