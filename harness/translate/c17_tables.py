"""(T) translator for C17: regenerates coq/Gen/C17_tables.v from /repo/src/_griffe.

Fail closed: any AST shape outside the whitelist raises TranslatorError.
Translated:
  agents/nodes/runtime.py   ObjectNode.kind (the ordered `if self.is_X: return ObjectKind.Y` ladder), every `is_*` predicate it
                            uses (inlined down to primitive runtime observations), `_cyclic_relationships`, `exclude_specials`
  enumerations.py           ObjectKind members/values (ties `inspect_{kind}` dispatch names)
  agents/inspector.py       for each ObjectKind value the `inspect_<value>` handler and the label set it passes; `_kind_map`
  agents/visitor.py         `builtin_decorators`, `stdlib_decorators`; visit_classdef: the bases are the written ones, in order
  agents/inspector.py       inspect_class: which attribute the bases are read from, whether `object` is skipped, the path format
  mixins.py                 ObjectAliasMixin.is_wildcard_exposed as a boolean function of seven atoms
  agents/nodes/runtime.py   ObjectNode.children: a cached list of the picked members (CList) or a generator (CGenerator)
"""
from __future__ import annotations

import ast
from pathlib import Path

from harness.common.framework import REPO, VERIF, TranslatorError

OKIND = {"MODULE": "KModule", "CLASS": "KClass", "STATICMETHOD": "KStaticmethod", "CLASSMETHOD": "KClassmethod",
         "METHOD_DESCRIPTOR": "KMethodDescriptor", "METHOD": "KMethod", "BUILTIN_METHOD": "KBuiltinMethod",
         "COROUTINE": "KCoroutine", "FUNCTION": "KFunction", "BUILTIN_FUNCTION": "KBuiltinFunction",
         "CACHED_PROPERTY": "KCachedProperty", "GETSET_DESCRIPTOR": "KGetsetDescriptor", "PROPERTY": "KProperty",
         "ATTRIBUTE": "KAttribute"}
INSPECT_PRIMS = {"ismodule": "PIsModule", "isclass": "PIsClass", "isbuiltin": "PIsBuiltin", "iscoroutinefunction": "PIsCoroutine",
                 "ismethoddescriptor": "PIsMethodDescriptor", "isfunction": "PIsFunction"}
ISINSTANCE_PRIMS = {"GetSetDescriptorType": "PIsGetSet", "property": "PIsProperty"}
PKINDS = {"POSITIONAL_ONLY": "PO", "POSITIONAL_OR_KEYWORD": "PK", "VAR_POSITIONAL": "VP", "KEYWORD_ONLY": "KO", "VAR_KEYWORD": "VK"}
GKINDS = {"positional_only": "PO", "positional_or_keyword": "PK", "var_positional": "VP", "keyword_only": "KO", "var_keyword": "VK"}

DICT_GUARD = ["if self.parent is None:\n    return False",
              "try:\n    self_from_parent = self.parent.obj.__dict__.get(self.name, None)\nexcept AttributeError:\n    return False"]


def _is_self_attr(node, attr=None):
    return (isinstance(node, ast.Attribute) and isinstance(node.value, ast.Name) and node.value.id == "self"
            and (attr is None or node.attr == attr))


def _strip_doc(body):
    if body and isinstance(body[0], ast.Expr) and isinstance(body[0].value, ast.Constant) and isinstance(body[0].value.value, str):
        return body[1:]
    return body


class _Runtime:
    def __init__(self, cls: ast.ClassDef):
        self.methods = {n.name: n for n in cls.body if isinstance(n, ast.FunctionDef)}
        self.cls = cls

    def pred(self, name: str, stack: tuple) -> str:
        if name in stack:
            raise TranslatorError(f"cyclic predicate reference: {' -> '.join(stack + (name,))}")
        if len(stack) > 6:
            raise TranslatorError("predicate nesting too deep")
        if name == "is_cached_property":
            # instance attribute set in __init__ from isinstance(obj, cached_property); must not be a method
            if name in self.methods:
                raise TranslatorError("is_cached_property became a method")
            init = [ast.unparse(x) for x in self.methods["__init__"].body]
            if "if isinstance(obj, cached_property):\n    is_cached_property = True\n    obj = obj.func\nelse:\n    is_cached_property = False" not in init \
                    or "self.is_cached_property: bool = is_cached_property" not in init:
                raise TranslatorError("ObjectNode.__init__ no longer sets is_cached_property the known way")
            return "BP PCached"
        fn = self.methods.get(name)
        if fn is None:
            raise TranslatorError(f"predicate {name} not found on ObjectNode")
        decos = [ast.unparse(d) for d in fn.decorator_list]
        if decos not in (["cached_property"], ["property"]):
            raise TranslatorError(f"{name}: unexpected decorators {decos}")
        body = _strip_doc(fn.body)
        local = {}
        if name in ("is_staticmethod", "is_classmethod"):
            if len(body) != 3 or [ast.unparse(s) for s in body[:2]] != DICT_GUARD or not isinstance(body[2], ast.Return):
                raise TranslatorError(f"{name}: body shape changed:\n{ast.unparse(fn)}")
            local["self_from_parent"] = "dict"
            return self.bx(body[2].value, local, stack + (name,))
        while len(body) > 1:
            s = body[0]
            if (isinstance(s, ast.Assign) and len(s.targets) == 1 and isinstance(s.targets[0], ast.Name)
                    and ast.unparse(s.value) == "type(lambda: None)"):
                local[s.targets[0].id] = "FunctionType"
                body = body[1:]
            else:
                raise TranslatorError(f"{name}: unexpected statement {ast.unparse(s)}")
        if len(body) != 1 or not isinstance(body[0], ast.Return) or body[0].value is None:
            raise TranslatorError(f"{name}: expected a single return")
        return self.bx(body[0].value, local, stack + (name,))

    def bx(self, node, local, stack) -> str:
        if isinstance(node, ast.BoolOp):
            ctor = "BAnd" if isinstance(node.op, ast.And) else "BOr"
            parts = [self.bx(v, local, stack) for v in node.values]
            out = parts[-1]
            for p in reversed(parts[:-1]):
                out = f"{ctor} ({p}) ({out})"
            return out
        if isinstance(node, ast.UnaryOp) and isinstance(node.op, ast.Not):
            return f"BNot ({self.bx(node.operand, local, stack)})"
        if isinstance(node, ast.Constant) and node.value is True:
            return "BTrue"
        if isinstance(node, ast.Constant) and node.value is False:
            return "BFalse"
        if _is_self_attr(node):
            return self.pred(node.attr, stack)
        if isinstance(node, ast.Call) and not node.keywords:
            f = node.func
            if isinstance(f, ast.Attribute) and isinstance(f.value, ast.Name) and f.value.id == "inspect" and f.attr in INSPECT_PRIMS \
                    and len(node.args) == 1 and _is_self_attr(node.args[0], "obj"):
                return f"BP {INSPECT_PRIMS[f.attr]}"
            if isinstance(f, ast.Name) and f.id == "callable" and len(node.args) == 1 and _is_self_attr(node.args[0], "obj"):
                return "BP PCallable"
            if isinstance(f, ast.Name) and f.id == "isinstance" and len(node.args) == 2 and isinstance(node.args[1], ast.Name):
                subj, ty = node.args[0], node.args[1].id
                if _is_self_attr(subj, "obj"):
                    if ty in ISINSTANCE_PRIMS:
                        return f"BP {ISINSTANCE_PRIMS[ty]}"
                    if local.get(ty) == "FunctionType":
                        return "BP PIsFuncType"
                if isinstance(subj, ast.Name) and local.get(subj.id) == "dict" and ty in ("staticmethod", "classmethod"):
                    return "BP PDictStatic" if ty == "staticmethod" else "BP PDictClassm"
            if isinstance(f, ast.Name) and f.id == "bool" and len(node.args) == 1 and ast.unparse(node.args[0]) == "self.parent and self.parent.is_class":
                # the parent's own is_class must still be the plain inspect.isclass test
                if self.pred("is_class", stack) != "BP PIsClass":
                    raise TranslatorError("is_class is no longer inspect.isclass(self.obj)")
                return "BP PParentIsClass"
        raise TranslatorError(f"boolean expression outside the whitelist: {ast.unparse(node)}")

    def ladder(self):
        fn = self.methods.get("kind")
        if fn is None or [ast.unparse(d) for d in fn.decorator_list] != ["property"]:
            raise TranslatorError("ObjectNode.kind property not found")
        body = _strip_doc(fn.body)
        rungs = []
        for s in body[:-1]:
            if not (isinstance(s, ast.If) and not s.orelse and len(s.body) == 1 and isinstance(s.body[0], ast.Return) and _is_self_attr(s.test)):
                raise TranslatorError(f"kind ladder: unexpected rung {ast.unparse(s)}")
            rungs.append((s.test.attr, self.pred(s.test.attr, ("kind",)), _okind(s.body[0].value)))
        last = body[-1]
        if not isinstance(last, ast.Return):
            raise TranslatorError("kind ladder: no final return")
        return rungs, _okind(last.value)


def _okind(node) -> str:
    if isinstance(node, ast.Attribute) and isinstance(node.value, ast.Name) and node.value.id == "ObjectKind" and node.attr in OKIND:
        return OKIND[node.attr]
    raise TranslatorError(f"not an ObjectKind member: {ast.unparse(node)}")


def _find_assign(tree_body, name):
    for n in tree_body:
        if isinstance(n, ast.Assign) and len(n.targets) == 1 and isinstance(n.targets[0], ast.Name) and n.targets[0].id == name:
            return n.value
        if isinstance(n, ast.AnnAssign) and isinstance(n.target, ast.Name) and n.target.id == name and n.value is not None:
            return n.value
    raise TranslatorError(f"assignment to {name} not found")


def _str(node) -> str:
    if isinstance(node, ast.Constant) and isinstance(node.value, str) and '"' not in node.value and node.value.isascii():
        return node.value
    raise TranslatorError(f"not a plain string: {ast.unparse(node)}")


def _coq_strs(xs) -> str:
    return "[" + "; ".join(f'"{x}"' for x in xs) + "]"


def _class(tree, name) -> ast.ClassDef:
    for n in tree.body:
        if isinstance(n, ast.ClassDef) and n.name == name:
            return n
    raise TranslatorError(f"class {name} not found")


EXPOSED_ATOMS = {"self.runtime": "runtime", "self.parent": "true", "self.parent.is_module": "true",
                 "self.parent.exports is not None": "has_all", "self.name in self.parent.exports": "in_all",
                 "self.name.startswith('_')": "private", "self.is_alias": "is_alias", "self.is_module": "is_module",
                 "self.is_imported": "is_imported"}


def _exposed_bx(node) -> str:
    text = ast.unparse(node)
    if text in EXPOSED_ATOMS:
        return EXPOSED_ATOMS[text]
    if isinstance(node, ast.BoolOp):
        op = " || " if isinstance(node.op, ast.Or) else " && "
        return "(" + op.join(_exposed_bx(v) for v in node.values) + ")"
    if isinstance(node, ast.UnaryOp) and isinstance(node.op, ast.Not):
        return f"negb {_exposed_bx(node.operand)}"
    if isinstance(node, ast.Constant) and node.value in (True, False):
        return "true" if node.value else "false"
    raise TranslatorError(f"is_wildcard_exposed: expression outside the whitelist: {text}")


def wildcard_exposed(src: Path) -> str:
    """ObjectAliasMixin.is_wildcard_exposed: `if C: return E` ... `return E` -> nested if-then-else over the atoms
    (the member is a member of a module: self.parent and self.parent.is_module are true)."""
    cls = _class(ast.parse((src / "mixins.py").read_text()), "ObjectAliasMixin")
    fn = [n for n in cls.body if isinstance(n, ast.FunctionDef) and n.name == "is_wildcard_exposed"]
    if len(fn) != 1 or [ast.unparse(d) for d in fn[0].decorator_list] != ["property"]:
        raise TranslatorError("ObjectAliasMixin.is_wildcard_exposed property not found")
    body = _strip_doc(fn[0].body)
    if not body or not isinstance(body[-1], ast.Return) or body[-1].value is None:
        raise TranslatorError("is_wildcard_exposed: no final return")
    out = _exposed_bx(body[-1].value)
    for st in reversed(body[:-1]):
        if not (isinstance(st, ast.If) and not st.orelse and len(st.body) == 1 and isinstance(st.body[0], ast.Return) and st.body[0].value is not None):
            raise TranslatorError(f"is_wildcard_exposed: unexpected statement {ast.unparse(st)}")
        out = f"if {_exposed_bx(st.test)} then {_exposed_bx(st.body[0].value)} else\n    {out}"
    return out


def class_bases(ins_meths, vis_tree) -> dict:
    """Inspector.inspect_class: `bases = []; for base in node.obj.<attr>: [if base is object: continue]; bases.append(f"{base.__module__}.{base.__qualname__}")`;
    Visitor.visit_classdef: `bases = [safe_get_base_class(base, parent=self.current) for base in node.bases]`."""
    m = ins_meths.get("inspect_class")
    if m is None:
        raise TranslatorError("Inspector.inspect_class not found")
    loops = [n for n in m.body if isinstance(n, ast.For) and ast.unparse(n.target) == "base"]
    assigns = [ast.unparse(n) for n in m.body if isinstance(n, ast.Assign) and ast.unparse(n.targets[0]) == "bases"]
    if len(loops) != 1 or assigns != ["bases = []"] or loops[0].orelse:
        raise TranslatorError("inspect_class: the bases loop changed shape")
    loop = loops[0]
    it = loop.iter
    if not (isinstance(it, ast.Attribute) and ast.unparse(it.value) == "node.obj"):
        raise TranslatorError(f"inspect_class: bases are read from {ast.unparse(it)}, not from an attribute of node.obj")
    if it.attr != "__bases__":
        raise TranslatorError(f"inspect_class: bases are read from node.obj.{it.attr}; the model knows __bases__ only")
    stmts = [ast.unparse(x) for x in loop.body]
    fmt = "bases.append(f'{base.__module__}.{base.__qualname__}')"
    if stmts == ["if base is object:\n    continue", fmt]:
        skips = True
    elif stmts == [fmt]:
        skips = False
    else:
        raise TranslatorError(f"inspect_class: unexpected loop body {stmts}")
    kw = [k for n in ast.walk(m) if isinstance(n, ast.Call) and ast.unparse(n.func) == "Class" for k in n.keywords if k.arg == "bases"]
    if len(kw) != 1 or ast.unparse(kw[0].value) != "bases":
        raise TranslatorError("inspect_class: Class(... bases=bases ...) changed")
    vcls = _class(vis_tree, "Visitor")
    vm = [n for n in vcls.body if isinstance(n, ast.FunctionDef) and n.name == "visit_classdef"]
    if len(vm) != 1:
        raise TranslatorError("Visitor.visit_classdef not found")
    vb = [ast.unparse(n) for n in vm[0].body if isinstance(n, ast.Assign) and ast.unparse(n.targets[0]) == "bases"]
    if vb != ["bases = [safe_get_base_class(base, parent=self.current) for base in node.bases]"]:
        raise TranslatorError(f"visit_classdef: the bases are no longer the written ones in order: {vb}")
    return {"skips_object": skips}


CHILDREN_LIST = ["children = []",
                 "for name, member in inspect.getmembers(self.obj):\n    if self._pick_member(name, member):\n        children.append(ObjectNode(member, name, parent=self))",
                 "return children"]
CHILDREN_GEN = ["for name, member in inspect.getmembers(self.obj):\n    if self._pick_member(name, member):\n        yield ObjectNode(member, name, parent=self)"]


def children_impl(node_cls: ast.ClassDef) -> str:
    """ObjectNode.children: the value that functools.cached_property stores -- a list built from inspect.getmembers filtered by
    _pick_member, or (refused by the theorem, not by the translator) a generator over the same members."""
    fn = [n for n in node_cls.body if isinstance(n, ast.FunctionDef) and n.name == "children"]
    if len(fn) != 1 or [ast.unparse(d) for d in fn[0].decorator_list] != ["cached_property"]:
        raise TranslatorError("ObjectNode.children is no longer a cached_property")
    body = [ast.unparse(x) for x in _strip_doc(fn[0].body)]
    if body == CHILDREN_LIST:
        return "CList"
    if body == CHILDREN_GEN:
        return "CGenerator"
    raise TranslatorError(f"ObjectNode.children: body outside the whitelist: {body}")


def tables() -> dict:
    src = REPO / "src/_griffe"
    rt = ast.parse((src / "agents/nodes/runtime.py").read_text())
    node_cls = _class(rt, "ObjectNode")
    R = _Runtime(node_cls)
    rungs, default = R.ladder()

    cyc = _find_assign(rt.body, "_cyclic_relationships")
    if not isinstance(cyc, ast.Set) or not all(isinstance(e, ast.Tuple) and len(e.elts) == 2 for e in cyc.elts):
        raise TranslatorError("_cyclic_relationships shape")
    cyclic = [(_str(e.elts[0]), _str(e.elts[1])) for e in cyc.elts]
    excl = _find_assign(node_cls.body, "exclude_specials")
    if not isinstance(excl, ast.Set):
        raise TranslatorError("exclude_specials shape")
    exclude = sorted(_str(e) for e in excl.elts)

    # ObjectKind values
    en = _class(ast.parse((src / "enumerations.py").read_text()), "ObjectKind")
    values = {}
    for n in en.body:
        if isinstance(n, ast.Assign) and len(n.targets) == 1 and isinstance(n.targets[0], ast.Name):
            values[n.targets[0].id] = _str(n.value)
    if set(values) != set(OKIND):
        raise TranslatorError(f"ObjectKind members changed: {sorted(set(values) ^ set(OKIND))}")
    strm = [n for n in en.body if isinstance(n, ast.FunctionDef) and n.name == "__str__"]
    if len(strm) != 1 or [ast.unparse(x) for x in _strip_doc(strm[0].body)] != ["return self.value"]:
        raise TranslatorError("ObjectKind.__str__ no longer returns the value (inspect_{kind} dispatch)")

    # inspector handlers
    ins_tree = ast.parse((src / "agents/inspector.py").read_text())
    ins = _class(ins_tree, "Inspector")
    meths = {n.name: n for n in ins.body if isinstance(n, ast.FunctionDef)}
    if [ast.unparse(x) for x in _strip_doc(meths["inspect"].body)] != ["getattr(self, f'inspect_{node.kind}', self.generic_inspect)(node)"]:
        raise TranslatorError("Inspector.inspect dispatch changed")
    handlers = []
    for member, value in values.items():
        m = meths.get(f"inspect_{value}")
        if m is None:
            raise TranslatorError(f"no Inspector.inspect_{value}: kind {member} would fall to generic_inspect")
        if value == "module":
            handlers.append((OKIND[member], "HModule"))
            continue
        if value == "class":
            handlers.append((OKIND[member], "HClass"))
            continue
        body = _strip_doc(m.body)
        ok = (len(body) == 1 and isinstance(body[0], ast.Expr) and isinstance(body[0].value, ast.Call)
              and _is_self_attr(body[0].value.func) and not body[0].value.keywords
              and body[0].value.args and isinstance(body[0].value.args[0], ast.Name) and body[0].value.args[0].id == "node")
        if not ok:
            raise TranslatorError(f"inspect_{value}: unexpected body {ast.unparse(m)}")
        call = body[0].value
        if call.func.attr == "handle_attribute" and len(call.args) == 1:
            handlers.append((OKIND[member], "HAttr"))
        elif call.func.attr == "handle_function" and len(call.args) == 1:
            handlers.append((OKIND[member], "HFunc []"))
        elif call.func.attr == "handle_function" and len(call.args) == 2 and isinstance(call.args[1], ast.Set):
            handlers.append((OKIND[member], f"HFunc {_coq_strs(sorted(_str(e) for e in call.args[1].elts))}"))
        else:
            raise TranslatorError(f"inspect_{value}: unexpected call {ast.unparse(call)}")

    km = _find_assign(ins_tree.body, "_kind_map")
    if not isinstance(km, ast.Dict):
        raise TranslatorError("_kind_map shape")
    kind_map = {}
    for k, v in zip(km.keys, km.values):
        if not (isinstance(k, ast.Attribute) and ast.unparse(k.value) == "SignatureParameter" and k.attr in PKINDS
                and isinstance(v, ast.Attribute) and ast.unparse(v.value) == "ParameterKind" and v.attr in GKINDS):
            raise TranslatorError(f"_kind_map entry {ast.unparse(k)}: {ast.unparse(v)}")
        kind_map[PKINDS[k.attr]] = GKINDS[v.attr]
    if set(kind_map) != set(PKINDS.values()):
        raise TranslatorError("_kind_map does not cover the five inspect kinds")

    vis = ast.parse((src / "agents/visitor.py").read_text())
    bd = _find_assign(vis.body, "builtin_decorators")
    sd = _find_assign(vis.body, "stdlib_decorators")
    if not isinstance(bd, ast.Dict) or not isinstance(sd, ast.Dict) or not all(isinstance(v, ast.Set) for v in sd.values):
        raise TranslatorError("decorator tables shape")
    builtin = [(_str(k), [_str(v)]) for k, v in zip(bd.keys, bd.values)]
    stdlib = [(_str(k), sorted(_str(e) for e in v.elts)) for k, v in zip(sd.keys, sd.values)]
    return {"rungs": rungs, "default": default, "cyclic": cyclic, "exclude": exclude, "values": values, "handlers": handlers,
            "kind_map": kind_map, "builtin": builtin, "stdlib": stdlib, "bases": class_bases(meths, vis), "exposed": wildcard_exposed(src),
            "children": children_impl(node_cls)}


def translate(ctx=None) -> Path:
    t = tables()
    out = ["(* GENERATED by harness/translate/c17_tables.py from /repo/src/_griffe (agents/nodes/runtime.py, enumerations.py,",
           "   agents/inspector.py, agents/visitor.py) -- do not edit *)",
           "From Coq Require Import List String Bool.", "From Verif Require Import Model.C02_kinds Model.C02_params Model.C17_base.",
           "Import ListNotations.", "Open Scope string_scope.", "Open Scope list_scope.", "",
           "(* ObjectNode.kind: ordered rungs, each predicate inlined down to primitive observations *)",
           "Definition kind_ladder : list (bexp * okind) :="]
    out.append("")
    out[-1] = "  [" + "\n   ".join(f"({e}, {k}){';' if i < len(t['rungs']) - 1 else ''}  (* {name} *)" for i, (name, e, k) in enumerate(t["rungs"])) + "\n  ]."
    out += [f"Definition kind_default : okind := {t['default']}.", "",
            "(* ObjectKind member -> string value (the suffix of the Inspector.inspect_<value> method it dispatches to) *)",
            "Definition okind_value (k : okind) : string :=", "  match k with"]
    for member, value in t["values"].items():
        out.append(f'  | {OKIND[member]} => "{value}"')
    out += ["  end.", "", "(* Inspector.inspect_<value> *)", "Definition handlers : list (okind * handler) :=",
            "  [" + ";\n   ".join(f"({k}, {h})" for k, h in t["handlers"]) + "].", "",
            "(* inspector._kind_map : inspect kinds -> griffe kinds *)",
            "Definition kind_map (k : kind) : kind :=", "  match k with"]
    for k in ("PO", "PK", "VP", "KO", "VK"):
        out.append(f"  | {k} => {t['kind_map'][k]}")
    out += ["  end.", "", "(* visitor.builtin_decorators / stdlib_decorators : callable path -> labels *)",
            "Definition builtin_decorators : list (string * list string) :=",
            "  [" + "; ".join(f'("{k}", {_coq_strs(v)})' for k, v in t["builtin"]) + "].",
            "Definition stdlib_decorators : list (string * list string) :=",
            "  [" + ";\n   ".join(f'("{k}", {_coq_strs(v)})' for k, v in t["stdlib"]) + "].", "",
            "(* runtime._cyclic_relationships, ObjectNode.exclude_specials *)",
            "Definition cyclic_relationships : list (string * string) :=",
            "  [" + "; ".join(f'("{a}", "{b}")' for a, b in t["cyclic"]) + "].",
            f"Definition exclude_specials : list string := {_coq_strs(t['exclude'])}.", "",
            "(* Inspector.inspect_class reads cls.__bases__ (anything else is refused by the translator); does it skip `object`? *)",
            f"Definition inspector_skips_object : bool := {'true' if t['bases']['skips_object'] else 'false'}.", "",
            "(* ObjectNode.children: what functools.cached_property stores *)",
            f"Definition children_impl : citer := {t['children']}.", "",
            "(* ObjectAliasMixin.is_wildcard_exposed for a member of a module *)",
            "Definition wildcard_exposed_tbl (runtime has_all in_all private is_alias is_module is_imported : bool) : bool :=",
            "  " + t["exposed"] + ".", ""]
    p = VERIF / "coq/Gen/C17_tables.v"
    text = "\n".join(out)
    if not p.exists() or p.read_text() != text:
        p.write_text(text)
    return p


if __name__ == "__main__":
    print(translate().read_text())
