"""(T) translator for C01, second part: regenerates coq/Gen/C01_dispatch.v from /repo/src/_griffe.

What is read off the source (fail closed: anything outside the whitelisted shapes raises TranslatorError):
  * agents/visitor.py, class Visitor:
      - `visit` dispatches on f"visit_{ast_kind(node)}" with `generic_visit` as fallback, `generic_visit` visits
        `ast_children(node)` in order (shape checks);
      - the set of `visit_<kind>` methods and what each one is: the big handlers (visit_module, visit_classdef,
        visit_import, visit_importfrom, visit_augassign, visit_if) are recognised by name, the delegating ones by their
        exact body: visit_functiondef -> handle_function(node), visit_asyncfunctiondef -> handle_function(node,
        labels={...}) (the label set is extracted), visit_assign -> handle_attribute(node), visit_annassign ->
        handle_attribute(node, safe_get_annotation(...));
      - visit_expr (expression statements `__all__.extend(...)` / `__all__.append(...)` at module level extend the exports
        like `__all__ +=`): exact shape (receiver is the bare name, the two method names, the `self.current.is_module` test,
        first positional argument, `append(x)` = `extend([x])`, AttributeError / IndexError suppressed, generic_visit
        afterwards); the receiver name and the method names are extracted;
      - handle_attribute: the parent kinds under which a re-assignment is "conditional"
        (`isinstance(node.parent, (ast.If, ast.ExceptHandler))`);
      - visit_if: the parent kinds at which a TYPE_CHECKING test guards (`isinstance(node.parent, (ast.Module,
        ast.ClassDef))`) and the accepted test texts;
      - handle_function: the method name whose body is visited for instance attributes (`function.name == "__init__"`).
  * extensions/base.py: class Extensions has exactly __init__ / add / call with the shapes of Model/C01_ext.v (a list, append,
    dispatch to every extension registered at that moment in registration order).
  * loader.py: GriffeLoader._visit_module reads the file and stores its lines in the lines collection unconditionally
    (Model/C01_lines.v: the last store wins).
  * agents/nodes/ast.py: `ast_kind` (lower-cased class name) and `ast_children` (fields in `_fields` order; shape checks).
  * agents/nodes/assignments.py: the node types `get_name` accepts (`_node_name_map` keys, with the shapes of the two
    name builders), the node types `get_names` accepts (`_node_names_map`), and `get_instance_names` (prefix "self.",
    remainder after the first dot).
"""
from __future__ import annotations

import ast
from pathlib import Path

from harness.common.framework import REPO, VERIF, TranslatorError

_REF = {
    "visit": '''
def visit(self, node):
    getattr(self, f"visit_{ast_kind(node)}", self.generic_visit)(node)
''',
    "generic_visit": '''
def generic_visit(self, node):
    for child in ast_children(node):
        self.visit(child)
''',
    "ast_kind": '''
def ast_kind(node):
    return node.__class__.__name__.lower()
''',
    "ast_children": '''
def ast_children(node):
    for field_name in node._fields:
        try:
            field = getattr(node, field_name)
        except AttributeError:
            continue
        if isinstance(field, AST):
            field.parent = node
            yield field
        elif isinstance(field, list):
            for child in field:
                if isinstance(child, AST):
                    child.parent = node
                    yield child
''',
    "_get_attribute_name": '''
def _get_attribute_name(node):
    return f"{get_name(node.value)}.{node.attr}"
''',
    "_get_name_name": '''
def _get_name_name(node):
    return node.id
''',
    "get_name": '''
def get_name(node):
    return _node_name_map[type(node)](node)
''',
    "_get_assign_names": '''
def _get_assign_names(node):
    names = (get_name(target) for target in node.targets)
    return [name for name in names if name]
''',
    "_get_annassign_names": '''
def _get_annassign_names(node):
    name = get_name(node.target)
    return [name] if name else []
''',
    "get_names": '''
def get_names(node):
    return _node_names_map[type(node)](node)
''',
    "get_instance_names": '''
def get_instance_names(node):
    return [name.split(".", 1)[1] for name in get_names(node) if name.startswith("self.")]
''',
    "visit_expr": '''
def visit_expr(self, node):
    with suppress(AttributeError, IndexError):
        call = node.value
        all_method = (
            isinstance(call, ast.Call)
            and call.func.value.id == "__all__"
            and call.func.attr in {"extend", "append"}
            and self.current.is_module
        )
        if all_method:
            argument = call.args[0]
            if call.func.attr == "append":
                argument = ast.List(elts=[argument], ctx=ast.Load())
            self.current.exports.extend(
                [
                    name if isinstance(name, str) else ExprName(name.name, parent=name.parent)
                    for name in safe_get__all__(ast.Expr(value=argument), self.current)
                ],
            )
    self.generic_visit(node)
''',
    "Extensions.__init__": '''
def __init__(self, *extensions):
    self._extensions: list[Extension] = []
    self.add(*extensions)
''',
    "Extensions.add": '''
def add(self, *extensions):
    for extension in extensions:
        self._extensions.append(extension)
''',
    "Extensions.call": '''
def call(self, event, **kwargs):
    for extension in self._extensions:
        getattr(extension, event)(**kwargs)
''',
    "visit_if": '''
def visit_if(self, node):
    previously_guarded = self.type_guarded
    else_guarded = previously_guarded
    if isinstance(node.parent, (ast.Module, ast.ClassDef)):
        condition = safe_get_condition(node.test, parent=self.current, log_level=None)
        if str(condition) in {"typing.TYPE_CHECKING", "TYPE_CHECKING"}:
            self.type_guarded = True
        elif str(condition) in {"not typing.TYPE_CHECKING", "not TYPE_CHECKING"}:
            else_guarded = True
    for child in ast_children(node):
        if child in node.orelse:
            self.type_guarded = else_guarded
        self.visit(child)
    self.type_guarded = previously_guarded
''',
    "visit_functiondef": '''
def visit_functiondef(self, node):
    self.handle_function(node)
''',
    "visit_assign": '''
def visit_assign(self, node):
    self.handle_attribute(node)
''',
    "visit_annassign": '''
def visit_annassign(self, node):
    self.handle_attribute(node, safe_get_annotation(node.annotation, parent=self.current))
''',
}
BIG_HANDLERS = {"visit_module": "HModule", "visit_classdef": "HClass", "visit_import": "HImport", "visit_importfrom": "HImportFrom",
                "visit_augassign": "HAugAssign", "visit_if": "HIf"}


def _coq_str(s: str) -> str:
    if not all(32 <= ord(c) < 127 and c != '"' for c in s):
        raise TranslatorError(f"non-ASCII or quote in table string {s!r}")
    return '"' + s + '"'


def _strip_doc(body):
    if body and isinstance(body[0], ast.Expr) and isinstance(body[0].value, ast.Constant) and isinstance(body[0].value.value, str):
        return body[1:]
    return body


def _norm_fn(fn) -> str:
    """Name, parameter names and body without docstring, annotations, type comments and positions."""
    body = _strip_doc(fn.body)
    args = [a.arg for a in fn.args.posonlyargs + fn.args.args + fn.args.kwonlyargs]
    return fn.name + "(" + ",".join(args) + ")\n" + "\n".join(ast.dump(ast.parse(ast.unparse(s)), annotate_fields=False) for s in body)


def _same_shape(fn, ref_name, what):
    ref = ast.parse(_REF[ref_name]).body[0]
    if _norm_fn(fn) != _norm_fn(ref):
        raise TranslatorError(f"{what} no longer has the shape the model assumes:\n{ast.unparse(fn)[:400]}")


class _BlankSets(ast.NodeTransformer):
    def visit_Set(self, n):
        return ast.Set(elts=[]) if all(isinstance(e, ast.Constant) and isinstance(e.value, str) for e in n.elts) else n


def _same_shape_modulo_sets(fn, ref_name, what):
    """Exact shape, except for the contents of sets of string literals (those are extracted into the generated tables)."""
    import copy
    ref = ast.parse(_REF[ref_name]).body[0]
    a, b = (_BlankSets().visit(copy.deepcopy(x)) for x in (fn, ref))
    if _norm_fn(ast.fix_missing_locations(a)) != _norm_fn(ast.fix_missing_locations(b)):
        raise TranslatorError(f"{what} no longer has the shape the model assumes:\n{ast.unparse(fn)[:600]}")


def _functions(tree):
    return {n.name: n for n in tree.body if isinstance(n, ast.FunctionDef)}


def _ast_class_names(node, what):
    """(ast.A, ast.B) or ast.A -> ["A", "B"]"""
    elts = node.elts if isinstance(node, ast.Tuple) else [node]
    out = []
    for e in elts:
        if not (isinstance(e, ast.Attribute) and isinstance(e.value, ast.Name) and e.value.id == "ast"):
            raise TranslatorError(f"{what}: expected ast.<Class>, got {ast.unparse(e)}")
        out.append(e.attr)
    return out


def _isinstance_parent_kinds(fn, what):
    """The class tuple of the single `isinstance(node.parent, (...))` call inside fn."""
    found = []
    for n in ast.walk(fn):
        if (isinstance(n, ast.Call) and isinstance(n.func, ast.Name) and n.func.id == "isinstance" and len(n.args) == 2
                and isinstance(n.args[0], ast.Attribute) and n.args[0].attr == "parent"
                and isinstance(n.args[0].value, ast.Name) and n.args[0].value.id == "node"):
            found.append(_ast_class_names(n.args[1], what))
    if len(found) != 1:
        raise TranslatorError(f"{what}: expected exactly one isinstance(node.parent, ...) test, found {len(found)}")
    return found[0]


def _dict_keys_ast_classes(tree, name, funcs):
    """`name = {ast.X: fn, ...}` (possibly annotated) -> [(X, fn name)]"""
    for n in tree.body:
        tgt = None
        if isinstance(n, ast.Assign) and len(n.targets) == 1 and isinstance(n.targets[0], ast.Name):
            tgt, val = n.targets[0].id, n.value
        elif isinstance(n, ast.AnnAssign) and isinstance(n.target, ast.Name) and n.value is not None:
            tgt, val = n.target.id, n.value
        if tgt == name:
            if not isinstance(val, ast.Dict):
                raise TranslatorError(f"{name}: expected a dict display")
            out = []
            for k, v in zip(val.keys, val.values):
                cls = _ast_class_names(k, name)[0]
                if not (isinstance(v, ast.Name) and v.id in funcs):
                    raise TranslatorError(f"{name}[{cls}]: expected a module-level function, got {ast.unparse(v)}")
                out.append((cls, v.id))
            return out
    raise TranslatorError(f"{name} not found")


def tables() -> dict:
    vis = ast.parse((REPO / "src/_griffe/agents/visitor.py").read_text())
    cls = [n for n in vis.body if isinstance(n, ast.ClassDef) and n.name == "Visitor"]
    if len(cls) != 1:
        raise TranslatorError("class Visitor not found")
    meths = {n.name: n for n in cls[0].body if isinstance(n, (ast.FunctionDef, ast.AsyncFunctionDef))}
    for m in ("visit", "generic_visit", "handle_function", "handle_attribute"):
        if m not in meths:
            raise TranslatorError(f"Visitor.{m} not found")
    _same_shape(meths["visit"], "visit", "Visitor.visit")
    _same_shape(meths["generic_visit"], "generic_visit", "Visitor.generic_visit")
    handlers = []
    all_call = {"receiver": "", "methods": []}      # no visit_expr: no expression statement touches the exports
    for name, fn in meths.items():
        if not name.startswith("visit_"):
            continue
        kind = name[len("visit_"):]
        if name in BIG_HANDLERS:
            handlers.append((kind, BIG_HANDLERS[name], []))
        elif name == "visit_functiondef":
            _same_shape(fn, "visit_functiondef", "Visitor.visit_functiondef")
            handlers.append((kind, "HFunction", []))
        elif name == "visit_asyncfunctiondef":
            body = _strip_doc(fn.body)
            ok = (len(body) == 1 and isinstance(body[0], ast.Expr) and isinstance(body[0].value, ast.Call))
            call = body[0].value if ok else None
            ok = ok and ast.unparse(call.func) == "self.handle_function" and len(call.args) == 1 and ast.unparse(call.args[0]) == "node" \
                and len(call.keywords) == 1 and call.keywords[0].arg == "labels" and isinstance(call.keywords[0].value, ast.Set) \
                and all(isinstance(e, ast.Constant) and isinstance(e.value, str) for e in call.keywords[0].value.elts)
            if not ok:
                raise TranslatorError("Visitor.visit_asyncfunctiondef is not `self.handle_function(node, labels={<string literals>})` "
                                      "(a fresh set literal per call is what keeps the labels of one coroutine from reaching the next)")
            handlers.append((kind, "HFunction", sorted(e.value for e in call.keywords[0].value.elts)))
        elif name == "visit_assign":
            _same_shape(fn, "visit_assign", "Visitor.visit_assign")
            handlers.append((kind, "HAttribute", []))
        elif name == "visit_annassign":
            _same_shape(fn, "visit_annassign", "Visitor.visit_annassign")
            handlers.append((kind, "HAnnAttribute", []))
        elif name == "visit_expr":
            _same_shape(fn, "visit_expr", "Visitor.visit_expr")
            recv, methods, single = [], [], []
            for n in ast.walk(fn):
                if isinstance(n, ast.Compare) and len(n.ops) == 1 and isinstance(n.comparators[0], (ast.Constant, ast.Set)):
                    left = ast.unparse(n.left)
                    if left == "call.func.value.id" and isinstance(n.ops[0], ast.Eq):
                        recv.append(n.comparators[0].value)
                    elif left == "call.func.attr" and isinstance(n.ops[0], ast.In):
                        methods.append(sorted(e.value for e in n.comparators[0].elts))
                    elif left == "call.func.attr" and isinstance(n.ops[0], ast.Eq):
                        single.append(n.comparators[0].value)
            if len(recv) != 1 or len(methods) != 1 or len(single) != 1 or single[0] not in methods[0]:
                raise TranslatorError("Visitor.visit_expr: receiver / method names not found where the shape says they are")
            all_call = {"receiver": recv[0], "methods": methods[0]}
            handlers.append((kind, "HExpr", []))
        else:
            raise TranslatorError(f"Visitor.{name}: a visit method the model knows nothing about")
    missing = [k for k in ("module", "classdef", "functiondef", "asyncfunctiondef", "import", "importfrom", "assign", "annassign", "augassign", "if")
               if k not in [h[0] for h in handlers]]
    # a missing method is not an error of the translator: the node kind then falls to generic_visit, and the model follows
    cond_kinds = _isinstance_parent_kinds(meths["handle_attribute"], "handle_attribute (conditional re-assignment)")
    if "visit_if" in meths:
        guard_kinds = _isinstance_parent_kinds(meths["visit_if"], "visit_if (type-guard level)")
        _same_shape_modulo_sets(meths["visit_if"], "visit_if", "Visitor.visit_if")
        tests = []
        for n in ast.walk(meths["visit_if"]):
            if isinstance(n, ast.Compare) and len(n.ops) == 1 and isinstance(n.ops[0], ast.In) and ast.unparse(n.left) == "str(condition)" \
                    and isinstance(n.comparators[0], ast.Set) and all(isinstance(e, ast.Constant) and isinstance(e.value, str) for e in n.comparators[0].elts):
                tests.append(sorted(e.value for e in n.comparators[0].elts))
        if len(tests) != 2:
            raise TranslatorError("visit_if: expected the two `str(condition) in {<string literals>}` tests (plain, then negated)")
        tests, neg_tests = tests
    else:
        guard_kinds, tests, neg_tests = [], [], []
    inits = []
    for n in ast.walk(meths["handle_function"]):
        if isinstance(n, ast.Compare) and len(n.ops) == 1 and isinstance(n.ops[0], ast.Eq) and ast.unparse(n.left) == "function.name" \
                and isinstance(n.comparators[0], ast.Constant) and isinstance(n.comparators[0].value, str):
            inits.append(n.comparators[0].value)
    if len(inits) != 1:
        raise TranslatorError("handle_function: expected exactly one `function.name == <literal>` test (the method visited for instance attributes)")

    astmod = ast.parse((REPO / "src/_griffe/agents/nodes/ast.py").read_text())
    af = _functions(astmod)
    for f in ("ast_kind", "ast_children"):
        if f not in af:
            raise TranslatorError(f"agents/nodes/ast.py: {f} not found")
        _same_shape(af[f], f, f"agents/nodes/ast.py:{f}")

    asg = ast.parse((REPO / "src/_griffe/agents/nodes/assignments.py").read_text())
    gf = _functions(asg)
    for f in ("_get_attribute_name", "_get_name_name", "get_name", "_get_assign_names", "_get_annassign_names", "get_names", "get_instance_names"):
        if f not in gf:
            raise TranslatorError(f"agents/nodes/assignments.py: {f} not found")
        _same_shape(gf[f], f, f"agents/nodes/assignments.py:{f}")
    name_map = _dict_keys_ast_classes(asg, "_node_name_map", gf)
    names_map = _dict_keys_ast_classes(asg, "_node_names_map", gf)
    builders = {"_get_name_name": "NBName", "_get_attribute_name": "NBAttribute"}
    for cls_, fn_ in name_map:
        if fn_ not in builders:
            raise TranslatorError(f"_node_name_map[{cls_}] = {fn_}: a name builder the model knows nothing about")
    takers = {"_get_assign_names": "Assign", "_get_annassign_names": "AnnAssign"}
    for cls_, fn_ in names_map:
        if takers.get(fn_) != cls_:
            raise TranslatorError(f"_node_names_map[{cls_}] = {fn_}: not the pairing the model assumes")
    # the extension container (Model/C01_ext.v): a plain list, `add` appends, `call` hands the event to every extension
    # registered at that moment, in registration order (no per-event tables, no snapshots)
    ext = ast.parse((REPO / "src/_griffe/extensions/base.py").read_text())
    ecls = [n for n in ext.body if isinstance(n, ast.ClassDef) and n.name == "Extensions"]
    if len(ecls) != 1:
        raise TranslatorError("extensions/base.py: class Extensions not found")
    em = {n.name: n for n in ecls[0].body if isinstance(n, ast.FunctionDef)}
    if sorted(em) != ["__init__", "add", "call"]:
        raise TranslatorError(f"Extensions: methods {sorted(em)} (the model knows __init__, add, call)")
    for mname_ in ("__init__", "add", "call"):
        _same_shape(em[mname_], "Extensions." + mname_, "Extensions." + mname_)
    # the lines collection (Model/C01_lines.v): a static load stores the text it has just read, unconditionally
    ld = ast.parse((REPO / "src/_griffe/loader.py").read_text())
    lcls = [n for n in ld.body if isinstance(n, ast.ClassDef) and n.name == "GriffeLoader"]
    vm = [n for c in lcls for n in c.body if isinstance(n, ast.FunctionDef) and n.name == "_visit_module"]
    if len(vm) != 1:
        raise TranslatorError("loader.py: GriffeLoader._visit_module not found")
    want = ["code = module_path.read_text(encoding='utf8')",
            "if self.store_source:\n    self.lines_collection[module_path] = code.splitlines(keepends=False)"]
    got = [ast.unparse(st) for st in _strip_doc(vm[0].body)[:2]]
    if got != want:
        raise TranslatorError("GriffeLoader._visit_module no longer reads the file and stores its lines unconditionally "
                              "(`self.lines_collection[module_path] = code.splitlines(keepends=False)` under `if self.store_source`):\n" + "\n".join(got))
    return {"handlers": handlers, "missing": missing, "cond_kinds": cond_kinds, "guard_kinds": guard_kinds, "tests": tests, "neg_tests": neg_tests,
            "init_name": inits[0], "all_call": all_call, "name_map": [(c, builders[f]) for c, f in name_map], "names_kinds": [c for c, _f in names_map]}


def translate(ctx=None) -> Path:
    t = tables()

    def lst(xs):
        return "[" + "; ".join(_coq_str(x) for x in xs) + "]"
    out = ["(* GENERATED by harness/translate/c01_dispatch.py from /repo/src/_griffe/agents/visitor.py, agents/nodes/ast.py and",
           "   agents/nodes/assignments.py -- do not edit *)",
           "From Coq Require Import List Bool String.", "From Verif Require Import Model.C01_base.", "Import ListNotations.",
           "Open Scope string_scope.", "Open Scope list_scope.", "",
           "(* Visitor.visit: getattr(self, \"visit_\" + lower-cased class name, self.generic_visit); the visit_ methods that exist *)",
           "Definition visit_handlers : list (string * handler) :=",
           "  [" + ";\n   ".join(f"({_coq_str(k)}, {h}{' ' + lst(ls) if h == 'HFunction' else ''})" for k, h, ls in t["handlers"]) + "].",
           "(* handle_attribute: isinstance(node.parent, ...) -> an existing member is kept *)",
           f"Definition cond_parent_kinds : list string := {lst(t['cond_kinds'])}.",
           "(* visit_if: isinstance(node.parent, ...) and the texts of a type-checking test *)",
           f"Definition guard_parent_kinds : list string := {lst(t['guard_kinds'])}.",
           f"Definition type_checking_tests : list string := {lst(t['tests'])}.",
           "(* ... and of its negation (then the else branch is the type-checking-only one) *)",
           f"Definition negated_type_checking_tests : list string := {lst(t['neg_tests'])}.",
           "(* visit_expr: <receiver>.<method>(<argument>, ...) as an expression statement extends the exports of a module *)",
           f"Definition all_receiver : string := {_coq_str(t['all_call']['receiver'])}.",
           f"Definition all_methods : list string := {lst(t['all_call']['methods'])}.",
           "(* handle_function: the method whose body is visited for instance attributes *)",
           f"Definition init_method_name : string := {_coq_str(t['init_name'])}.",
           "(* assignments.py: _node_name_map (which target nodes have a name), _node_names_map (which statements have targets) *)",
           "Definition name_builders : list (string * name_builder) :=",
           "  [" + "; ".join(f"({_coq_str(c)}, {b})" for c, b in t["name_map"]) + "].",
           f"Definition names_statement_kinds : list string := {lst(t['names_kinds'])}.",
           "(* get_instance_names: names starting with this prefix, cut after the first dot *)",
           'Definition instance_prefix : string := "self.".', ""]
    p = VERIF / "coq/Gen/C01_dispatch.v"
    text = "\n".join(out)
    if not p.exists() or p.read_text() != text:
        p.write_text(text)
    return p


if __name__ == "__main__":
    print(translate().read_text())
