"""(T) translator for C09, second table: regenerates coq/Gen/C09_exprs.v from

* /repo/src/_griffe/expressions.py -- every dataclass deriving `Expr`: its serialised fields in the order
  `_expr_as_dict` emits them (sorted by name, `parent` dropped) and, per field, whether the declared type is a
  sequence (`Sequence[...]` / `list[...]`) or a scalar (str / bool / int / None / Expr / an Expr class / ParameterKind);
* /repo/src/_griffe/docstrings/models.py -- the keys `DocstringElement.as_dict` and `DocstringNamedElement.as_dict`
  emit, and for every `DocstringSection*` class its `kind` value and the shape of its value: text, a list of plain
  elements, a list of named elements, a list of (kind, text) example pairs, or one element.

Fail closed (TranslatorError) on anything outside these shapes.
"""
from __future__ import annotations

import ast
from pathlib import Path

from harness.common.framework import REPO, VERIF, TranslatorError
from harness.translate.c09_schema import coq_list, coq_string, enum_values

SCALAR_NAMES = {"str", "bool", "int", "None", "Expr", "ParameterKind"}


def _is_dataclass(node: ast.ClassDef) -> bool:
    for d in node.decorator_list:
        f = d.func if isinstance(d, ast.Call) else d
        if isinstance(f, ast.Name) and f.id == "dataclass":
            return True
    return False


def _scalar_atom(node, classes, where) -> None:
    if isinstance(node, ast.Constant) and node.value is None:
        return
    if isinstance(node, ast.Name) and (node.id in SCALAR_NAMES or node.id in classes):
        return
    raise TranslatorError(f"{where}: field type {ast.unparse(node)!r} is outside the modelled shapes")


def _scalar_union(node, classes, where) -> None:
    if isinstance(node, ast.BinOp) and isinstance(node.op, ast.BitOr):
        _scalar_union(node.left, classes, where)
        _scalar_union(node.right, classes, where)
    else:
        _scalar_atom(node, classes, where)


def field_kind(ann, classes, where) -> str:
    if isinstance(ann, ast.Subscript) and isinstance(ann.value, ast.Name) and ann.value.id in ("Sequence", "list"):
        _scalar_union(ann.slice, classes, where)
        return "FSeq"
    _scalar_union(ann, classes, where)
    return "FScalar"


def expression_table(tree) -> list[tuple[str, list[tuple[str, str]]]]:
    nodes = [n for n in tree.body if isinstance(n, ast.ClassDef)]
    classes = {n.name for n in nodes if n.name.startswith("Expr")}
    if "Expr" not in classes:
        raise TranslatorError("expressions.py: class Expr not found")
    out = []
    for n in nodes:
        if n.name == "Expr" or not n.name.startswith("Expr"):
            continue
        bases = [ast.unparse(b) for b in n.bases]
        if bases != ["Expr"]:
            raise TranslatorError(f"expressions.py: {n.name} derives {bases}, not exactly Expr (inherited fields are not modelled)")
        if not _is_dataclass(n):
            raise TranslatorError(f"expressions.py: {n.name} is not a dataclass")
        fields = []
        for st in n.body:
            if isinstance(st, ast.AnnAssign):
                if not isinstance(st.target, ast.Name):
                    raise TranslatorError(f"expressions.py: {n.name}: annotated target is not a name")
                ann = st.annotation
                if isinstance(ann, ast.Subscript) and ast.unparse(ann.value) in ("ClassVar", "typing.ClassVar"):
                    continue
                if st.target.id == "parent":
                    continue
                fields.append((st.target.id, field_kind(ann, classes, f"expressions.py:{n.name}.{st.target.id}")))
            elif isinstance(st, ast.Assign):
                raise TranslatorError(f"expressions.py: {n.name}: un-annotated class attribute {ast.unparse(st)[:60]!r}")
        names = [f for f, _ in fields]
        if len(set(names)) != len(names) or "cls" in names:
            raise TranslatorError(f"expressions.py: {n.name}: duplicate field or a field named `cls`")
        out.append((n.name, sorted(fields)))
    if not out:
        raise TranslatorError("expressions.py: no expression class found")
    return out


def _dict_keys(fn: ast.FunctionDef, where: str):
    """keys of the dict literal an as_dict builds: (always, optional)"""
    always, optional, star = [], [], False
    for node in ast.walk(fn):
        if isinstance(node, ast.Dict):
            for k in node.keys:
                if k is None:
                    star = True
                elif isinstance(k, ast.Constant) and isinstance(k.value, str):
                    always.append(k.value)
                else:
                    raise TranslatorError(f"{where}: non-literal dictionary key")
        if isinstance(node, ast.Assign) and len(node.targets) == 1 and isinstance(node.targets[0], ast.Subscript):
            t = node.targets[0]
            if isinstance(t.slice, ast.Constant) and isinstance(t.slice.value, str):
                optional.append(t.slice.value)
            else:
                raise TranslatorError(f"{where}: non-literal key assignment")
    return always, optional, star


def _method(cls: ast.ClassDef, name: str):
    for st in cls.body:
        if isinstance(st, ast.FunctionDef) and st.name == name:
            return st
    return None


def docstring_tables(tree, section_kinds: dict[str, str]):
    classes = {n.name: n for n in tree.body if isinstance(n, ast.ClassDef)}
    for need in ("DocstringElement", "DocstringNamedElement", "DocstringSection"):
        if need not in classes:
            raise TranslatorError(f"docstrings/models.py: class {need} not found")

    def ancestry(name):
        seen = []
        while name in classes:
            seen.append(name)
            bases = [ast.unparse(b) for b in classes[name].bases]
            if len(bases) > 1:
                raise TranslatorError(f"docstrings/models.py: {name} has several bases")
            if not bases:
                break
            name = bases[0]
        return seen

    el = _method(classes["DocstringElement"], "as_dict")
    nel = _method(classes["DocstringNamedElement"], "as_dict")
    if el is None or nel is None:
        raise TranslatorError("docstrings/models.py: as_dict of DocstringElement / DocstringNamedElement not found")
    el_always, el_opt, el_star = _dict_keys(el, "DocstringElement.as_dict")
    nel_always, nel_opt, nel_star = _dict_keys(nel, "DocstringNamedElement.as_dict")
    if el_opt or el_star or not nel_star:
        raise TranslatorError("docstrings/models.py: element as_dict no longer has the modelled shape")
    # element classes: named or plain; none may override as_dict
    element_named = {}
    for name in classes:
        anc = ancestry(name)
        if "DocstringElement" in anc and name not in ("DocstringElement", "DocstringNamedElement"):
            for a in anc:
                if a not in ("DocstringElement", "DocstringNamedElement") and _method(classes[a], "as_dict") is not None:
                    raise TranslatorError(f"docstrings/models.py: {a} overrides as_dict")
            element_named[name] = "DocstringNamedElement" in anc
    sections = []
    for name, node in classes.items():
        anc = ancestry(name)
        if "DocstringSection" not in anc or name == "DocstringSection":
            continue
        for a in anc:
            if a != "DocstringSection" and _method(classes[a], "as_dict") is not None:
                raise TranslatorError(f"docstrings/models.py: {a} overrides as_dict")
        kind = None
        for st in node.body:
            if isinstance(st, ast.AnnAssign) and isinstance(st.target, ast.Name) and st.target.id == "kind" and st.value is not None:
                v = st.value
                if isinstance(v, ast.Attribute) and isinstance(v.value, ast.Name) and v.value.id == "DocstringSectionKind" and v.attr in section_kinds:
                    kind = section_kinds[v.attr]
        if kind is None:
            raise TranslatorError(f"docstrings/models.py: {name} has no `kind: DocstringSectionKind = DocstringSectionKind.<member>`")
        # the value: from the nearest __init__ along the ancestry
        init = None
        for a in anc:
            init = _method(classes[a], "__init__")
            if init is not None:
                break
        shape = None
        args = {a.arg: a.annotation for a in init.args.args + init.args.kwonlyargs}
        if "value" in args and args["value"] is not None:
            text = ast.unparse(args["value"])
            if text == "str":
                shape = "SKText"
            elif text.startswith("list[tuple["):
                shape = "SKExamples"
            elif text.startswith("list[") and text[5:-1] in element_named:
                shape = "SKNamed" if element_named[text[5:-1]] else "SKPlain"
        else:
            for st in ast.walk(init):
                if isinstance(st, ast.AnnAssign) and ast.unparse(st.target) == "self.value" and isinstance(st.value, ast.Call):
                    callee = ast.unparse(st.value.func)
                    if callee in element_named and not element_named[callee]:
                        shape = "SKOne"
        if shape is None:
            raise TranslatorError(f"docstrings/models.py: cannot tell the value shape of {name}")
        sections.append((name, kind, shape))
    if not sections:
        raise TranslatorError("docstrings/models.py: no section class found")
    return el_always, nel_always, nel_opt, sections


def enum_members(tree, cls: str) -> dict[str, str]:
    node = [n for n in tree.body if isinstance(n, ast.ClassDef) and n.name == cls]
    if len(node) != 1:
        raise TranslatorError(f"enumeration {cls} not found")
    out = {}
    for st in node[0].body:
        if isinstance(st, ast.Assign) and len(st.targets) == 1 and isinstance(st.targets[0], ast.Name) \
                and isinstance(st.value, ast.Constant) and isinstance(st.value.value, str):
            out[st.targets[0].id] = st.value.value
    return out


def tables():
    try:
        etree = ast.parse((REPO / "src/_griffe/expressions.py").read_text())
        dtree = ast.parse((REPO / "src/_griffe/docstrings/models.py").read_text())
        ntree = ast.parse((REPO / "src/_griffe/enumerations.py").read_text())
    except (OSError, SyntaxError) as e:
        raise TranslatorError(f"cannot read the sources: {e}") from e
    enum_values(ntree, "DocstringSectionKind")   # shape check (str, Enum)
    exprs = expression_table(etree)
    el, nel, nel_opt, sections = docstring_tables(dtree, enum_members(ntree, "DocstringSectionKind"))
    return exprs, el, nel, nel_opt, sections


def translate(ctx=None) -> Path:
    exprs, el, nel, nel_opt, sections = tables()
    rows = [f"  ({coq_string(c)}, {coq_list(f'({coq_string(n)}, {k})' for n, k in fs)})" for c, fs in exprs]
    srows = [f"  ({coq_string(kind)}, {shape})" for _name, kind, shape in sections]
    crows = [f"  ({coq_string(name)}, {coq_string(kind)})" for name, kind, _shape in sections]
    out = ["(* GENERATED by harness/translate/c09_exprs.py from /repo/src/_griffe/expressions.py and /repo/src/_griffe/docstrings/models.py -- do not edit *)",
           "From Coq Require Import List String.", "Import ListNotations.", "Open Scope string_scope.", "Open Scope list_scope.", "",
           "(* declared shape of an expression field: one value (str / bool / None / an expression) or a sequence of them *)",
           "Inductive fkind := FScalar | FSeq.", "",
           "(* shape of a docstring section's value *)",
           "Inductive skind := SKText | SKPlain | SKNamed | SKExamples | SKOne.", "",
           "(* expression classes: serialised fields in the order _expr_as_dict emits them (sorted by name, `parent` dropped) *)",
           "Definition expr_table : list (string * list (string * fkind)) :=", "[" + ";\n".join(rows).lstrip() + "].", "",
           "(* keys of DocstringElement.as_dict; keys DocstringNamedElement.as_dict adds in front; keys it adds when not None *)",
           f"Definition element_keys : list string := {coq_list(coq_string(k) for k in el)}.",
           f"Definition named_element_keys : list string := {coq_list(coq_string(k) for k in nel)}.",
           f"Definition named_element_optional_keys : list string := {coq_list(coq_string(k) for k in nel_opt)}.", "",
           "(* section kind value -> shape of the section's value (one row per DocstringSection class) *)",
           "Definition section_table : list (string * skind) :=", "[" + ";\n".join(srows).lstrip() + "].", "",
           "(* section class -> its kind value *)",
           "Definition section_classes : list (string * string) :=", "[" + ";\n".join(crows).lstrip() + "].", ""]
    p = VERIF / "coq/Gen/C09_exprs.v"
    text = "\n".join(out)
    if not p.exists() or p.read_text() != text:
        p.write_text(text)
    return p


if __name__ == "__main__":
    print(translate().read_text())
