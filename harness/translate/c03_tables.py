"""(T) translator for C03: regenerates coq/Gen/C03_tables.v from /repo/src/_griffe/expressions.py.

Translated (as *values*, so reordering/reformatting the dict literals changes nothing):
  _unary_op_map, _binary_op_map, _bool_op_map, _compare_op_map : ast operator class -> spelling
  _node_map                                                   : ast node class -> name of the builder function
Fail closed: a key that is not `ast.<Class>` with <Class> in the fixed Python 3.12 vocabulary (Model/C03_ops.v), a value
that is not a string constant / a plain function name, a missing table, or a duplicated key raises TranslatorError.
A class absent from a table becomes `None` (the KeyError `_build` / `_build_*` would raise).
"""
from __future__ import annotations

import ast
from pathlib import Path

from harness.common.framework import REPO, VERIF, TranslatorError

UNOPS = ["Invert", "Not", "UAdd", "USub"]
BINOPS = ["Add", "Sub", "Mult", "MatMult", "Div", "Mod", "Pow", "LShift", "RShift", "BitOr", "BitXor", "BitAnd", "FloorDiv"]
BOOLOPS = ["And", "Or"]
CMPOPS = ["Eq", "NotEq", "Lt", "LtE", "Gt", "GtE", "Is", "IsNot", "In", "NotIn"]
NODES = ["Attribute", "Await", "BinOp", "BoolOp", "Call", "Compare", "comprehension", "Constant", "Dict", "DictComp",
         "FormattedValue", "GeneratorExp", "IfExp", "JoinedStr", "keyword", "Lambda", "List", "ListComp", "Name",
         "NamedExpr", "Set", "SetComp", "Slice", "Starred", "Subscript", "Tuple", "UnaryOp", "Yield", "YieldFrom"]
TABLES = {"_unary_op_map": ("unop_str", "unop", "U_", UNOPS), "_binary_op_map": ("binop_str", "binop", "B_", BINOPS),
          "_bool_op_map": ("boolop_str", "boolop", "L_", BOOLOPS), "_compare_op_map": ("cmpop_str", "cmpop", "C_", CMPOPS)}


def coq_ctor(prefix: str, cls: str) -> str:
    if prefix == "N":
        return "N" + cls[0].upper() + cls[1:]
    return prefix + cls


def _ast_class(node, allowed) -> str:
    if isinstance(node, ast.Attribute) and isinstance(node.value, ast.Name) and node.value.id == "ast" and node.attr in allowed:
        return node.attr
    raise TranslatorError(f"table key outside the whitelist: {ast.unparse(node)}")


def _coq_string(s: str) -> str:
    if not all(32 <= ord(c) < 127 for c in s):
        raise TranslatorError(f"non-printable operator spelling {s!r}")
    return '"' + s.replace('"', '""') + '"'


def read_tables(path: Path | None = None) -> dict:
    src = (path or (REPO / "src/_griffe/expressions.py")).read_text()
    tree = ast.parse(src)
    found: dict[str, dict[str, str]] = {}
    for n in tree.body:
        if isinstance(n, ast.Assign) and len(n.targets) == 1 and isinstance(n.targets[0], ast.Name):
            name, value = n.targets[0].id, n.value
        elif isinstance(n, ast.AnnAssign) and isinstance(n.target, ast.Name) and n.value is not None:
            name, value = n.target.id, n.value
        else:
            continue
        if name not in TABLES and name != "_node_map":
            continue
        if name in found:
            raise TranslatorError(f"{name} assigned twice")
        if not isinstance(value, ast.Dict) or any(k is None for k in value.keys):
            raise TranslatorError(f"{name} is not a plain dict literal: {ast.unparse(value)[:120]}")
        allowed = NODES if name == "_node_map" else TABLES[name][3]
        table: dict[str, str] = {}
        for k, v in zip(value.keys, value.values):
            cls = _ast_class(k, allowed)
            if cls in table:
                raise TranslatorError(f"duplicate key ast.{cls} in {name}")
            if name == "_node_map":
                if not isinstance(v, ast.Name):
                    raise TranslatorError(f"_node_map[ast.{cls}] is not a function name: {ast.unparse(v)}")
                table[cls] = v.id
            else:
                if not (isinstance(v, ast.Constant) and isinstance(v.value, str)):
                    raise TranslatorError(f"{name}[ast.{cls}] is not a string constant: {ast.unparse(v)}")
                table[cls] = v.value
        found[name] = table
    missing = [t for t in list(TABLES) + ["_node_map"] if t not in found]
    if missing:
        raise TranslatorError(f"tables not found in expressions.py: {missing}")
    # _build must still be the table lookup the model assumes: in_subscript is dropped for every node that is not a
    # tuple or a constant (Model/C03_expr.v: enter / keeps_insub), then the builder is looked up in _node_map
    fn = [n for n in tree.body if isinstance(n, ast.FunctionDef) and n.name == "_build"]
    if len(fn) != 1:
        raise TranslatorError("_build not found")
    body = [s for s in fn[0].body if not (isinstance(s, ast.Expr) and isinstance(s.value, ast.Constant))]
    expected = ["if not isinstance(node, (ast.Tuple, ast.Constant)):\n    kwargs.pop('in_subscript', None)",
                "return _node_map[type(node)](node, parent, **kwargs)"]
    if [ast.unparse(b) for b in body] != expected:
        raise TranslatorError("_build is no longer `drop in_subscript unless Tuple/Constant; return _node_map[type(node)](node, parent, **kwargs)`: "
                              + " | ".join(ast.unparse(b) for b in body)[:300])
    return found


def render(found: dict) -> str:
    out = ["(* GENERATED by harness/translate/c03_tables.py from /repo/src/_griffe/expressions.py -- do not edit *)",
           "From Coq Require Import String.", "From Verif Require Import Model.C03_ops.", "Open Scope string_scope.", ""]
    for pyname, (coqname, ty, prefix, classes) in TABLES.items():
        out.append(f"(* {pyname} *)")
        out.append(f"Definition {coqname} (o : {ty}) : option string :=")
        out.append("  match o with")
        for c in classes:
            v = found[pyname].get(c)
            out.append(f"  | {coq_ctor(prefix, c)} => " + ("None" if v is None else f"Some {_coq_string(v)}"))
        out.append("  end.")
        out.append("")
    out.append("(* _node_map: ast class -> builder function *)")
    out.append("Definition node_builder (k : nodekind) : option string :=")
    out.append("  match k with")
    for c in NODES:
        v = found["_node_map"].get(c)
        out.append(f"  | {coq_ctor('N', c)} => " + ("None" if v is None else f"Some {_coq_string(v)}"))
    out.append("  end.")
    out.append("")
    return "\n".join(out)


def translate(ctx=None) -> Path:
    text = render(read_tables())
    p = VERIF / "coq/Gen/C03_tables.v"
    if not p.exists() or p.read_text() != text:
        p.write_text(text)
    return p


if __name__ == "__main__":
    print(translate().read_text())
