"""(T) translator for C03: regenerates coq/Gen/C03_tables.v from /repo/src/_griffe/expressions.py.

Translated (as *values*, so reordering/reformatting the dict literals changes nothing):
  _unary_op_map, _binary_op_map, _bool_op_map, _compare_op_map : ast operator class -> spelling
  _node_map                                                   : ast node class -> name of the builder function
Fail closed: a key that is not `ast.<Class>` with <Class> in the fixed Python 3.12 vocabulary (Model/C03_ops.v), a value
that is not a string constant / a plain function name, a missing table, or a duplicated key raises TranslatorError.
A class absent from a table becomes `None` (the KeyError `_build` / `_build_*` would raise).

Also translated:
  tree_fixes            : which of the rendering repairs the tree contains, each detected by a small syntactic marker of the
                          repaired code AND the matching marker of the unrepaired code (neither or both -> TranslatorError)
  gen_binop_prec        : _binary_op_precedence (operator spelling -> level of _Precedence, mapped by member NAME to the
                          numbering of ast._Precedence used by the model); empty when the tree has no precedence machinery.
                          The order of the members of _Precedence is pinned (the model compares levels with <).
  rq_* / pr_*           : the `precedence=` argument of every _yield / _join call of every Expr*.iterate method (absent = NONE;
                          the set of (class, yielded thing) slots is pinned: a new, missing or renamed slot fails closed;
                          ExprBinOp / ExprBoolOp / ExprUnaryOp, whose requirements are relative to the node's own level, are
                          read as offsets and as the two fixed levels of `**`), and every branch of _precedence (class ->
                          level, the operator spellings it tests). The model's iterate / gprec are defined over these constants.
"""
from __future__ import annotations

import ast
from pathlib import Path

from harness.common.framework import REPO, VERIF, TranslatorError

UNOPS = ["Invert", "Not", "UAdd", "USub"]
BINOPS = ["Add", "Sub", "Mult", "MatMult", "Div", "Mod", "Pow", "LShift", "RShift", "BitOr", "BitXor", "BitAnd", "FloorDiv"]
BOOLOPS = ["And", "Or"]
CMPOPS = ["Eq", "NotEq", "Lt", "LtE", "Gt", "GtE", "Is", "IsNot", "In", "NotIn"]
FIXES = ["prec", "lambda", "tuple0", "intattr", "genexp", "fconv", "fesc", "fglue", "fnest", "litroot"]
# members of _Precedence in ascending order -> level in the numbering of ast._Precedence (Model/C03_expr.v: P_*)
PREC_LEVELS = [("NONE", 0), ("YIELD", 3), ("TEST", 4), ("OR", 5), ("AND", 6), ("NOT", 7), ("CMP", 8), ("BOR", 9), ("BXOR", 10),
               ("BAND", 11), ("SHIFT", 12), ("ARITH", 13), ("TERM", 14), ("FACTOR", 15), ("POWER", 16), ("AWAIT", 17), ("ATOM", 18)]
NODES = ["Attribute", "Await", "BinOp", "BoolOp", "Call", "Compare", "comprehension", "Constant", "Dict", "DictComp",
         "FormattedValue", "GeneratorExp", "IfExp", "JoinedStr", "keyword", "Lambda", "List", "ListComp", "Name",
         "NamedExpr", "Set", "SetComp", "Slice", "Starred", "Subscript", "Tuple", "UnaryOp", "Yield", "YieldFrom"]
TABLES = {"_unary_op_map": ("unop_str", "unop", "U_", UNOPS), "_binary_op_map": ("binop_str", "binop", "B_", BINOPS),
          "_bool_op_map": ("boolop_str", "boolop", "L_", BOOLOPS), "_compare_op_map": ("cmpop_str", "cmpop", "C_", CMPOPS)}


def coq_ctor(prefix: str, cls: str) -> str:
    if prefix == "N":
        return "N" + cls[0].upper() + cls[1:]
    return prefix + cls


def _ast_class(node, allowed) -> str:
    if isinstance(node, ast.Attribute) and isinstance(node.value, ast.Name) and node.value.id == "ast" and node.attr in allowed:
        return node.attr
    raise TranslatorError(f"table key outside the whitelist: {ast.unparse(node)}")


def _coq_string(s: str) -> str:
    if not all(32 <= ord(c) < 127 for c in s):
        raise TranslatorError(f"non-printable operator spelling {s!r}")
    return '"' + s.replace('"', '""') + '"'


def read_tables(path: Path | None = None) -> dict:
    src = (path or (REPO / "src/_griffe/expressions.py")).read_text()
    tree = ast.parse(src)
    found: dict[str, dict[str, str]] = {}
    for n in tree.body:
        if isinstance(n, ast.Assign) and len(n.targets) == 1 and isinstance(n.targets[0], ast.Name):
            name, value = n.targets[0].id, n.value
        elif isinstance(n, ast.AnnAssign) and isinstance(n.target, ast.Name) and n.value is not None:
            name, value = n.target.id, n.value
        else:
            continue
        if name not in TABLES and name != "_node_map":
            continue
        if name in found:
            raise TranslatorError(f"{name} assigned twice")
        if not isinstance(value, ast.Dict) or any(k is None for k in value.keys):
            raise TranslatorError(f"{name} is not a plain dict literal: {ast.unparse(value)[:120]}")
        allowed = NODES if name == "_node_map" else TABLES[name][3]
        table: dict[str, str] = {}
        for k, v in zip(value.keys, value.values):
            cls = _ast_class(k, allowed)
            if cls in table:
                raise TranslatorError(f"duplicate key ast.{cls} in {name}")
            if name == "_node_map":
                if not isinstance(v, ast.Name):
                    raise TranslatorError(f"_node_map[ast.{cls}] is not a function name: {ast.unparse(v)}")
                table[cls] = v.id
            else:
                if not (isinstance(v, ast.Constant) and isinstance(v.value, str)):
                    raise TranslatorError(f"{name}[ast.{cls}] is not a string constant: {ast.unparse(v)}")
                table[cls] = v.value
        found[name] = table
    missing = [t for t in list(TABLES) + ["_node_map"] if t not in found]
    if missing:
        raise TranslatorError(f"tables not found in expressions.py: {missing}")
    # _build must still be the table lookup the model assumes: in_subscript is dropped for every node that is not a
    # tuple or a constant (Model/C03_expr.v: enter / keeps_insub), then the builder is looked up in _node_map
    fn = [n for n in tree.body if isinstance(n, ast.FunctionDef) and n.name == "_build"]
    if len(fn) != 1:
        raise TranslatorError("_build not found")
    body = [s for s in fn[0].body if not (isinstance(s, ast.Expr) and isinstance(s.value, ast.Constant))]
    expected = ["if not isinstance(node, (ast.Tuple, ast.Constant)):\n    kwargs.pop('in_subscript', None)",
                "return _node_map[type(node)](node, parent, **kwargs)"]
    if [ast.unparse(b) for b in body] != expected:
        raise TranslatorError("_build is no longer `drop in_subscript unless Tuple/Constant; return _node_map[type(node)](node, parent, **kwargs)`: "
                              + " | ".join(ast.unparse(b) for b in body)[:300])
    return found


def _strip_doc(fn):
    return [st for st in fn.body if not (isinstance(st, ast.Expr) and isinstance(st.value, ast.Constant) and isinstance(st.value.value, str))]


def _text(fn) -> str:
    return "\n".join(ast.unparse(st) for st in _strip_doc(fn))


_UNDECIDED: list = []


def _decide(name: str, new: bool, old: bool) -> bool:
    if new == old:
        _UNDECIDED.append(f"repair '{name}': " + ("both the repaired and the unrepaired shape" if new else "neither the repaired nor the unrepaired shape")
                          + " recognised in expressions.py")
        return True      # lenient callers judge the tree against the repaired behaviour (the one the property asks for)
    return new


def read_fixes(path: Path | None = None, lenient: bool = False) -> tuple[dict, list]:
    """-> ({fix name: bool}, [(operator spelling, model level)...]). A repair whose marker is ambiguous raises
    TranslatorError, unless lenient (then it counts as present and the messages are left in read_fixes.undecided)."""
    del _UNDECIDED[:]
    tree = ast.parse((path or (REPO / "src/_griffe/expressions.py")).read_text())
    funcs = {n.name: n for n in tree.body if isinstance(n, ast.FunctionDef)}
    classes = {n.name: n for n in tree.body if isinstance(n, ast.ClassDef)}

    def method(cls: str, name: str = "iterate"):
        c = classes.get(cls)
        ms = [m for m in (c.body if c else []) if isinstance(m, ast.FunctionDef) and m.name == name]
        if len(ms) != 1:
            raise TranslatorError(f"{cls}.{name} not found")
        return ms[0]

    def params(fn):
        return [a.arg for a in fn.args.posonlyargs + fn.args.args + fn.args.kwonlyargs]

    for f in ("_yield", "_join", "_build_constant", "_build_joinedstr", "_build_subscript", "_build_formatted"):
        if f not in funcs:
            raise TranslatorError(f"{f} not found")
    fixes = {}
    # precedence machinery: all of (_Precedence, _precedence, _yield(precedence=), _join(precedence=)) or none of them
    marks = ["_Precedence" in classes, "_precedence" in funcs, "precedence" in params(funcs["_yield"]), "precedence" in params(funcs["_join"])]
    fixes["prec"] = _decide("prec", all(marks), not any(marks))
    lam = _text(method("ExprLambda"))
    fixes["lambda"] = _decide("lambda", "yield ', /'" in lam, "pos_or_kw" in lam)
    tup = _text(method("ExprTuple"))
    fixes["tuple0"] = _decide("tuple0", "not self.elements" in tup, tup.count("if not self.implicit:") == 2)
    att = _text(method("ExprAttribute"))
    fixes["intattr"] = _decide("intattr", ".isdecimal()" in att, "isdecimal" not in att and "(" not in att.replace("_join(", "").replace("_yield(", ""))
    gen = _strip_doc(method("ExprGeneratorExp"))
    first = ast.unparse(gen[0]) if gen else ""
    call = _text(method("ExprCall"))
    fixes["genexp"] = _decide("genexp", first == "yield '('" and "ExprGeneratorExp" in call, first.startswith("yield from _yield(self.element") and "ExprGeneratorExp" not in call)
    ffields = [st.target.id for st in classes["ExprFormatted"].body if isinstance(st, ast.AnnAssign) and isinstance(st.target, ast.Name)] if "ExprFormatted" in classes else None
    if ffields is None:
        raise TranslatorError("class ExprFormatted not found")
    fixes["fconv"] = _decide("fconv", ffields == ["value", "conversion", "format_spec"], ffields == ["value"])
    fmt = _text(method("ExprFormatted"))
    fixes["fglue"] = _decide("fglue", ".startswith('{')" in fmt, "startswith" not in fmt)
    # _build_constant: what is returned for the literal text of an f-string
    rets = [st for n in ast.walk(funcs["_build_constant"]) if isinstance(n, ast.If) and ast.unparse(n.test) == "in_joined_str and (not in_formatted_str)"
            for st in n.body if isinstance(st, ast.Return)]
    if len(rets) != 1:
        raise TranslatorError("_build_constant: the `in_joined_str and not in_formatted_str` branch is not understood")
    r = ast.unparse(rets[0].value)
    fixes["fesc"] = _decide("fesc", r == "repr(node.value + '\"')[1:-2].replace('{', '{{').replace('}', '}}')", r == "node.value")
    pj = params(funcs["_build_joinedstr"])
    fixes["fnest"] = _decide("fnest", "in_formatted_str" in pj, pj == ["node", "parent", "in_joined_str"])
    sub = _text(funcs["_build_subscript"])
    fixes["litroot"] = _decide("litroot", "left.first" in sub, "isinstance(left, (ExprAttribute, ExprName)) and left.canonical_path in" in sub)
    read_fixes.undecided = list(_UNDECIDED)
    if _UNDECIDED and not lenient:
        raise TranslatorError("; ".join(_UNDECIDED))
    if fixes["fglue"] and not fixes["prec"] and not lenient:
        raise TranslatorError("repair 'fglue' without the precedence machinery it relies on")
    # the precedence table
    table = []
    if fixes["prec"] and all(marks):
        members = [st.targets[0].id for st in classes["_Precedence"].body if isinstance(st, ast.Assign) and len(st.targets) == 1 and isinstance(st.targets[0], ast.Name)]
        values = [st.value.value for st in classes["_Precedence"].body if isinstance(st, ast.Assign) and isinstance(st.value, ast.Constant)]
        if members != [m for m, _ in PREC_LEVELS] or values != sorted(values) or len(set(values)) != len(values) or len(values) != len(members):
            raise TranslatorError(f"_Precedence members are not the expected ascending levels: {members}")
        level = dict(PREC_LEVELS)
        dicts = [n for n in tree.body if isinstance(n, ast.Assign) and len(n.targets) == 1 and isinstance(n.targets[0], ast.Name) and n.targets[0].id == "_binary_op_precedence"]
        if len(dicts) != 1 or not isinstance(dicts[0].value, ast.Dict):
            raise TranslatorError("_binary_op_precedence is not a plain dict literal")
        for k, v in zip(dicts[0].value.keys, dicts[0].value.values):
            if not (isinstance(k, ast.Constant) and isinstance(k.value, str) and isinstance(v, ast.Attribute) and isinstance(v.value, ast.Name)
                    and v.value.id == "_Precedence" and v.attr in level):
                raise TranslatorError("_binary_op_precedence entry not understood: " + ast.unparse(k) + ": " + ast.unparse(v))
            if any(k.value == o for o, _ in table):
                raise TranslatorError(f"duplicate operator {k.value!r} in _binary_op_precedence")
            table.append((k.value, level[v.attr]))
    return fixes, table


# ---------------------------------------------------------------- operand requirements of every Expr*.iterate, and _precedence
# (class, text of the yielded thing, ordinal among the calls with that text) -> name of the generated Coq constant
SLOTS = {
    ("ExprAttribute", "values", 0): "rq_Attribute_values",
    ("ExprCall", "self.function", 0): "rq_Call_function", ("ExprCall", "self.arguments[0]", 0): "rq_Call_sole_genexp",
    ("ExprCall", "self.arguments", 0): "rq_Call_arguments",
    ("ExprCompare", "self.left", 0): "rq_Compare_left",
    ("ExprCompare", "zip_longest(self.operators, [], self.comparators, fillvalue=' ')", 0): "rq_Compare_comparators",
    ("ExprComprehension", "self.target", 0): "rq_Comprehension_target", ("ExprComprehension", "self.iterable", 0): "rq_Comprehension_iterable",
    ("ExprComprehension", "self.conditions", 0): "rq_Comprehension_conditions",
    ("ExprDict", "value", 0): "rq_Dict_unpacked", ("ExprDict", "key", 0): "rq_Dict_key", ("ExprDict", "value", 1): "rq_Dict_value",
    ("ExprDictComp", "self.key", 0): "rq_DictComp_key", ("ExprDictComp", "self.value", 0): "rq_DictComp_value",
    ("ExprDictComp", "self.generators", 0): "rq_DictComp_generators",
    ("ExprExtSlice", "self.dims", 0): None,      # never instantiated by the builders: not modelled
    ("ExprFormatted", "self.value", 0): "rq_Formatted_value", ("ExprFormatted", "self.format_spec.values", 0): "rq_Formatted_spec_values",
    ("ExprFormatted", "self.format_spec", 0): "rq_Formatted_spec",
    ("ExprGeneratorExp", "self.element", 0): "rq_GeneratorExp_element", ("ExprGeneratorExp", "self.generators", 0): "rq_GeneratorExp_generators",
    ("ExprIfExp", "self.body", 0): "rq_IfExp_body", ("ExprIfExp", "self.test", 0): "rq_IfExp_test", ("ExprIfExp", "self.orelse", 0): "rq_IfExp_orelse",
    ("ExprJoinedStr", "self.values", 0): "rq_JoinedStr_values",
    ("ExprKeyword", "self.value", 0): "rq_Keyword_value", ("ExprVarPositional", "self.value", 0): "rq_VarPositional_value",
    ("ExprVarKeyword", "self.value", 0): "rq_VarKeyword_value",
    ("ExprLambda", "parameter.default", 0): "rq_Lambda_default", ("ExprLambda", "self.body", 0): "rq_Lambda_body",
    ("ExprList", "self.elements", 0): "rq_List_elements",
    ("ExprListComp", "self.element", 0): "rq_ListComp_element", ("ExprListComp", "self.generators", 0): "rq_ListComp_generators",
    ("ExprNamedExpr", "self.target", 0): "rq_NamedExpr_target", ("ExprNamedExpr", "self.value", 0): "rq_NamedExpr_value",
    ("ExprSet", "self.elements", 0): "rq_Set_elements",
    ("ExprSetComp", "self.element", 0): "rq_SetComp_element", ("ExprSetComp", "self.generators", 0): "rq_SetComp_generators",
    ("ExprSlice", "self.lower", 0): "rq_Slice_lower", ("ExprSlice", "self.upper", 0): "rq_Slice_upper", ("ExprSlice", "self.step", 0): "rq_Slice_step",
    ("ExprSubscript", "self.left", 0): "rq_Subscript_left", ("ExprSubscript", "self.slice", 0): "rq_Subscript_slice",
    ("ExprTuple", "self.elements", 0): "rq_Tuple_elements",
    ("ExprYield", "self.value", 0): "rq_Yield_value", ("ExprYieldFrom", "self.value", 0): "rq_YieldFrom_value",
}
# operand requirements that are computed from the node's own level: pinned text -> (constant, value)
RELATIVE = {("ExprBoolOp", "self.values", 0): ("_Precedence(_precedence(self) + 1)", "rq_BoolOp_values_above_own", 1),
            ("ExprUnaryOp", "self.value", 0): ("_precedence(self)", "rq_UnaryOp_value_above_own", 0)}
BINOP_BODY = ["precedence = _precedence(self)",
              "if self.operator == '**':\n    left, right = (_Precedence.{L}, _Precedence.{R})\nelse:\n    left, right = (precedence, _Precedence(min(precedence + 1, _Precedence.ATOM)))",
              "yield from _yield(self.left, flat=flat, precedence=left)", "yield f' {self.operator} '",
              "yield from _yield(self.right, flat=flat, precedence=right)"]


def _level(node, level) -> int:
    if node is None:
        return level["NONE"]
    if isinstance(node, ast.Attribute) and isinstance(node.value, ast.Name) and node.value.id == "_Precedence" and node.attr in level:
        return level[node.attr]
    raise TranslatorError("precedence argument not understood: " + ast.unparse(node))


def read_requirements(path: Path | None = None) -> list:
    """-> [(coq constant, number or string, comment)] : the precedence every Expr*.iterate requires of each operand it yields,
    and what _precedence answers for each class. Every call `_yield(x, precedence=P)` / `_join(xs, sep, precedence=P)` of every
    iterate method must be one of the known slots (a new, missing or renamed one = TranslatorError), P must be a member of
    _Precedence (absent = NONE) or, for ExprBoolOp / ExprUnaryOp / ExprBinOp, the pinned expression over the node's own level."""
    tree = ast.parse((path or (REPO / "src/_griffe/expressions.py")).read_text())
    level = dict(PREC_LEVELS)
    out, seen = [], set()
    for cls in [n for n in tree.body if isinstance(n, ast.ClassDef) and n.name.startswith("Expr")]:
        for m in [m for m in cls.body if isinstance(m, ast.FunctionDef) and m.name == "iterate"]:
            if cls.name == "ExprBinOp":
                body = [ast.unparse(st) for st in _strip_doc(m)]
                got = None
                for L in level:
                    for R in level:
                        if body == [b.replace("{L}", L).replace("{R}", R) if "{L}" in b else b for b in BINOP_BODY]:
                            got = (L, R)
                if got is None:
                    raise TranslatorError("ExprBinOp.iterate is no longer `own level on the left, own level + 1 on the right, two fixed levels for **`: " + " | ".join(body)[:300])
                out.append(("rq_BinOp_pow_left", level[got[0]], "left operand of **"))
                out.append(("rq_BinOp_pow_right", level[got[1]], "right operand of **"))
                continue
            calls = sorted([n for n in ast.walk(m) if isinstance(n, ast.Call) and isinstance(n.func, ast.Name) and n.func.id in ("_yield", "_join")],
                           key=lambda n: (n.lineno, n.col_offset))
            count: dict = {}
            for c in calls:
                arg = ast.unparse(c.args[0])
                if c.func.id == "_join" and len(c.args) == 2 and isinstance(c.args[1], ast.Constant) and arg in ("values", "self.values", "self.elements") and False:
                    pass
                key = (cls.name, arg, count.get(arg, 0))
                count[arg] = count.get(arg, 0) + 1
                prec = next((k.value for k in c.keywords if k.arg == "precedence"), None)
                if key in RELATIVE:
                    text, name, val = RELATIVE[key]
                    if prec is None or ast.unparse(prec) != text:
                        raise TranslatorError(f"{cls.name}.iterate: requirement of {arg} is no longer `{text}`")
                    out.append((name, val, f"{cls.name}: {arg} at own level + {val}"))
                elif key in SLOTS:
                    if SLOTS[key] is not None:
                        out.append((SLOTS[key], _level(prec, level), f"{cls.name}: {arg}"))
                else:
                    raise TranslatorError(f"{cls.name}.iterate yields an operand the model does not know: {arg} (#{key[2]})")
                seen.add(key)
    missing = [k for k in list(SLOTS) + list(RELATIVE) if k not in seen]
    if missing:
        raise TranslatorError(f"operand slots no longer found in the iterate methods: {missing[:4]}")
    # _precedence
    fn = [n for n in tree.body if isinstance(n, ast.FunctionDef) and n.name == "_precedence"]
    if len(fn) != 1:
        raise TranslatorError("_precedence not found")
    body = _strip_doc(fn[0])
    want = {"ExprBinOp": "binop", "ExprBoolOp": "boolop", "ExprUnaryOp": "unaryop", "ExprCompare": "pr_Compare", "ExprIfExp": "pr_IfExp",
            "ExprLambda": "pr_Lambda", "ExprYield": "pr_Yield", "ExprYieldFrom": "pr_YieldFrom"}
    got = {}
    for st in body[:-1]:
        t = st.test if isinstance(st, ast.If) else None
        if not (t is not None and not st.orelse and len(st.body) == 1 and isinstance(st.body[0], ast.Return) and isinstance(t, ast.Call)
                and isinstance(t.func, ast.Name) and t.func.id == "isinstance" and ast.unparse(t.args[0]) == "element"):
            raise TranslatorError("_precedence: statement not understood: " + ast.unparse(st)[:120])
        names = [e.id for e in (t.args[1].elts if isinstance(t.args[1], ast.Tuple) else [t.args[1]])]
        for nme in names:
            if nme in got or nme not in want:
                raise TranslatorError(f"_precedence: unexpected class {nme}")
            got[nme] = st.body[0].value
    if set(got) != set(want) or not isinstance(body[-1], ast.Return):
        raise TranslatorError(f"_precedence: classes {sorted(got)} instead of {sorted(want)}")
    out.append(("pr_default", _level(body[-1].value, level), "_precedence: everything else"))
    for cname, kind in want.items():
        v = got[cname]
        if kind == "binop":
            if not (isinstance(v, ast.Call) and ast.unparse(v.func) == "_binary_op_precedence.get" and ast.unparse(v.args[0]) == "element.operator"):
                raise TranslatorError("_precedence(ExprBinOp) is no longer a lookup in _binary_op_precedence")
            out.append(("pr_binop_default", _level(v.args[1], level), "_precedence(ExprBinOp): operator not in the table"))
        elif kind in ("boolop", "unaryop"):
            if not (isinstance(v, ast.IfExp) and isinstance(v.test, ast.Compare) and ast.unparse(v.test.left) == "element.operator"
                    and len(v.test.ops) == 1 and isinstance(v.test.ops[0], ast.Eq) and isinstance(v.test.comparators[0], ast.Constant)):
                raise TranslatorError(f"_precedence({cname}) not understood: " + ast.unparse(v))
            a, b2 = ("pr_BoolOp_if", "pr_BoolOp_else") if kind == "boolop" else ("pr_UnaryOp_if", "pr_UnaryOp_else")
            out.append((a, _level(v.body, level), f"_precedence({cname}) when the operator is ..."))
            out.append((a + "_operator", v.test.comparators[0].value, "... this one"))
            out.append((b2, _level(v.orelse, level), f"_precedence({cname}) otherwise"))
        else:
            out.append((kind, _level(v, level), f"_precedence({cname})"))
    return out


def render(found: dict, fixes: dict | None = None, table: list | None = None, reqs: list | None = None) -> str:
    out = ["(* GENERATED by harness/translate/c03_tables.py from /repo/src/_griffe/expressions.py -- do not edit *)",
           "From Coq Require Import String List.", "From Verif Require Import Model.C03_ops.", "Import ListNotations.", "Open Scope string_scope.", ""]
    for pyname, (coqname, ty, prefix, classes) in TABLES.items():
        out.append(f"(* {pyname} *)")
        out.append(f"Definition {coqname} (o : {ty}) : option string :=")
        out.append("  match o with")
        for c in classes:
            v = found[pyname].get(c)
            out.append(f"  | {coq_ctor(prefix, c)} => " + ("None" if v is None else f"Some {_coq_string(v)}"))
        out.append("  end.")
        out.append("")
    out.append("(* _node_map: ast class -> builder function *)")
    out.append("Definition node_builder (k : nodekind) : option string :=")
    out.append("  match k with")
    for c in NODES:
        v = found["_node_map"].get(c)
        out.append(f"  | {coq_ctor('N', c)} => " + ("None" if v is None else f"Some {_coq_string(v)}"))
    out.append("  end.")
    out.append("")
    fixes = fixes or {f: False for f in FIXES}
    out.append("(* repairs detected in expressions.py: " + ", ".join(f"{f}={'yes' if fixes[f] else 'no'}" for f in FIXES) + " *)")
    out.append("Definition tree_fixes : fixes := mkFx " + " ".join("true" if fixes[f] else "false" for f in FIXES) + ".")
    out.append("")
    out.append("(* _binary_op_precedence: operator spelling -> level (numbering of ast._Precedence); empty without the precedence repair *)")
    out.append("Definition gen_binop_prec : list (string * nat) :=")
    out.append("  [" + "; ".join(f"({_coq_string(o)}, {lv})" for o, lv in (table or [])) + "].")
    out.append("")
    out.append("(* the precedence each Expr*.iterate requires of the operands it yields (keyword `precedence=` of its _yield / _join calls),")
    out.append("   and what _precedence answers for each class: the model's iterate / gprec are defined over these constants *)")
    for name, val, comment in (reqs or []):
        if isinstance(val, str):
            out.append(f"Definition {name} : string := {_coq_string(val)}.   (* {comment} *)")
        else:
            out.append(f"Definition {name} : nat := {val}.   (* {comment} *)")
    out.append("")
    return "\n".join(out)


def translate(ctx=None, required=()) -> Path:
    fixes, table = read_fixes()
    missing = [f for f in required if not fixes[f]]
    if missing:
        # the generated tables keep describing the repaired printer: what the tree now does wrong is then reported as a
        # violation with a failing input instead of being followed by the model
        raise TranslatorError(f"repairs that landed are no longer detected in expressions.py: {missing}")
    text = render(read_tables(), fixes, table, read_requirements())
    p = VERIF / "coq/Gen/C03_tables.v"
    if not p.exists() or p.read_text() != text:
        p.write_text(text)
    return p


if __name__ == "__main__":
    print(translate().read_text())
