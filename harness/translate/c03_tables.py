"""(T) translator for C03: regenerates coq/Gen/C03_tables.v from /repo/src/_griffe/expressions.py.

Translated (as *values*, so reordering/reformatting the dict literals changes nothing):
  _unary_op_map, _binary_op_map, _bool_op_map, _compare_op_map : ast operator class -> spelling
  _node_map                                                   : ast node class -> name of the builder function
Fail closed: a key that is not `ast.<Class>` with <Class> in the fixed Python 3.12 vocabulary (Model/C03_ops.v), a value
that is not a string constant / a plain function name, a missing table, or a duplicated key raises TranslatorError.
A class absent from a table becomes `None` (the KeyError `_build` / `_build_*` would raise).

Also translated:
  tree_fixes            : which of the rendering repairs the tree contains, each detected by a small syntactic marker of the
                          repaired code AND the matching marker of the unrepaired code (neither or both -> TranslatorError)
  gen_binop_prec        : _binary_op_precedence (operator spelling -> level of _Precedence, mapped by member NAME to the
                          numbering of ast._Precedence used by the model); empty when the tree has no precedence machinery.
                          The order of the members of _Precedence is pinned (the model compares levels with <).
"""
from __future__ import annotations

import ast
from pathlib import Path

from harness.common.framework import REPO, VERIF, TranslatorError

UNOPS = ["Invert", "Not", "UAdd", "USub"]
BINOPS = ["Add", "Sub", "Mult", "MatMult", "Div", "Mod", "Pow", "LShift", "RShift", "BitOr", "BitXor", "BitAnd", "FloorDiv"]
BOOLOPS = ["And", "Or"]
CMPOPS = ["Eq", "NotEq", "Lt", "LtE", "Gt", "GtE", "Is", "IsNot", "In", "NotIn"]
FIXES = ["prec", "lambda", "tuple0", "intattr", "genexp", "fconv", "fesc", "fglue", "fnest", "litroot"]
# members of _Precedence in ascending order -> level in the numbering of ast._Precedence (Model/C03_expr.v: P_*)
PREC_LEVELS = [("NONE", 0), ("YIELD", 3), ("TEST", 4), ("OR", 5), ("AND", 6), ("NOT", 7), ("CMP", 8), ("BOR", 9), ("BXOR", 10),
               ("BAND", 11), ("SHIFT", 12), ("ARITH", 13), ("TERM", 14), ("FACTOR", 15), ("POWER", 16), ("AWAIT", 17), ("ATOM", 18)]
NODES = ["Attribute", "Await", "BinOp", "BoolOp", "Call", "Compare", "comprehension", "Constant", "Dict", "DictComp",
         "FormattedValue", "GeneratorExp", "IfExp", "JoinedStr", "keyword", "Lambda", "List", "ListComp", "Name",
         "NamedExpr", "Set", "SetComp", "Slice", "Starred", "Subscript", "Tuple", "UnaryOp", "Yield", "YieldFrom"]
TABLES = {"_unary_op_map": ("unop_str", "unop", "U_", UNOPS), "_binary_op_map": ("binop_str", "binop", "B_", BINOPS),
          "_bool_op_map": ("boolop_str", "boolop", "L_", BOOLOPS), "_compare_op_map": ("cmpop_str", "cmpop", "C_", CMPOPS)}


def coq_ctor(prefix: str, cls: str) -> str:
    if prefix == "N":
        return "N" + cls[0].upper() + cls[1:]
    return prefix + cls


def _ast_class(node, allowed) -> str:
    if isinstance(node, ast.Attribute) and isinstance(node.value, ast.Name) and node.value.id == "ast" and node.attr in allowed:
        return node.attr
    raise TranslatorError(f"table key outside the whitelist: {ast.unparse(node)}")


def _coq_string(s: str) -> str:
    if not all(32 <= ord(c) < 127 for c in s):
        raise TranslatorError(f"non-printable operator spelling {s!r}")
    return '"' + s.replace('"', '""') + '"'


def read_tables(path: Path | None = None) -> dict:
    src = (path or (REPO / "src/_griffe/expressions.py")).read_text()
    tree = ast.parse(src)
    found: dict[str, dict[str, str]] = {}
    for n in tree.body:
        if isinstance(n, ast.Assign) and len(n.targets) == 1 and isinstance(n.targets[0], ast.Name):
            name, value = n.targets[0].id, n.value
        elif isinstance(n, ast.AnnAssign) and isinstance(n.target, ast.Name) and n.value is not None:
            name, value = n.target.id, n.value
        else:
            continue
        if name not in TABLES and name != "_node_map":
            continue
        if name in found:
            raise TranslatorError(f"{name} assigned twice")
        if not isinstance(value, ast.Dict) or any(k is None for k in value.keys):
            raise TranslatorError(f"{name} is not a plain dict literal: {ast.unparse(value)[:120]}")
        allowed = NODES if name == "_node_map" else TABLES[name][3]
        table: dict[str, str] = {}
        for k, v in zip(value.keys, value.values):
            cls = _ast_class(k, allowed)
            if cls in table:
                raise TranslatorError(f"duplicate key ast.{cls} in {name}")
            if name == "_node_map":
                if not isinstance(v, ast.Name):
                    raise TranslatorError(f"_node_map[ast.{cls}] is not a function name: {ast.unparse(v)}")
                table[cls] = v.id
            else:
                if not (isinstance(v, ast.Constant) and isinstance(v.value, str)):
                    raise TranslatorError(f"{name}[ast.{cls}] is not a string constant: {ast.unparse(v)}")
                table[cls] = v.value
        found[name] = table
    missing = [t for t in list(TABLES) + ["_node_map"] if t not in found]
    if missing:
        raise TranslatorError(f"tables not found in expressions.py: {missing}")
    # _build must still be the table lookup the model assumes: in_subscript is dropped for every node that is not a
    # tuple or a constant (Model/C03_expr.v: enter / keeps_insub), then the builder is looked up in _node_map
    fn = [n for n in tree.body if isinstance(n, ast.FunctionDef) and n.name == "_build"]
    if len(fn) != 1:
        raise TranslatorError("_build not found")
    body = [s for s in fn[0].body if not (isinstance(s, ast.Expr) and isinstance(s.value, ast.Constant))]
    expected = ["if not isinstance(node, (ast.Tuple, ast.Constant)):\n    kwargs.pop('in_subscript', None)",
                "return _node_map[type(node)](node, parent, **kwargs)"]
    if [ast.unparse(b) for b in body] != expected:
        raise TranslatorError("_build is no longer `drop in_subscript unless Tuple/Constant; return _node_map[type(node)](node, parent, **kwargs)`: "
                              + " | ".join(ast.unparse(b) for b in body)[:300])
    return found


def _strip_doc(fn):
    return [st for st in fn.body if not (isinstance(st, ast.Expr) and isinstance(st.value, ast.Constant) and isinstance(st.value.value, str))]


def _text(fn) -> str:
    return "\n".join(ast.unparse(st) for st in _strip_doc(fn))


_UNDECIDED: list = []


def _decide(name: str, new: bool, old: bool) -> bool:
    if new == old:
        _UNDECIDED.append(f"repair '{name}': " + ("both the repaired and the unrepaired shape" if new else "neither the repaired nor the unrepaired shape")
                          + " recognised in expressions.py")
        return True      # lenient callers judge the tree against the repaired behaviour (the one the property asks for)
    return new


def read_fixes(path: Path | None = None, lenient: bool = False) -> tuple[dict, list]:
    """-> ({fix name: bool}, [(operator spelling, model level)...]). A repair whose marker is ambiguous raises
    TranslatorError, unless lenient (then it counts as present and the messages are left in read_fixes.undecided)."""
    del _UNDECIDED[:]
    tree = ast.parse((path or (REPO / "src/_griffe/expressions.py")).read_text())
    funcs = {n.name: n for n in tree.body if isinstance(n, ast.FunctionDef)}
    classes = {n.name: n for n in tree.body if isinstance(n, ast.ClassDef)}

    def method(cls: str, name: str = "iterate"):
        c = classes.get(cls)
        ms = [m for m in (c.body if c else []) if isinstance(m, ast.FunctionDef) and m.name == name]
        if len(ms) != 1:
            raise TranslatorError(f"{cls}.{name} not found")
        return ms[0]

    def params(fn):
        return [a.arg for a in fn.args.posonlyargs + fn.args.args + fn.args.kwonlyargs]

    for f in ("_yield", "_join", "_build_constant", "_build_joinedstr", "_build_subscript", "_build_formatted"):
        if f not in funcs:
            raise TranslatorError(f"{f} not found")
    fixes = {}
    # precedence machinery: all of (_Precedence, _precedence, _yield(precedence=), _join(precedence=)) or none of them
    marks = ["_Precedence" in classes, "_precedence" in funcs, "precedence" in params(funcs["_yield"]), "precedence" in params(funcs["_join"])]
    fixes["prec"] = _decide("prec", all(marks), not any(marks))
    lam = _text(method("ExprLambda"))
    fixes["lambda"] = _decide("lambda", "yield ', /'" in lam, "pos_or_kw" in lam)
    tup = _text(method("ExprTuple"))
    fixes["tuple0"] = _decide("tuple0", "not self.elements" in tup, tup.count("if not self.implicit:") == 2)
    att = _text(method("ExprAttribute"))
    fixes["intattr"] = _decide("intattr", ".isdecimal()" in att, "isdecimal" not in att and "(" not in att.replace("_join(", "").replace("_yield(", ""))
    gen = _strip_doc(method("ExprGeneratorExp"))
    first = ast.unparse(gen[0]) if gen else ""
    call = _text(method("ExprCall"))
    fixes["genexp"] = _decide("genexp", first == "yield '('" and "ExprGeneratorExp" in call, first.startswith("yield from _yield(self.element") and "ExprGeneratorExp" not in call)
    ffields = [st.target.id for st in classes["ExprFormatted"].body if isinstance(st, ast.AnnAssign) and isinstance(st.target, ast.Name)] if "ExprFormatted" in classes else None
    if ffields is None:
        raise TranslatorError("class ExprFormatted not found")
    fixes["fconv"] = _decide("fconv", ffields == ["value", "conversion", "format_spec"], ffields == ["value"])
    fmt = _text(method("ExprFormatted"))
    fixes["fglue"] = _decide("fglue", ".startswith('{')" in fmt, "startswith" not in fmt)
    # _build_constant: what is returned for the literal text of an f-string
    rets = [st for n in ast.walk(funcs["_build_constant"]) if isinstance(n, ast.If) and ast.unparse(n.test) == "in_joined_str and (not in_formatted_str)"
            for st in n.body if isinstance(st, ast.Return)]
    if len(rets) != 1:
        raise TranslatorError("_build_constant: the `in_joined_str and not in_formatted_str` branch is not understood")
    r = ast.unparse(rets[0].value)
    fixes["fesc"] = _decide("fesc", r == "repr(node.value + '\"')[1:-2].replace('{', '{{').replace('}', '}}')", r == "node.value")
    pj = params(funcs["_build_joinedstr"])
    fixes["fnest"] = _decide("fnest", "in_formatted_str" in pj, pj == ["node", "parent", "in_joined_str"])
    sub = _text(funcs["_build_subscript"])
    fixes["litroot"] = _decide("litroot", "left.first" in sub, "isinstance(left, (ExprAttribute, ExprName)) and left.canonical_path in" in sub)
    read_fixes.undecided = list(_UNDECIDED)
    if _UNDECIDED and not lenient:
        raise TranslatorError("; ".join(_UNDECIDED))
    if fixes["fglue"] and not fixes["prec"] and not lenient:
        raise TranslatorError("repair 'fglue' without the precedence machinery it relies on")
    # the precedence table
    table = []
    if fixes["prec"] and all(marks):
        members = [st.targets[0].id for st in classes["_Precedence"].body if isinstance(st, ast.Assign) and len(st.targets) == 1 and isinstance(st.targets[0], ast.Name)]
        values = [st.value.value for st in classes["_Precedence"].body if isinstance(st, ast.Assign) and isinstance(st.value, ast.Constant)]
        if members != [m for m, _ in PREC_LEVELS] or values != sorted(values) or len(set(values)) != len(values) or len(values) != len(members):
            raise TranslatorError(f"_Precedence members are not the expected ascending levels: {members}")
        level = dict(PREC_LEVELS)
        dicts = [n for n in tree.body if isinstance(n, ast.Assign) and len(n.targets) == 1 and isinstance(n.targets[0], ast.Name) and n.targets[0].id == "_binary_op_precedence"]
        if len(dicts) != 1 or not isinstance(dicts[0].value, ast.Dict):
            raise TranslatorError("_binary_op_precedence is not a plain dict literal")
        for k, v in zip(dicts[0].value.keys, dicts[0].value.values):
            if not (isinstance(k, ast.Constant) and isinstance(k.value, str) and isinstance(v, ast.Attribute) and isinstance(v.value, ast.Name)
                    and v.value.id == "_Precedence" and v.attr in level):
                raise TranslatorError("_binary_op_precedence entry not understood: " + ast.unparse(k) + ": " + ast.unparse(v))
            if any(k.value == o for o, _ in table):
                raise TranslatorError(f"duplicate operator {k.value!r} in _binary_op_precedence")
            table.append((k.value, level[v.attr]))
    return fixes, table


def render(found: dict, fixes: dict | None = None, table: list | None = None) -> str:
    out = ["(* GENERATED by harness/translate/c03_tables.py from /repo/src/_griffe/expressions.py -- do not edit *)",
           "From Coq Require Import String List.", "From Verif Require Import Model.C03_ops.", "Import ListNotations.", "Open Scope string_scope.", ""]
    for pyname, (coqname, ty, prefix, classes) in TABLES.items():
        out.append(f"(* {pyname} *)")
        out.append(f"Definition {coqname} (o : {ty}) : option string :=")
        out.append("  match o with")
        for c in classes:
            v = found[pyname].get(c)
            out.append(f"  | {coq_ctor(prefix, c)} => " + ("None" if v is None else f"Some {_coq_string(v)}"))
        out.append("  end.")
        out.append("")
    out.append("(* _node_map: ast class -> builder function *)")
    out.append("Definition node_builder (k : nodekind) : option string :=")
    out.append("  match k with")
    for c in NODES:
        v = found["_node_map"].get(c)
        out.append(f"  | {coq_ctor('N', c)} => " + ("None" if v is None else f"Some {_coq_string(v)}"))
    out.append("  end.")
    out.append("")
    fixes = fixes or {f: False for f in FIXES}
    out.append("(* repairs detected in expressions.py: " + ", ".join(f"{f}={'yes' if fixes[f] else 'no'}" for f in FIXES) + " *)")
    out.append("Definition tree_fixes : fixes := mkFx " + " ".join("true" if fixes[f] else "false" for f in FIXES) + ".")
    out.append("")
    out.append("(* _binary_op_precedence: operator spelling -> level (numbering of ast._Precedence); empty without the precedence repair *)")
    out.append("Definition gen_binop_prec : list (string * nat) :=")
    out.append("  [" + "; ".join(f"({_coq_string(o)}, {lv})" for o, lv in (table or [])) + "].")
    out.append("")
    return "\n".join(out)


def translate(ctx=None, required=()) -> Path:
    fixes, table = read_fixes()
    missing = [f for f in required if not fixes[f]]
    if missing:
        # the generated tables keep describing the repaired printer: what the tree now does wrong is then reported as a
        # violation with a failing input instead of being followed by the model
        raise TranslatorError(f"repairs that landed are no longer detected in expressions.py: {missing}")
    text = render(read_tables(), fixes, table)
    p = VERIF / "coq/Gen/C03_tables.v"
    if not p.exists() or p.read_text() != text:
        p.write_text(text)
    return p


if __name__ == "__main__":
    print(translate().read_text())
