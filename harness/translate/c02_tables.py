"""(T) translator for C02: regenerates coq/Gen/C02_tables.v from the tree under test.

Fail closed: any source shape outside the whitelist raises TranslatorError.
Translated:
* enumerations.py `ParameterKind`: members in declaration order with their string values;
* agents/nodes/parameters.py `get_parameters`: the statement skeleton is matched block by block against templates
  (the reversed/zip_longest alignment expressions must be literally the modelled ones); extracted: the kind given to
  each source list (posonlyargs, args, vararg, kwonlyargs, kwarg), the default text of the two variadics, and the
  order in which the four blocks append to the result;
* agents/visitor.py: `builtin_decorators` / `stdlib_decorators` (which callable paths carry the label "property"),
  `typing_overload`, the accessor names tested in `get_base_property` and which attribute of the property each one
  sets in `handle_function`; the decision ladder of `handle_function` (early `if "property" in labels: ... return`,
  then the `if overload / elif property_function / else` chain, in whatever order they come), the set of scope kinds
  that keep pending overloads (both tests must name the same set), and -- matched against templates, fail closed --
  that the overload flag accumulates over all decorators, that an overload is appended to the pending list of its name,
  and that an implementation takes the pending list of its name and deletes the entry.
"""
from __future__ import annotations

import ast
from pathlib import Path

from harness.common.framework import REPO, VERIF, TranslatorError

KINDS = {"positional_only": "PO", "positional_or_keyword": "PK", "var_positional": "VP", "keyword_only": "KO", "var_keyword": "VK"}

T_POS_ASSIGN = """args_kinds_defaults: Iterable = reversed(
    (*zip_longest(reversed((*zip_longest(node.posonlyargs, [], fillvalue=ParameterKind.{k0}),
                            *zip_longest(node.args, [], fillvalue=ParameterKind.{k1}))),
                  reversed(node.defaults), fillvalue=None),))"""
T_POS_FOR = """for (arg, kind), arg_default in args_kinds_defaults:
    parameters.append((arg.arg, arg.annotation, kind, arg_default))"""
T_VARARG = """if node.vararg:
    parameters.append((node.vararg.arg, node.vararg.annotation, ParameterKind.{k}, {d!r}))"""
T_KW_ASSIGN = """kwargs_defaults: Iterable = reversed(
    (*zip_longest(reversed(node.kwonlyargs), reversed(node.kw_defaults), fillvalue=None),))"""
T_KW_FOR = """for kwarg, kwarg_default in kwargs_defaults:
    parameters.append((kwarg.arg, kwarg.annotation, ParameterKind.{k}, kwarg_default))"""
T_KWARG = """if node.kwarg:
    parameters.append((node.kwarg.arg, node.kwarg.annotation, ParameterKind.{k}, {d!r}))"""


def _dump(node) -> str:
    return ast.dump(node, annotate_fields=True, include_attributes=False)


def _tmpl(text: str) -> str:
    return _dump(ast.parse(text).body[0])


def _kind_attrs(node) -> list[str]:
    out = []
    for n in ast.walk(node):
        if isinstance(n, ast.Attribute) and isinstance(n.value, ast.Name) and n.value.id == "ParameterKind":
            if n.attr not in KINDS:
                raise TranslatorError(f"unknown ParameterKind member {n.attr}")
            out.append((n.lineno, n.col_offset, n.attr))
    return [a for _, _, a in sorted(out)]


def _str_consts(node) -> list[str]:
    out = [(n.lineno, n.col_offset, n.value) for n in ast.walk(node) if isinstance(n, ast.Constant) and isinstance(n.value, str)]
    return [v for _, _, v in sorted(out)]


def _coq_str(s: str) -> str:
    if any(ord(c) < 32 or ord(c) > 126 for c in s):
        raise TranslatorError(f"non-printable text in a table: {s!r}")
    return '"' + s.replace('"', '""') + '"'


def _parameter_kind() -> list[tuple[str, str]]:
    tree = ast.parse((REPO / "src/_griffe/enumerations.py").read_text())
    cls = [n for n in tree.body if isinstance(n, ast.ClassDef) and n.name == "ParameterKind"]
    if len(cls) != 1:
        raise TranslatorError("class ParameterKind not found in enumerations.py")
    bases = [ast.unparse(b) for b in cls[0].bases]
    if bases != ["str", "Enum"]:
        raise TranslatorError(f"ParameterKind bases are {bases}, expected (str, Enum)")
    members = []
    for st in cls[0].body:
        if isinstance(st, ast.Expr) and isinstance(st.value, ast.Constant) and isinstance(st.value.value, str):
            continue  # docstrings
        if (isinstance(st, ast.Assign) and len(st.targets) == 1 and isinstance(st.targets[0], ast.Name)
                and isinstance(st.value, ast.Constant) and isinstance(st.value.value, str)):
            if st.targets[0].id not in KINDS:
                raise TranslatorError(f"unexpected ParameterKind member {st.targets[0].id}")
            members.append((KINDS[st.targets[0].id], st.value.value))
            continue
        raise TranslatorError(f"unexpected statement in ParameterKind: {ast.unparse(st)[:80]}")
    if sorted(k for k, _ in members) != sorted(KINDS.values()):
        raise TranslatorError(f"ParameterKind members are {[k for k, _ in members]}")
    return members


def _get_parameters() -> dict:
    tree = ast.parse((REPO / "src/_griffe/agents/nodes/parameters.py").read_text())
    fn = [n for n in tree.body if isinstance(n, ast.FunctionDef) and n.name == "get_parameters"]
    if len(fn) != 1:
        raise TranslatorError("get_parameters not found in agents/nodes/parameters.py")
    if [a.arg for a in fn[0].args.args] != ["node"] or fn[0].args.vararg or fn[0].args.kwonlyargs or fn[0].args.kwarg or fn[0].decorator_list:
        raise TranslatorError("get_parameters no longer takes exactly (node)")
    out = {"order": []}
    have = set()
    body = list(fn[0].body)
    if body and isinstance(body[0], ast.Expr) and isinstance(body[0].value, ast.Constant):
        body = body[1:]
    if not body or _dump(body[0]) != _tmpl("parameters: ParametersType = []"):
        raise TranslatorError("get_parameters does not start with `parameters: ParametersType = []`")
    if _dump(body[-1]) != _dump(ast.parse("def f():\n    return parameters").body[0].body[0]):
        raise TranslatorError("get_parameters does not end with `return parameters`")
    for st in body[1:-1]:
        if isinstance(st, ast.AnnAssign) and st.value is None and isinstance(st.target, ast.Name):
            continue  # bare declarations `arg: ast.arg`
        d = _dump(st)
        ks, ss = _kind_attrs(st), _str_consts(st)
        if isinstance(st, ast.AnnAssign) and isinstance(st.target, ast.Name) and st.target.id == "args_kinds_defaults":
            if len(ks) != 2 or d != _tmpl(T_POS_ASSIGN.format(k0=ks[0], k1=ks[1])):
                raise TranslatorError("the posonlyargs/args/defaults alignment expression is not the modelled reversed/zip_longest form")
            out["posonly_kind"], out["args_kind"] = KINDS[ks[0]], KINDS[ks[1]]
            have.add("pos_assign")
        elif isinstance(st, ast.AnnAssign) and isinstance(st.target, ast.Name) and st.target.id == "kwargs_defaults":
            if ks or d != _tmpl(T_KW_ASSIGN):
                raise TranslatorError("the kwonlyargs/kw_defaults alignment expression is not the modelled reversed/zip_longest form")
            have.add("kw_assign")
        elif isinstance(st, ast.For) and d == _tmpl(T_POS_FOR):
            if "pos_assign" not in have:
                raise TranslatorError("positional loop before its alignment expression")
            out["order"].append("GPositional")
        elif isinstance(st, ast.For) and len(ks) == 1 and d == _tmpl(T_KW_FOR.format(k=ks[0])):
            if "kw_assign" not in have:
                raise TranslatorError("keyword-only loop before its alignment expression")
            out["kwonly_kind"] = KINDS[ks[0]]
            out["order"].append("GKwonly")
        elif isinstance(st, ast.If) and len(ks) == 1 and len(ss) == 1 and d == _tmpl(T_VARARG.format(k=ks[0], d=ss[0])):
            out["vararg_kind"], out["vararg_default"] = KINDS[ks[0]], ss[0]
            out["order"].append("GVararg")
        elif isinstance(st, ast.If) and len(ks) == 1 and len(ss) == 1 and d == _tmpl(T_KWARG.format(k=ks[0], d=ss[0])):
            out["kwarg_kind"], out["kwarg_default"] = KINDS[ks[0]], ss[0]
            out["order"].append("GKwarg")
        else:
            raise TranslatorError(f"get_parameters: statement outside the modelled skeleton at line {st.lineno}: {ast.unparse(st)[:120]}")
    if sorted(out["order"]) != sorted(["GPositional", "GVararg", "GKwonly", "GKwarg"]):
        raise TranslatorError(f"get_parameters blocks found: {out['order']}")
    return out


def _literal(tree, name: str):
    for n in tree.body:
        if isinstance(n, ast.Assign) and len(n.targets) == 1 and isinstance(n.targets[0], ast.Name) and n.targets[0].id == name:
            try:
                return ast.literal_eval(n.value)
            except ValueError as e:
                raise TranslatorError(f"{name} is not a literal: {e}") from e
    raise TranslatorError(f"{name} not found in visitor.py")


def _visitor_tables() -> dict:
    tree = ast.parse((REPO / "src/_griffe/agents/visitor.py").read_text())
    builtin = _literal(tree, "builtin_decorators")
    stdlib = _literal(tree, "stdlib_decorators")
    overload = _literal(tree, "typing_overload")
    if not (isinstance(builtin, dict) and all(isinstance(k, str) and isinstance(v, str) for k, v in builtin.items())):
        raise TranslatorError("builtin_decorators is not a dict str -> str")
    if not (isinstance(stdlib, dict) and all(isinstance(k, str) and isinstance(v, set) for k, v in stdlib.items())):
        raise TranslatorError("stdlib_decorators is not a dict str -> set")
    if not (isinstance(overload, set) and all(isinstance(k, str) for k in overload)):
        raise TranslatorError("typing_overload is not a set of str")
    # decorators_to_labels: builtin first, `elif` stdlib
    prop = [k for k, v in builtin.items() if v == "property"] + [k for k, v in stdlib.items() if k not in builtin and "property" in v]
    cls = [n for n in tree.body if isinstance(n, ast.ClassDef) and n.name == "Visitor"]
    if len(cls) != 1:
        raise TranslatorError("class Visitor not found")
    meths = {n.name: n for n in cls[0].body if isinstance(n, ast.FunctionDef)}
    for m in ("get_base_property", "handle_function", "decorators_to_labels"):
        if m not in meths:
            raise TranslatorError(f"Visitor.{m} not found")
    # get_base_property: prop_function in {...}
    names = None
    for n in ast.walk(meths["get_base_property"]):
        if (isinstance(n, ast.Compare) and isinstance(n.left, ast.Name) and n.left.id == "prop_function" and len(n.ops) == 1
                and isinstance(n.ops[0], ast.In) and isinstance(n.comparators[0], ast.Set)):
            names = sorted(ast.literal_eval(n.comparators[0]))
    if names is None:
        raise TranslatorError("get_base_property: `prop_function in {...}` not found")
    # handle_function: if property_function == "<name>": base_property.<attr> = function
    sets = {}
    for n in ast.walk(meths["handle_function"]):
        if (isinstance(n, ast.If) and isinstance(n.test, ast.Compare) and isinstance(n.test.left, ast.Name) and n.test.left.id == "property_function"
                and len(n.test.ops) == 1 and isinstance(n.test.ops[0], ast.Eq) and isinstance(n.test.comparators[0], ast.Constant)):
            for st in n.body:
                if (isinstance(st, ast.Assign) and len(st.targets) == 1 and isinstance(st.targets[0], ast.Attribute)
                        and isinstance(st.targets[0].value, ast.Name) and st.targets[0].value.id == "base_property"
                        and isinstance(st.value, ast.Name) and st.value.id == "function"):
                    sets[n.test.comparators[0].value] = st.targets[0].attr
    if sorted(sets) != names or any(v not in ("setter", "deleter") for v in sets.values()):
        raise TranslatorError(f"accessor handling not understood: tested names {names}, assignments {sets}")
    ladder, kinds = _ladder(meths["handle_function"])
    return {"property_paths": prop, "overload_paths": sorted(overload), "accessors": [(k, sets[k] == "setter") for k in names],
            "ladder": ladder, "tracking_kinds": kinds}


SKINDS = {"MODULE": "KModule", "CLASS": "KClass", "FUNCTION": "KFunction"}


def _kind_set(node) -> list[str]:
    """`self.current.kind in {Kind.MODULE, Kind.CLASS}` -> [KModule, KClass]"""
    if not (isinstance(node, ast.Compare) and ast.unparse(node.left) == "self.current.kind" and len(node.ops) == 1
            and isinstance(node.ops[0], ast.In) and isinstance(node.comparators[0], ast.Set)):
        raise TranslatorError(f"not a scope-kind test: {ast.unparse(node)}")
    out = []
    for e in node.comparators[0].elts:
        if not (isinstance(e, ast.Attribute) and isinstance(e.value, ast.Name) and e.value.id == "Kind" and e.attr in SKINDS):
            raise TranslatorError(f"unknown scope kind {ast.unparse(e)}")
        out.append(SKINDS[e.attr])
    return sorted(out)


def _ladder(fn) -> tuple[list[str], list[str]]:
    # the overload flag accumulates over the decorators
    acc = [n for n in ast.walk(fn) if isinstance(n, (ast.AugAssign, ast.Assign, ast.AnnAssign))
           and any(isinstance(t, ast.Name) and t.id == "overload" for t in ([n.target] if not isinstance(n, ast.Assign) else n.targets))]
    texts = sorted(ast.unparse(n) for n in acc)
    if texts != ["overload = False", "overload |= decorator.callable_path in typing_overload"]:
        raise TranslatorError(f"handle_function: the overload flag is not `False` then `|= decorator.callable_path in typing_overload`: {texts}")
    if not any(isinstance(n, ast.AugAssign) and ast.unparse(n) == "labels |= self.decorators_to_labels(decorators)" for n in fn.body):
        raise TranslatorError("handle_function: `labels |= self.decorators_to_labels(decorators)` not found at top level")
    ladder, kinds = [], []
    seen_chain = False
    for st in fn.body:
        if not isinstance(st, ast.If):
            continue
        test = ast.unparse(st.test)
        if test in ("'property' in labels", '"property" in labels'):
            if st.orelse or not isinstance(st.body[-1], ast.Return) or st.body[-1].value is not None:
                raise TranslatorError("handle_function: the property branch does not end with a bare return")
            if not any(ast.unparse(x) == "self.current.set_member(node.name, attribute)" for x in st.body):
                raise TranslatorError("handle_function: the property branch does not set the attribute as member")
            ladder.append("BProperty")
        elif test in ("overload", "property_function"):
            if seen_chain:
                raise TranslatorError("handle_function: two overload/accessor chains")
            seen_chain = True
            node = st
            while True:
                name = ast.unparse(node.test)
                if name == "overload":
                    if len(node.body) != 1 or not isinstance(node.body[0], ast.If) or node.body[0].orelse:
                        raise TranslatorError("handle_function: overload branch shape")
                    kinds.append(_kind_set(node.body[0].test))
                    if [ast.unparse(x) for x in node.body[0].body] != ["self.current.overloads[function.name].append(function)"]:
                        raise TranslatorError("handle_function: an overload is not appended to the pending overloads of its name")
                    ladder.append("BOverload")
                elif name == "property_function":
                    ladder.append("BAccessor")
                else:
                    raise TranslatorError(f"handle_function: unexpected test in the chain: {name}")
                if len(node.orelse) == 1 and isinstance(node.orelse[0], ast.If) and ast.unparse(node.orelse[0].test) in ("overload", "property_function"):
                    node = node.orelse[0]
                    continue
                impl = node.orelse
                break
            if len(impl) != 2 or ast.unparse(impl[0]) != "self.current.set_member(node.name, function)" or not isinstance(impl[1], ast.If) or impl[1].orelse:
                raise TranslatorError("handle_function: the implementation branch is not `set_member` + the pending-overloads test")
            t2 = impl[1].test
            if not (isinstance(t2, ast.BoolOp) and isinstance(t2.op, ast.And) and len(t2.values) == 2
                    and ast.unparse(t2.values[1]) == "self.current.overloads[function.name]"):
                raise TranslatorError("handle_function: the implementation branch does not test the pending overloads of its name")
            kinds.append(_kind_set(t2.values[0]))
            if [ast.unparse(x) for x in impl[1].body] != ["function.overloads = self.current.overloads[function.name]",
                                                          "del self.current.overloads[function.name]"]:
                raise TranslatorError("handle_function: an implementation does not take the pending overloads of its name and delete the entry")
    if sorted(ladder) != ["BAccessor", "BOverload", "BProperty"]:
        raise TranslatorError(f"handle_function: decision ladder found: {ladder}")
    if len(kinds) != 2 or kinds[0] != kinds[1]:
        raise TranslatorError(f"handle_function: the two scope-kind tests differ: {kinds}")
    return ladder, kinds[0]


def translate(ctx=None) -> Path:
    kinds = _parameter_kind()
    gp = _get_parameters()
    vt = _visitor_tables()
    out = ["(* GENERATED by harness/translate/c02_tables.py from src/_griffe/{enumerations.py,agents/nodes/parameters.py,agents/visitor.py} -- do not edit *)",
           "From Coq Require Import List String.", "From Verif Require Import Model.C02_kinds.", "Import ListNotations.", "Open Scope string_scope.", "",
           "(* ParameterKind members in declaration order, with their values *)",
           "Definition kind_values : list (kind * string) := [" + "; ".join(f"({k}, {_coq_str(v)})" for k, v in kinds) + "].", "",
           "(* get_parameters: kind given to each source list, default text of the variadics, order of the blocks *)",
           f"Definition posonly_kind : kind := {gp['posonly_kind']}.", f"Definition args_kind : kind := {gp['args_kind']}.",
           f"Definition vararg_kind : kind := {gp['vararg_kind']}.", f"Definition kwonly_kind : kind := {gp['kwonly_kind']}.",
           f"Definition kwarg_kind : kind := {gp['kwarg_kind']}.",
           f"Definition vararg_default : string := {_coq_str(gp['vararg_default'])}.",
           f"Definition kwarg_default : string := {_coq_str(gp['kwarg_default'])}.",
           "Definition emission_order : list group := [" + "; ".join(gp["order"]) + "].", "",
           "(* visitor.py: decorator callable paths that make a definition a property / an overload; accessor names",
           "   (true = sets the property's setter, false = its deleter) *)",
           "Definition property_paths : list string := [" + "; ".join(_coq_str(p) for p in vt["property_paths"]) + "].",
           "Definition overload_paths : list string := [" + "; ".join(_coq_str(p) for p in vt["overload_paths"]) + "].",
           "Definition accessor_names : list (string * bool) := [" + "; ".join(f"({_coq_str(k)}, {'true' if b else 'false'})" for k, b in vt["accessors"]) + "].", "",
           "(* handle_function: order of the tests (what is left falls through to the implementation branch); scope kinds that keep pending overloads *)",
           "Definition ladder : list branch := [" + "; ".join(vt["ladder"]) + "].",
           "Definition tracking_kinds : list skind := [" + "; ".join(vt["tracking_kinds"]) + "].", ""]
    p = VERIF / "coq/Gen/C02_tables.v"
    text = "\n".join(out)
    if not p.exists() or p.read_text() != text:
        p.write_text(text)
    return p


if __name__ == "__main__":
    print(translate().read_text())
