"""(T) translator for C12: regenerates coq/Gen/C12_regexes.v and coq/Gen/C12_tables.v from the docstring parsers of /repo.

Regexes.  EVERY regular expression of src/_griffe/docstrings/{google,numpy,sphinx,utils,parsers}.py is extracted from the
source text: module-level `NAME = re.compile(pattern[, flags])` (pattern = string constant, f-string or concatenation over
module-level string constants), aliases `A = B` of such names, and inline `re.match/search/fullmatch/sub(pattern, ...)` calls.
Each pattern is parsed with CPython's own regex parser (re._parser, the front end of the engine that will run it; trusted) and
the parse tree is transliterated into the regex AST of coq/Model/C12_regex.v.  Fail closed: an unknown way of using the `re`
module or a compiled pattern, a flag other than IGNORECASE/VERBOSE, a pattern that cannot be evaluated statically, an sre
opcode outside the AST (back-references, look-arounds, atomic groups, possessive quantifiers, \\b, inline flags, ...), a
non-ASCII literal under IGNORECASE, or a bounded repetition above 8 raises TranslatorError.

Tables.  The `_section_kind` keyword tables of the Google and Numpy parsers, the section kinds that have a reader, the
Sphinx field-name sets and the order of `_field_types`.

The Python-side result (`Extract`) carries the same data for the harness: pattern strings and flags (compiled with CPython's
re for the oracle check of the model matcher), group numbers, the regex ASTs (adversarial inputs are generated from them) and
the tables (the generators draw their keywords from them).
"""
from __future__ import annotations

import ast
import re
from dataclasses import dataclass, field
from pathlib import Path

from harness.common.framework import REPO, VERIF, TranslatorError

FILES = ["google", "numpy", "sphinx", "utils", "parsers"]
KINDS = ["parameters", "other parameters", "raises", "warns", "examples", "attributes", "functions", "classes", "modules",
         "returns", "yields", "receives", "deprecated"]
ALLOWED_FLAGS = {"I": re.I, "IGNORECASE": re.I, "X": re.X, "VERBOSE": re.X, "U": re.U, "UNICODE": re.U}
INLINE_FUNCS = {"match": "UMatch", "search": "USearch", "fullmatch": "UFullmatch", "sub": "USub"}
METHODS = {"match": "UMatch", "search": "USearch", "fullmatch": "UFullmatch", "sub": "USub"}
FOREIGN_REGEX_MODULES = {"regex", "re2", "sre_compile", "sre_parse", "sre_constants", "fnmatch", "glob"}
MAX_UNROLL = 8
SPHINX_READERS = {"_read_parameter_type": "FPType", "_read_parameter": "FParam", "_read_attribute_type": "FAType",
                  "_read_attribute": "FAttr", "_read_exception": "FExc", "_read_return": "FRet", "_read_return_type": "FRType"}
SPHINX_CODES = {"FPType": 1, "FParam": 2, "FAType": 3, "FAttr": 4, "FExc": 5, "FRet": 6, "FRType": 7}
# the regexes the model refers to by role, with the groups it reads
REQUIRED = {
    "google._RE_ADMONITION": ["type", "title"],
    "google._RE_NAME_ANNOTATION_DESCRIPTION": ["name", "type", "desc"],
    "google._RE_DOCTEST_BLANKLINE": [], "google._RE_DOCTEST_FLAGS": [],
    "numpy._RE_RETURNS": ["nt_name", "nt_type", "name", "type"], "numpy._RE_YIELDS": ["nt_name", "nt_type", "name", "type"],
    "numpy._RE_RECEIVES": ["nt_name", "nt_type", "name", "type"],
    "numpy._RE_PARAMETER": ["names", "type", "choices"],
    "numpy._RE_DOCTEST_BLANKLINE": [], "numpy._RE_DOCTEST_FLAGS": [],
    "numpy._read_parameters#1": ["annotation", "default"],
}


@dataclass
class Rx:
    key: str                 # "google._RE_ADMONITION" or "numpy._read_parameters#1"
    pattern: str
    flags: int
    uses: list[str]
    lineno: int
    tree: tuple = ()         # python-side AST
    groups: dict = field(default_factory=dict)
    ngroups: int = 0

    @property
    def ic(self) -> bool:
        return bool(self.flags & re.I)

    def compiled(self):
        return re.compile(self.pattern, self.flags)

    @property
    def ident(self) -> str:
        return "rx_" + re.sub(r"[^A-Za-z0-9_]", "_", self.key)


@dataclass
class Extract:
    regexes: dict[str, Rx]
    section_kind: dict[str, dict[str, str]]       # style -> keyword -> kind value
    readers: dict[str, list[str]]                 # style -> kind values with a reader
    sphinx_fields: list[tuple[str, list[str]]]    # (field constructor, names), in _field_types order


# ------------------------------------------------------------------------------------------------ static evaluation
def _eval_str(node, env, where):
    if isinstance(node, ast.Constant) and isinstance(node.value, str):
        return node.value
    if isinstance(node, ast.Name) and node.id in env:
        return env[node.id]
    if isinstance(node, ast.JoinedStr):
        out = []
        for part in node.values:
            if isinstance(part, ast.Constant) and isinstance(part.value, str):
                out.append(part.value)
            elif (isinstance(part, ast.FormattedValue) and part.conversion == -1 and part.format_spec is None
                  and isinstance(part.value, ast.Name) and part.value.id in env):
                out.append(env[part.value.id])
            else:
                raise TranslatorError(f"{where}: f-string part cannot be evaluated statically: {ast.unparse(part)}")
        return "".join(out)
    if isinstance(node, ast.BinOp) and isinstance(node.op, ast.Add):
        return _eval_str(node.left, env, where) + _eval_str(node.right, env, where)
    raise TranslatorError(f"{where}: pattern cannot be evaluated statically: {ast.unparse(node)[:80]}")


def _try_str(node, env):
    try:
        return _eval_str(node, env, "")
    except TranslatorError:
        return None


def _eval_flags(node, where, seen_re):
    if isinstance(node, ast.BinOp) and isinstance(node.op, ast.BitOr):
        return _eval_flags(node.left, where, seen_re) | _eval_flags(node.right, where, seen_re)
    if isinstance(node, ast.Attribute) and isinstance(node.value, ast.Name) and node.value.id == "re":
        seen_re.add(id(node.value))
        if node.attr in ALLOWED_FLAGS:
            return ALLOWED_FLAGS[node.attr]
        raise TranslatorError(f"{where}: regex flag re.{node.attr} is not modelled")
    if isinstance(node, ast.Constant) and node.value == 0:
        return 0
    raise TranslatorError(f"{where}: flags cannot be evaluated statically: {ast.unparse(node)}")


# ------------------------------------------------------------------------------------------------ sre parse tree -> AST
def _seq(nodes):
    nodes = [n for n in nodes if n != ("eps",)]
    if not nodes:
        return ("eps",)
    out = nodes[-1]
    for n in reversed(nodes[:-1]):
        out = ("seq", n, out)
    return out


def _conv_items(items, ic, where):
    from re import _constants as C
    neg = False
    out = []
    cats = {C.CATEGORY_WORD: ("word", False), C.CATEGORY_NOT_WORD: ("word", True), C.CATEGORY_SPACE: ("space", False),
            C.CATEGORY_NOT_SPACE: ("space", True), C.CATEGORY_DIGIT: ("digit", False), C.CATEGORY_NOT_DIGIT: ("digit", True)}
    for op, av in items:
        if op is C.NEGATE:
            neg = True
        elif op is C.LITERAL:
            out.append(("lit", av))
        elif op is C.RANGE:
            out.append(("range", av[0], av[1]))
        elif op is C.CATEGORY and av in cats:
            out.append(("cat",) + cats[av])
        else:
            raise TranslatorError(f"{where}: character-set item {op} {av} is outside the regex AST")
    if ic:
        for it in out:
            if it[0] in ("lit", "range") and max(it[1:]) >= 128:
                raise TranslatorError(f"{where}: non-ASCII literal under IGNORECASE is not modelled")
    return ("set", neg, out)


def _conv_seq(sub, ic, where):
    from re import _constants as C
    from re._parser import MAXREPEAT
    nodes = []
    for op, av in sub:
        if op is C.LITERAL:
            nodes.append(("chr", _conv_items([(C.LITERAL, av)], ic, where)))
        elif op is C.NOT_LITERAL:
            nodes.append(("chr", _conv_items([(C.NEGATE, None), (C.LITERAL, av)], ic, where)))
        elif op is C.ANY:
            nodes.append(("chr", ("any",)))
        elif op is C.IN:
            nodes.append(("chr", _conv_items(av, ic, where)))
        elif op is C.AT and av in (C.AT_BEGINNING, C.AT_BEGINNING_STRING):
            nodes.append(("bol",))
        elif op is C.AT and av is C.AT_END:
            nodes.append(("eol",))
        elif op is C.BRANCH:
            alts = [_conv_seq(s, ic, where) for s in av[1]]
            out = alts[-1]
            for a in reversed(alts[:-1]):
                out = ("alt", a, out)
            nodes.append(out)
        elif op is C.SUBPATTERN:
            group, add_flags, del_flags, p = av
            if add_flags or del_flags:
                raise TranslatorError(f"{where}: inline flags inside a group are not modelled")
            body = _conv_seq(p, ic, where)
            nodes.append(body if group is None else ("grp", group, body))
        elif op in (C.MAX_REPEAT, C.MIN_REPEAT):
            lo, hi, p = av
            greedy = op is C.MAX_REPEAT
            body = _conv_seq(p, ic, where)
            if lo > MAX_UNROLL or (hi != MAXREPEAT and hi > MAX_UNROLL):
                raise TranslatorError(f"{where}: repetition {{{lo},{hi}}} above the unrolling limit {MAX_UNROLL}")
            parts = [body] * lo
            if hi == MAXREPEAT:
                parts.append(("star", greedy, body))
            else:
                tail = ("eps",)
                for _ in range(hi - lo):
                    tail = ("opt", greedy, _seq([body, tail]))
                parts.append(tail)
            nodes.append(_seq(parts))
        else:
            raise TranslatorError(f"{where}: sre opcode {op} {str(av)[:40]} is outside the regex AST")
    return _seq(nodes)


def parse_pattern(pattern: str, flags: int, where: str):
    import re._parser as P
    try:
        t = P.parse(pattern, flags)
    except Exception as e:  # noqa: BLE001
        raise TranslatorError(f"{where}: CPython's regex parser rejects the pattern: {e}") from e
    extra = t.state.flags & ~(re.I | re.X | re.U)
    if extra:
        raise TranslatorError(f"{where}: inline flags {extra!r} are not modelled")
    ic = bool(t.state.flags & re.I)
    return _conv_seq(t, ic, where), dict(t.state.groupdict), t.state.groups - 1, int(t.state.flags & (re.I | re.X))


# ------------------------------------------------------------------------------------------------ one module
def _scan_module(name: str, path: Path, out: dict[str, Rx]):
    tree = ast.parse(path.read_text())
    where0 = f"docstrings/{name}.py"
    env: dict[str, str] = {}
    compiled: dict[str, str] = {}         # module-level name -> regex key
    seen_re: set[int] = set()             # ids of Name('re') nodes that were understood
    seen_rx: set[int] = set()             # ids of Name(<compiled>) nodes that were understood
    parents = {}
    for n in ast.walk(tree):
        for c in ast.iter_child_nodes(n):
            parents[id(c)] = n
    for n in ast.walk(tree):
        if isinstance(n, ast.Import):
            for a in n.names:
                if a.name.split(".")[0] in FOREIGN_REGEX_MODULES or (a.name == "re" and a.asname not in (None, "re")):
                    raise TranslatorError(f"{where0}:{n.lineno}: import of {a.name} (as {a.asname}) is not understood")
        if isinstance(n, ast.ImportFrom):
            mod = (n.module or "").split(".")[0]
            if mod in FOREIGN_REGEX_MODULES:
                raise TranslatorError(f"{where0}:{n.lineno}: import from {n.module} is not understood")
            if mod == "re" and any(a.name not in ("Pattern", "Match") for a in n.names):
                raise TranslatorError(f"{where0}:{n.lineno}: from re import {[a.name for a in n.names]} is not understood")

    def is_re_call(v, fn=None):
        return (isinstance(v, ast.Call) and isinstance(v.func, ast.Attribute) and isinstance(v.func.value, ast.Name)
                and v.func.value.id == "re" and (fn is None or v.func.attr == fn))

    def new_regex(key, call, pat_node, flag_nodes, uses, lineno):
        where = f"{where0}:{lineno} {key}"
        pattern = _eval_str(pat_node, env, where)
        flags = 0
        for f in flag_nodes:
            flags |= _eval_flags(f, where, seen_re)
        tree_, groups, ngroups, eff = parse_pattern(pattern, flags, where)
        out[key] = Rx(key, pattern, flags | (eff & re.I), list(uses), lineno, tree_, groups, ngroups)

    # module level, in order
    for st in tree.body:
        tgt = val = None
        if isinstance(st, ast.Assign) and len(st.targets) == 1 and isinstance(st.targets[0], ast.Name):
            tgt, val = st.targets[0].id, st.value
        elif isinstance(st, ast.AnnAssign) and isinstance(st.target, ast.Name) and st.value is not None:
            tgt, val = st.target.id, st.value
        if tgt is None:
            continue
        if is_re_call(val, "compile"):
            seen_re.add(id(val.func.value))
            if not val.args or len(val.args) > 2 or any(k.arg != "flags" for k in val.keywords):
                raise TranslatorError(f"{where0}:{st.lineno}: re.compile call shape not understood")
            key = f"{name}.{tgt}"
            new_regex(key, val, val.args[0], list(val.args[1:]) + [k.value for k in val.keywords], [], st.lineno)
            compiled[tgt] = key
        elif isinstance(val, ast.Name) and val.id in compiled:
            seen_rx.add(id(val))
            src = out[compiled[val.id]]
            key = f"{name}.{tgt}"
            out[key] = Rx(key, src.pattern, src.flags, [], st.lineno, src.tree, dict(src.groups), src.ngroups)
            compiled[tgt] = key
        else:
            s = _try_str(val, env)
            if s is not None:
                env[tgt] = s
    # everywhere: uses and inline patterns
    counters: dict[str, int] = {}
    funcs = [n for n in ast.walk(tree) if isinstance(n, (ast.FunctionDef, ast.AsyncFunctionDef))]

    def enclosing(node):
        cur = node
        while id(cur) in parents:
            cur = parents[id(cur)]
            if isinstance(cur, (ast.FunctionDef, ast.AsyncFunctionDef)):
                return cur.name
        return "<module>"

    calls = sorted((n for n in ast.walk(tree) if isinstance(n, ast.Call)), key=lambda c: (c.lineno, c.col_offset))
    for c in calls:
        f = c.func
        if not isinstance(f, ast.Attribute) or not isinstance(f.value, ast.Name):
            continue
        if f.value.id == "re":
            if id(f.value) in seen_re:
                continue                      # the module-level compile calls
            seen_re.add(id(f.value))
            if f.attr not in INLINE_FUNCS:
                raise TranslatorError(f"{where0}:{c.lineno}: re.{f.attr}(...) is not understood")
            fn = enclosing(c)
            counters[fn] = counters.get(fn, 0) + 1
            key = f"{name}.{fn}#{counters[fn]}"
            if f.attr == "sub":
                if len(c.args) < 3 or not (isinstance(c.args[1], ast.Constant) and c.args[1].value == ""):
                    raise TranslatorError(f"{where0}:{c.lineno}: re.sub with a replacement other than '' is not modelled")
                flag_nodes = [k.value for k in c.keywords if k.arg == "flags"]
            else:
                flag_nodes = list(c.args[2:3]) + [k.value for k in c.keywords if k.arg == "flags"]
            new_regex(key, c, c.args[0], flag_nodes, [INLINE_FUNCS[f.attr]], c.lineno)
        elif f.value.id in compiled:
            seen_rx.add(id(f.value))
            if f.attr not in METHODS:
                raise TranslatorError(f"{where0}:{c.lineno}: {f.value.id}.{f.attr}(...) is not understood")
            if f.attr == "sub" and not (c.args and isinstance(c.args[0], ast.Constant) and c.args[0].value == ""):
                raise TranslatorError(f"{where0}:{c.lineno}: {f.value.id}.sub with a replacement other than '' is not modelled")
            rx = out[compiled[f.value.id]]
            if METHODS[f.attr] not in rx.uses:
                rx.uses.append(METHODS[f.attr])
    # anything left over that touches `re` or a compiled pattern is not understood
    for n in ast.walk(tree):
        if isinstance(n, ast.Name) and isinstance(n.ctx, ast.Load):
            if n.id == "re" and id(n) not in seen_re:
                raise TranslatorError(f"{where0}:{n.lineno}: use of the re module that is not understood: "
                                      f"{ast.unparse(parents.get(id(n), n))[:80]}")
            if n.id in compiled and id(n) not in seen_rx:
                raise TranslatorError(f"{where0}:{n.lineno}: use of the compiled pattern {n.id} that is not understood: "
                                      f"{ast.unparse(parents.get(id(n), n))[:80]}")
    del funcs
    return tree


# ------------------------------------------------------------------------------------------------ tables
def _enum_values() -> dict[str, str]:
    tree = ast.parse((REPO / "src/_griffe/enumerations.py").read_text())
    vals = {}
    for node in tree.body:
        if isinstance(node, ast.ClassDef) and node.name == "DocstringSectionKind":
            for st in node.body:
                if (isinstance(st, ast.Assign) and len(st.targets) == 1 and isinstance(st.targets[0], ast.Name)
                        and isinstance(st.value, ast.Constant) and isinstance(st.value.value, str)):
                    vals[st.targets[0].id] = st.value.value
    if not vals:
        raise TranslatorError("enumerations.py: DocstringSectionKind not found")
    return vals


def _kind_member(node, enum, where):
    if (isinstance(node, ast.Attribute) and isinstance(node.value, ast.Name) and node.value.id == "DocstringSectionKind"
            and node.attr in enum):
        v = enum[node.attr]
        if v not in KINDS:
            raise TranslatorError(f"{where}: section kind {v!r} has no counterpart in the model")
        return v
    raise TranslatorError(f"{where}: not a DocstringSectionKind member: {ast.unparse(node)}")


def _dict_assign(tree, name, where):
    for st in tree.body:
        tgt = None
        if isinstance(st, ast.Assign) and len(st.targets) == 1 and isinstance(st.targets[0], ast.Name):
            tgt, val = st.targets[0].id, st.value
        elif isinstance(st, ast.AnnAssign) and isinstance(st.target, ast.Name):
            tgt, val = st.target.id, st.value
        if tgt == name:
            if not isinstance(val, ast.Dict) or any(k is None for k in val.keys):
                raise TranslatorError(f"{where}: {name} is not a plain dict display")
            return val
    raise TranslatorError(f"{where}: {name} not found")


def _section_tables(style, tree, enum):
    where = f"docstrings/{style}.py"
    d = _dict_assign(tree, "_section_kind", where)
    table = {}
    for k, v in zip(d.keys, d.values):
        if not (isinstance(k, ast.Constant) and isinstance(k.value, str)):
            raise TranslatorError(f"{where}: _section_kind key {ast.unparse(k)}")
        if not k.value.isascii() or k.value != k.value.lower() or '"' in k.value or "\\" in k.value:
            raise TranslatorError(f"{where}: _section_kind key {k.value!r} is not a lower-case ASCII keyword")
        table[k.value] = _kind_member(v, enum, where)
    r = _dict_assign(tree, "_section_reader", where)
    readers = []
    for k, v in zip(r.keys, r.values):
        readers.append(_kind_member(k, enum, where))
        if not isinstance(v, ast.Name):
            raise TranslatorError(f"{where}: _section_reader value {ast.unparse(v)}")
    missing = sorted(set(table.values()) - set(readers))
    if missing:
        raise TranslatorError(f"{where}: section kinds {missing} are in _section_kind but have no reader (KeyError at run time)")
    return table, readers


def _sphinx_tables(tree):
    where = "docstrings/sphinx.py"
    sets = {}
    order = None
    for st in tree.body:
        if isinstance(st, ast.Assign) and len(st.targets) == 1 and isinstance(st.targets[0], ast.Name):
            tgt, v = st.targets[0].id, st.value
            if (isinstance(v, ast.Call) and isinstance(v.func, ast.Name) and v.func.id == "frozenset" and len(v.args) == 1
                    and isinstance(v.args[0], (ast.Tuple, ast.List, ast.Set))
                    and all(isinstance(e, ast.Constant) and isinstance(e.value, str) for e in v.args[0].elts)):
                sets[tgt] = [e.value for e in v.args[0].elts]
            if tgt == "_field_types":
                if not isinstance(v, ast.List):
                    raise TranslatorError(f"{where}: _field_types is not a list display")
                order = []
                for e in v.elts:
                    if not (isinstance(e, ast.Call) and isinstance(e.func, ast.Name) and e.func.id == "_FieldType" and len(e.args) == 2
                            and isinstance(e.args[0], ast.Name) and isinstance(e.args[1], ast.Name)):
                        raise TranslatorError(f"{where}: _field_types entry {ast.unparse(e)}")
                    if e.args[0].id not in sets:
                        raise TranslatorError(f"{where}: field-name set {e.args[0].id} not found")
                    if e.args[1].id not in SPHINX_READERS:
                        raise TranslatorError(f"{where}: field reader {e.args[1].id} has no counterpart in the model")
                    names = sets[e.args[0].id]
                    if any((not x.isascii()) or '"' in x or "\\" in x for x in names):
                        raise TranslatorError(f"{where}: non-ASCII field name in {e.args[0].id}")
                    order.append((SPHINX_READERS[e.args[1].id], sorted(names)))
    if not order:
        raise TranslatorError(f"{where}: _field_types not found")
    # _FieldType.matches must still be the prefix test the model implements
    for node in tree.body:
        if isinstance(node, ast.ClassDef) and node.name == "_FieldType":
            for fn in node.body:
                if isinstance(fn, ast.FunctionDef) and fn.name == "matches":
                    body = [s for s in fn.body if not (isinstance(s, ast.Expr) and isinstance(s.value, ast.Constant))]
                    got = ast.unparse(body[0]) if len(body) == 1 else None
                    want = "return any((line.startswith(f':{name}') for name in self.names))"
                    if got != want:
                        raise TranslatorError(f"{where}: _FieldType.matches changed: {got}")
                    return order
    raise TranslatorError(f"{where}: _FieldType.matches not found")


# ------------------------------------------------------------------------------------------------ Coq output
def _coq_cls(c) -> str:
    if c == ("any",):
        return "CAny"
    _, neg, items = c
    its = []
    for it in items:
        if it[0] == "lit":
            its.append(f"ILit {it[1]}%N")
        elif it[0] == "range":
            its.append(f"IRange {it[1]}%N {it[2]}%N")
        else:
            cat = {"word": "CWord", "space": "CSpace", "digit": "CDigit"}[it[1]]
            its.append(f"ICat {cat} {'true' if it[2] else 'false'}")
    return f"(CSet {'true' if neg else 'false'} [{'; '.join(its)}])"


def coq_re(t) -> str:
    tag = t[0]
    if tag == "eps":
        return "REps"
    if tag == "bol":
        return "RBol"
    if tag == "eol":
        return "REol"
    if tag == "chr":
        return f"(RChr {_coq_cls(t[1])})"
    if tag in ("seq", "alt"):
        return f"({'RSeq' if tag == 'seq' else 'RAlt'} {coq_re(t[1])} {coq_re(t[2])})"
    if tag in ("opt", "star"):
        return f"({'ROpt' if tag == 'opt' else 'RStar'} {'true' if t[1] else 'false'} {coq_re(t[2])})"
    if tag == "grp":
        return f"(RGrp {t[1]} {coq_re(t[2])})"
    raise TranslatorError(f"internal: unknown AST tag {tag}")


def _coq_str(s: str) -> str:
    return '"' + s + '"'


def _write(path: Path, content: str):
    if not path.exists() or path.read_text() != content:
        path.write_text(content)


def extract() -> Extract:
    base = REPO / "src/_griffe/docstrings"
    regexes: dict[str, Rx] = {}
    trees = {}
    for name in FILES:
        p = base / f"{name}.py"
        if not p.exists():
            raise TranslatorError(f"docstrings/{name}.py not found")
        trees[name] = _scan_module(name, p, regexes)
    others = sorted(p.stem for p in base.glob("*.py") if p.stem not in FILES + ["__init__", "models"])
    if others:
        raise TranslatorError(f"docstring parser modules the translator does not know: {others}")
    for key, groups in REQUIRED.items():
        if key not in regexes:
            raise TranslatorError(f"regex {key} (referred to by the model) not found in the source")
        for g in groups:
            if g not in regexes[key].groups:
                raise TranslatorError(f"regex {key}: group {g!r} (read by the model) not found")
    for rx in regexes.values():
        if not rx.uses and not any(o.pattern == rx.pattern and o.uses for o in regexes.values()):
            raise TranslatorError(f"regex {rx.key} is compiled but no use of it was found")
    enum = _enum_values()
    section_kind, readers = {}, {}
    for style in ("google", "numpy"):
        section_kind[style], readers[style] = _section_tables(style, trees[style], enum)
    sphinx_fields = _sphinx_tables(trees["sphinx"])
    return Extract(regexes, section_kind, readers, sphinx_fields)


def translate(ctx=None) -> Extract:
    ex = extract()
    L = ["(* GENERATED by harness/translate/c12_regexes.py from src/_griffe/docstrings/*.py - do not edit.",
         "   Every regular expression of the docstring parsers, as an AST of Model/C12_regex.v. *)",
         "From Coq Require Import List NArith String.", "From Verif Require Import Model.C12_regex.", "Import ListNotations.",
         "Open Scope string_scope.", "Open Scope list_scope.", "Open Scope nat_scope.", ""]
    for rx in ex.regexes.values():
        L.append(f"(* {rx.key} (line {rx.lineno}), flags={'IGNORECASE ' if rx.ic else ''}{'VERBOSE' if rx.flags & re.X else ''}")
        L.append("   " + " ".join(rx.pattern.replace("(*", "( *").replace("*)", "* )").split()) + " *)")
        uses = "; ".join(rx.uses)
        L.append(f"Definition {rx.ident} : regex := mkRegex {'true' if rx.ic else 'false'}")
        L.append(f"  {coq_re(rx.tree)}")
        L.append(f"  [{uses}].")
        for g, i in sorted(rx.groups.items(), key=lambda kv: kv[1]):
            L.append(f"Definition {rx.ident}__{g} : nat := {i}.")
        L.append("")
    L.append("Definition all_regexes : list (string * regex) :=")
    L.append("  [" + ";\n   ".join(f'({_coq_str(rx.key)}, {rx.ident})' for rx in ex.regexes.values()) + "].")
    L.append("")
    _write(VERIF / "coq" / "Gen" / "C12_regexes.v", "\n".join(L))

    T = ["(* GENERATED by harness/translate/c12_regexes.py from src/_griffe/docstrings/{google,numpy,sphinx}.py - do not edit.",
         "   Keyword tables: section keyword -> section kind (number in the order of Model/C12_docstrings.v:dec_skind),",
         "   and the Sphinx field names in the order of _field_types (number as in dec_sfld). *)",
         "From Coq Require Import List String.", "Import ListNotations.", "Open Scope string_scope.", "Open Scope list_scope.", ""]
    for style in ("google", "numpy"):
        T.append(f"Definition {style}_section_kind : list (string * nat) :=")
        T.append("  [" + ";\n   ".join(f"({_coq_str(k)}, {KINDS.index(v)})" for k, v in ex.section_kind[style].items()) + "].")
        T.append("")
    T.append("Definition sphinx_field_types : list (nat * list string) :=")
    T.append("  [" + ";\n   ".join(f"({SPHINX_CODES[c]}, [{'; '.join(_coq_str(n) for n in names)}])" for c, names in ex.sphinx_fields) + "].")
    T.append("")
    _write(VERIF / "coq" / "Gen" / "C12_tables.v", "\n".join(T))
    return ex
