"""(T) translator for C04: reads from the source under test which form of the scope walk and of the expression builders it has.

The Coq model (coq/Model/C04_expr.v) describes both forms of three pieces of code, selected by three switches:
  v_skip    models.py   Object.resolve            leaves a class body towards the nearest enclosing non-class scope (repair of C04-F1)
  v_locals  expressions.py _build_name / _build_lambda / _build_generators track the names bound by the expression itself (repair of C04-F3)
  v_inner   expressions.py _function_scope        lambda bodies and the inside of comprehensions are built in the enclosing function scope
                                                   (repair of C04-F4)
The theorems are proved for every combination; which combination mirrors the tree under test is decided here, from the AST of the
two files, and handed to the model with every query.  Fail closed: a shape that is neither form raises TranslatorError.  Only the
statements that distinguish the forms are inspected (the rest of Object.resolve is covered by the differential check, which is
what finds a failing input when it changes).
"""
from __future__ import annotations

import ast

from harness.common.framework import REPO, TranslatorError


def _func(tree, name, cls=None):
    body = tree.body
    if cls is not None:
        for n in body:
            if isinstance(n, ast.ClassDef) and n.name == cls:
                body = n.body
                break
        else:
            raise TranslatorError(f"class {cls} not found")
    for n in body:
        if isinstance(n, ast.FunctionDef) and n.name == name:
            return n
    return None


def _norm(node) -> str:
    return ast.unparse(node).replace("\n", " ")


def read_variant() -> dict:
    models = ast.parse((REPO / "src/_griffe/models.py").read_text())
    exprs = ast.parse((REPO / "src/_griffe/expressions.py").read_text())

    # --- Object.resolve
    res = _func(models, "resolve", "Object")
    if res is None:
        raise TranslatorError("Object.resolve not found")
    loops = [n for n in ast.walk(res) if isinstance(n, (ast.While, ast.For))]
    last = res.body[-1]
    if not (isinstance(last, ast.Return) and isinstance(last.value, ast.Call) and isinstance(last.value.func, ast.Attribute)
            and last.value.func.attr == "resolve" and [_norm(a) for a in last.value.args] == ["name"]):
        raise TranslatorError("Object.resolve does not end with `return <parent>.resolve(name)`: " + _norm(last))
    receiver = _norm(last.value.func.value)
    if not loops:
        if receiver != "self.parent":
            raise TranslatorError("Object.resolve recurses into " + receiver)
        v_skip = False
    else:
        if len(loops) != 1 or not isinstance(loops[0], ast.While):
            raise TranslatorError("Object.resolve: unexpected loops")
        w = loops[0]
        guard = [n for n in ast.walk(res) if isinstance(n, ast.If) and w in n.body]
        if (_norm(w.test) != "parent.is_class and parent.parent is not None" or [_norm(s) for s in w.body] != ["parent = parent.parent"]
                or len(guard) != 1 or _norm(guard[0].test) != "self.is_class" or guard[0].orelse or receiver != "parent"):
            raise TranslatorError("Object.resolve: the class-skipping loop has an unknown shape: " + _norm(w))
        assigns = [n for n in res.body if isinstance(n, ast.Assign) and _norm(n) == "parent = self.parent"]
        if len(assigns) != 1 or res.body.index(assigns[0]) > res.body.index(guard[0]):
            raise TranslatorError("Object.resolve: `parent = self.parent` missing before the loop")
        v_skip = True

    # --- _build_name
    bn = _func(exprs, "_build_name")
    if bn is None or not isinstance(bn.body[-1], ast.Return):
        raise TranslatorError("_build_name not found / does not end with a return")
    ret = _norm(bn.body[-1].value)
    kwonly = [a.arg for a in bn.args.kwonlyargs]
    if ret == "ExprName(node.id, parent)":
        v_locals = False
    elif ret == "ExprName(node.id, None if node.id in local_names else parent)" and "local_names" in kwonly:
        v_locals = True
    else:
        raise TranslatorError("_build_name returns " + ret)
    lam = _func(exprs, "_build_lambda")
    gens = _func(exprs, "_build_generators")
    if lam is None:
        raise TranslatorError("_build_lambda not found")
    lam_src = _norm(lam)
    if v_locals:
        if gens is None or "local_names" not in [a.arg for a in gens.args.kwonlyargs] or "local_names | targets" not in _norm(gens):
            raise TranslatorError("_build_name tracks local names but _build_generators does not collect comprehension targets")
        if "local_names | {name for name, *_ in parameters}" not in lam_src:
            raise TranslatorError("_build_name tracks local names but _build_lambda does not add its parameters")
        for fn in ("_build_listcomp", "_build_setcomp", "_build_dictcomp", "_build_generatorexp"):
            f = _func(exprs, fn)
            if f is None or "_build_generators(node.generators, parent, **kwargs)" not in _norm(f):
                raise TranslatorError(fn + " does not go through _build_generators")
    else:
        if gens is not None or "local_names" in lam_src:
            raise TranslatorError("local names are tracked by some builders but not by _build_name")

    # --- _function_scope
    fs = _func(exprs, "_function_scope")
    uses = [n for n in ast.walk(exprs) if isinstance(n, ast.Call) and isinstance(n.func, ast.Name) and n.func.id == "_function_scope"]
    if fs is None:
        if uses:
            raise TranslatorError("_function_scope is called but not defined")
        v_inner = False
    else:
        ws = [n for n in ast.walk(fs) if isinstance(n, ast.While)]
        if (len(ws) != 1 or _norm(ws[0].test) != "parent.is_class and parent.parent is not None"
                or [_norm(s) for s in ws[0].body] != ["parent = parent.parent"] or _norm(fs.body[-1]) != "return parent"):
            raise TranslatorError("_function_scope has an unknown shape")
        if not v_locals or "_function_scope(parent)" not in lam_src or "_function_scope(parent)" not in _norm(gens):
            raise TranslatorError("_function_scope exists but lambda bodies / comprehensions are not built in it")
        v_inner = True
    return {"v_skip": v_skip, "v_locals": v_locals, "v_inner": v_inner}
