"""(T) translator for C10: regenerates coq/Gen/C10_tables.v and coq/Gen/C10_rules.v from /repo/src/_griffe.

Fail closed: any AST shape outside the whitelist raises TranslatorError.
Gen/C10_tables.v (shared with C11): the kind sets _POSITIONAL, _KEYWORD, _POSITIONAL_KEYWORD_ONLY, _VARIADIC; from
_function_incompatibilities the boolean expressions `swallowed` and those members of `incompatible_kind = any((...))`
that only look at (old kind, new kind, has_variadic_args, has_variadic_kwargs), as Coq boolean functions.
Gen/C10_rules.v: the members of `incompatible_kind` that also look at the OLD signature (old_has_variadic_args,
old_has_variadic_kwargs, new position < number of old positional parameters) as `collision_kind` (constantly false when
there is none) with the flag COLLISION_RULE; the helper assignments they rely on are compared with their expected
shapes.  The shapes of the new-side helpers (param_kinds / has_variadic_* / new_param_names), of the three non-kind
rules' guards (required / moved / default) and of the default comparison (`old_param.default != new_param.default`
inside try/except that reports on failure) are checked as well (they are modelled by hand in Model/C10_diff.v).
From expressions.py: the annotated fields of `class ExprFormatted` decide FMT_LOSSY (conversion and format spec of an
f-string replacement field are not kept, so two defaults differing there compare equal).
"""
from __future__ import annotations

import ast
from pathlib import Path

from harness.common.framework import REPO, VERIF, TranslatorError

KINDS = {"positional_only": "PO", "positional_or_keyword": "PK", "var_positional": "VP", "keyword_only": "KO", "var_keyword": "VK"}
SETS = ["_POSITIONAL", "_KEYWORD", "_POSITIONAL_KEYWORD_ONLY", "_VARIADIC"]


def _kind(node) -> str:
    if isinstance(node, ast.Attribute) and isinstance(node.value, ast.Name) and node.value.id == "ParameterKind" and node.attr in KINDS:
        return KINDS[node.attr]
    raise TranslatorError(f"not a ParameterKind member: {ast.unparse(node)}")


def _kind_of(node) -> str:
    """old_param.kind / new_param.kind -> ok / nk"""
    if isinstance(node, ast.Attribute) and node.attr == "kind" and isinstance(node.value, ast.Name):
        if node.value.id == "old_param":
            return "ok"
        if node.value.id == "new_param":
            return "nk"
    raise TranslatorError(f"not a parameter kind expression: {ast.unparse(node)}")


OLD_SIDE = {"old_has_variadic_args": "ohva", "old_has_variadic_kwargs": "ohvk"}
NEW_INDEX = "new_param_names.index(old_param.name)"


def _uses_old_side(node) -> bool:
    return any(isinstance(n, ast.Name) and (n.id in OLD_SIDE or n.id in ("old_positional_count", "new_param_names", "new_index"))
               for n in ast.walk(node))


def _bexp(node, old_side: bool = False) -> str:
    if isinstance(node, ast.BoolOp):
        op = " && " if isinstance(node.op, ast.And) else " || "
        return "(" + op.join(_bexp(v, old_side) for v in node.values) + ")"
    if isinstance(node, ast.UnaryOp) and isinstance(node.op, ast.Not):
        return f"(negb {_bexp(node.operand, old_side)})"
    if isinstance(node, ast.Name) and node.id in ("has_variadic_args", "has_variadic_kwargs"):
        return "hva" if node.id == "has_variadic_args" else "hvk"
    if old_side and isinstance(node, ast.Name) and node.id in OLD_SIDE:
        return OLD_SIDE[node.id]
    if (old_side and isinstance(node, ast.Compare) and len(node.ops) == 1 and isinstance(node.ops[0], ast.Lt)
            and ast.unparse(node.left) in (NEW_INDEX, "new_index") and ast.unparse(node.comparators[0]) == "old_positional_count"):
        return "reach"
    if isinstance(node, ast.Compare) and len(node.ops) == 1:
        lhs, op, rhs = node.left, node.ops[0], node.comparators[0]
        if isinstance(op, (ast.Is, ast.Eq)):
            return f"(kind_eqb {_kind_of(lhs)} {_kind(rhs)})"
        if isinstance(op, (ast.IsNot, ast.NotEq)):
            return f"(negb (kind_eqb {_kind_of(lhs)} {_kind(rhs)}))"
        if isinstance(op, (ast.In, ast.NotIn)) and isinstance(rhs, ast.Name) and rhs.id in SETS:
            e = f"(kind_in {_kind_of(lhs)} {rhs.id[1:]})"
            return e if isinstance(op, ast.In) else f"(negb {e})"
    raise TranslatorError(f"boolean expression outside the whitelist: {ast.unparse(node)}")


def translate(ctx=None) -> Path:
    src = (REPO / "src/_griffe/diff.py").read_text()
    tree = ast.parse(src)
    sets = {}
    for n in tree.body:
        if isinstance(n, ast.Assign) and len(n.targets) == 1 and isinstance(n.targets[0], ast.Name) and n.targets[0].id in SETS:
            v = n.value
            if not (isinstance(v, ast.Call) and isinstance(v.func, ast.Name) and v.func.id == "frozenset" and len(v.args) == 1
                    and isinstance(v.args[0], (ast.Tuple, ast.List, ast.Set))):
                raise TranslatorError(f"unexpected shape for {n.targets[0].id}: {ast.unparse(v)}")
            sets[n.targets[0].id] = [_kind(e) for e in v.args[0].elts]
    missing = [s for s in SETS if s not in sets]
    if missing:
        raise TranslatorError(f"kind sets not found in diff.py: {missing}")
    fn = [n for n in tree.body if isinstance(n, ast.FunctionDef) and n.name == "_function_incompatibilities"]
    if len(fn) != 1:
        raise TranslatorError("_function_incompatibilities not found")
    swallowed = incompatible = None
    collision = []
    for n in ast.walk(fn[0]):
        if isinstance(n, ast.Assign) and len(n.targets) == 1 and isinstance(n.targets[0], ast.Name):
            if n.targets[0].id == "swallowed":
                swallowed = _bexp(n.value)
            if n.targets[0].id == "incompatible_kind":
                v = n.value
                if not (isinstance(v, ast.Call) and isinstance(v.func, ast.Name) and v.func.id == "any" and len(v.args) == 1
                        and isinstance(v.args[0], (ast.Tuple, ast.List))):
                    raise TranslatorError(f"unexpected shape for incompatible_kind: {ast.unparse(v)[:200]}")
                base = [e for e in v.args[0].elts if not _uses_old_side(e)]
                extra = [e for e in v.args[0].elts if _uses_old_side(e)]
                if not base:
                    raise TranslatorError("incompatible_kind has no member over (old kind, new kind, new variadics)")
                incompatible = "(" + "\n   || ".join(_bexp(e) for e in base) + ")"
                collision = [_bexp(e, old_side=True) for e in extra]
    if swallowed is None or incompatible is None:
        raise TranslatorError("swallowed / incompatible_kind assignments not found")
    out = ["(* GENERATED by harness/translate/c10_tables.py from /repo/src/_griffe/diff.py -- do not edit *)",
           "From Coq Require Import List Bool.", "From Verif Require Import Model.C10_kinds.", "Import ListNotations.", ""]
    for s in SETS:
        out.append(f"Definition {s[1:]} : list kind := [{'; '.join(sets[s])}].")
    out += ["", "(* `swallowed` of a removed old parameter of kind ok *)",
            "Definition swallowed (ok : kind) (hva hvk : bool) : bool :=", "  " + swallowed + ".", "",
            "(* `incompatible_kind` for old kind ok, new kind nk (evaluated only when ok <> nk) *)",
            "Definition incompatible_kind (ok nk : kind) (hva hvk : bool) : bool :=", "  " + incompatible + ".", ""]
    p = VERIF / "coq/Gen/C10_tables.v"
    text = "\n".join(out)
    if not p.exists() or p.read_text() != text:
        p.write_text(text)
    # the generated files always describe the tree under test when it can be translated at all; the shape check of the
    # hand-modelled part comes last so that a failure there does not leave tables of an earlier tree behind
    _write_rules(collision, _fmt_lossy())
    _write_guards(fn[0])
    _check_skeleton(fn[0], bool(collision))
    return p


# ---- path conditions: under which tests each parameter breakage is yielded (-> coq/Gen/C10_guards.v) ----
BREAKS = {"ParameterRemovedBreakage": "removed", "ParameterChangedRequiredBreakage": "required", "ParameterMovedBreakage": "moved",
          "ParameterChangedKindBreakage": "kind", "ParameterChangedDefaultBreakage": "default", "ParameterAddedRequiredBreakage": "added"}
GUARD_ARGS = "(ok nk : kind) (oreq nreq present sw inc same_index differ : bool)"


def _gexp(node, asg) -> str:
    """A test of _function_incompatibilities over the atoms: kinds, required-ness of both parameters, `present` (the loop
    parameter's name occurs on the other side), the values of `swallowed` / `incompatible_kind`, same index, defaults differ."""
    src = ast.unparse(node)
    if isinstance(node, ast.BoolOp):
        op = " && " if isinstance(node.op, ast.And) else " || "
        return "(" + op.join(_gexp(v, asg) for v in node.values) + ")"
    if isinstance(node, ast.UnaryOp) and isinstance(node.op, ast.Not):
        return f"(negb {_gexp(node.operand, asg)})"
    if isinstance(node, ast.Name):
        if node.id == "swallowed":
            return "sw"
        if node.id == "incompatible_kind":
            return "inc"
        if node.id in ("non_required", "non_variadic") and len(asg.get(node.id, [])) == 1:
            return _gexp(ast.parse(asg[node.id][0], mode="eval").body, asg)
    atoms = {"old_param.required": "oreq", "new_param.required": "nreq",
             "old_param.name not in new_function.parameters": "(negb present)", "old_param.name in new_function.parameters": "present",
             "new_param.name not in old_function.parameters": "(negb present)", "new_param.name in old_function.parameters": "present",
             "new_index != old_index": "(negb same_index)", "new_index == old_index": "same_index",
             "old_param.default != new_param.default": "differ", "old_param.default == new_param.default": "(negb differ)",
             "old_param.kind is not new_param.kind": "(negb (kind_eqb ok nk))", "old_param.kind is new_param.kind": "(kind_eqb ok nk)",
             "old_param.kind != new_param.kind": "(negb (kind_eqb ok nk))", "old_param.kind == new_param.kind": "(kind_eqb ok nk)"}
    if src in atoms:
        return atoms[src]
    if isinstance(node, ast.Compare):
        return _bexp(node)       # kind tests against ParameterKind members / kind sets
    raise TranslatorError(f"test outside the whitelist in _function_incompatibilities: {src}")


def _paths(fn):
    asg = _assignments(fn)
    found = {k: [] for k in BREAKS.values()}
    in_handler = {k: [] for k in BREAKS.values()}
    bound: dict = {}

    def cls_of(value):
        if isinstance(value, ast.Call) and isinstance(value.func, ast.Name) and value.func.id in BREAKS:
            return BREAKS[value.func.id]
        if isinstance(value, ast.Name) and value.id in bound:
            return bound[value.id]
        return None

    def walk(stmts, stack, handler):
        stack = list(stack)
        for st in stmts:
            if isinstance(st, ast.Assign) and len(st.targets) == 1 and isinstance(st.targets[0], ast.Name) and cls_of(st.value):
                bound[st.targets[0].id] = cls_of(st.value)
            if isinstance(st, ast.If):
                walk(st.body, stack + [(st.test, True)], handler)
                walk(st.orelse, stack + [(st.test, False)], handler)
                if st.body and isinstance(st.body[-1], (ast.Continue, ast.Return)):
                    stack.append((st.test, False))
            elif isinstance(st, (ast.For, ast.With)):
                walk(st.body, stack, handler)
            elif isinstance(st, ast.Try):
                walk(st.body, stack, handler)
                for h in st.handlers:
                    walk(h.body, stack, True)
                walk(st.orelse, stack, handler)
                walk(st.finalbody, stack, handler)
            elif isinstance(st, ast.Expr) and isinstance(st.value, ast.Yield) and st.value.value is not None:
                c = cls_of(st.value.value)
                if c:
                    (in_handler if handler else found)[c].append(stack)
            elif isinstance(st, ast.While):
                raise TranslatorError("while loop in _function_incompatibilities")

    walk(fn.body, [], False)

    def conj(stack):
        parts = [(_gexp(t, asg) if pos else f"(negb {_gexp(t, asg)})") for t, pos in stack]
        return "(" + " && ".join(parts) + ")" if parts else "true"

    rules = {k: ("(" + "\n   || ".join(conj(st) for st in v) + ")" if v else "false") for k, v in found.items()}
    # a failing default comparison reports too: the handler yields the same breakage under the same enclosing tests
    want = [conj(st[:-1]) for st in found["default"] if st and ast.unparse(st[-1][0]).startswith("old_param.default")]
    if sorted(conj(st) for st in in_handler["default"]) != sorted(want) or any(v for k, v in in_handler.items() if k != "default"):
        raise TranslatorError("exception handlers of _function_incompatibilities no longer report exactly the default breakage of their try block")
    return rules


def _write_guards(fn) -> Path:
    rules = _paths(fn)
    out = ["(* GENERATED by harness/translate/c10_tables.py from /repo/src/_griffe/diff.py:_function_incompatibilities -- do not edit *)",
           "(* path conditions: the tests under which each parameter breakage is yielded.  ok/nk kinds and oreq/nreq required-ness of",
           "   the old/new parameter, present = the loop parameter's name occurs on the other side, sw/inc = values of `swallowed` /",
           "   `incompatible_kind`, same_index = new_index == old_index, differ = old_param.default != new_param.default *)",
           "From Coq Require Import List Bool.", "From Verif Require Import Model.C10_kinds Gen.C10_tables.", "Import ListNotations.", ""]
    for k in BREAKS.values():
        out += [f"Definition rule_{k} {GUARD_ARGS} : bool :=", "  " + rules[k] + ".", ""]
    p = VERIF / "coq/Gen/C10_guards.v"
    text = "\n".join(out)
    if not p.exists() or p.read_text() != text:
        p.write_text(text)
    return p


# ---- shapes the hand-written part of the model relies on (compared as normalised source text) ----
HELPERS_NEW = {
    "new_param_names": "[param.name for param in new_function.parameters]",
    "param_kinds": "{param.kind for param in new_function.parameters}",
    "has_variadic_args": "ParameterKind.var_positional in param_kinds",
    "has_variadic_kwargs": "ParameterKind.var_keyword in param_kinds",
    "new_param": "new_function.parameters[old_param.name]",
    "non_required": "not old_param.required and (not new_param.required)",
    "non_variadic": "old_param.kind not in _VARIADIC and new_param.kind not in _VARIADIC",
}
HELPERS_OLD = {
    "old_param_kinds": ["{param.kind for param in old_function.parameters}"],
    "old_has_variadic_args": ["ParameterKind.var_positional in old_param_kinds"],
    "old_has_variadic_kwargs": ["ParameterKind.var_keyword in old_param_kinds"],
    "old_positional_count": ["sum((param.kind in _POSITIONAL for param in old_function.parameters))",
                             "sum((1 for param in old_function.parameters if param.kind in _POSITIONAL))",
                             "len([param for param in old_function.parameters if param.kind in _POSITIONAL])"],
    "new_index": ["new_param_names.index(old_param.name)"],
}
GUARDS = [  # `if` tests that must occur in the function (the three non-kind rules, removal, kind dispatch, additions)
    "old_param.name not in new_function.parameters",
    "not swallowed",
    "new_param.required and (not old_param.required)",
    "old_param.kind in _POSITIONAL and new_param.kind in _POSITIONAL",
    "new_index != old_index",
    "old_param.kind is not new_param.kind",
    "incompatible_kind",
    "non_required and non_variadic",
    "old_param.default != new_param.default",
    "new_param.name not in old_function.parameters and new_param.required",
]


def _assignments(fn) -> dict:
    out: dict = {}
    for n in ast.walk(fn):
        if isinstance(n, ast.Assign) and len(n.targets) == 1 and isinstance(n.targets[0], ast.Name):
            out.setdefault(n.targets[0].id, []).append(ast.unparse(n.value))
    return out


def _check_skeleton(fn, has_collision: bool) -> None:
    asg = _assignments(fn)
    for name, want in HELPERS_NEW.items():
        if asg.get(name) != [want]:
            raise TranslatorError(f"helper `{name}` of _function_incompatibilities is {asg.get(name)}, expected [{want!r}]")
    for name, wants in HELPERS_OLD.items():
        got = asg.get(name)
        if got is None:
            continue
        if len(got) != 1 or got[0] not in wants:
            raise TranslatorError(f"old-side helper `{name}` is {got}, expected one of {wants}")
    if has_collision:
        for name in ("old_has_variadic_args", "old_has_variadic_kwargs", "old_positional_count", "old_param_kinds"):
            if name not in asg:
                raise TranslatorError(f"old-side helper `{name}` used by incompatible_kind is not assigned")
    tests = [ast.unparse(n.test) for n in ast.walk(fn) if isinstance(n, ast.If)]
    # the return-type rule follows the parameter rules; it is outside this property
    tests = [t for t in tests if "_returns_are_compatible" not in t]
    # (the `if` tests themselves are translated into Gen/C10_guards.v and tied to the model by proof; GUARDS documents them)
    loops = [(ast.unparse(n.target), ast.unparse(n.iter)) for n in ast.walk(fn) if isinstance(n, ast.For)]
    if loops != [("(old_index, old_param)", "enumerate(old_function.parameters)"), ("new_param", "new_function.parameters")]:
        raise TranslatorError(f"loops of _function_incompatibilities changed: {loops}")
    # the default comparison sits in a try whose handler reports the breakage too
    tries = [n for n in ast.walk(fn) if isinstance(n, ast.Try)]
    if len(tries) != 1 or len(tries[0].handlers) != 1 or not any(isinstance(x, (ast.Yield, ast.YieldFrom)) for h in tries[0].handlers for x in ast.walk(h)):
        raise TranslatorError("the default comparison is no longer `try: if old != new: yield ... except: yield ...`")


def _fmt_lossy() -> bool:
    tree = ast.parse((REPO / "src/_griffe/expressions.py").read_text())
    cls = [n for n in tree.body if isinstance(n, ast.ClassDef) and n.name == "ExprFormatted"]
    if len(cls) != 1:
        raise TranslatorError("class ExprFormatted not found in expressions.py")
    dec = [ast.unparse(d) for d in cls[0].decorator_list]
    if not any(d.startswith("dataclass(") and "eq=True" in d for d in dec):
        raise TranslatorError(f"ExprFormatted is no longer a dataclass with eq=True: {dec}")
    fields = [n.target.id for n in cls[0].body if isinstance(n, ast.AnnAssign) and isinstance(n.target, ast.Name)]
    if fields == ["value"]:
        return True
    if fields and fields[0] == "value" and any("conv" in f for f in fields) and any("spec" in f for f in fields):
        return False
    raise TranslatorError(f"fields of ExprFormatted not understood: {fields}")


def rules_info() -> tuple:
    """(has an old-side member in incompatible_kind, ExprFormatted drops conversion/spec) read from the tree under test."""
    tree = ast.parse((REPO / "src/_griffe/diff.py").read_text())
    fn = [n for n in tree.body if isinstance(n, ast.FunctionDef) and n.name == "_function_incompatibilities"][0]
    coll = any(isinstance(n, ast.Name) and n.id in OLD_SIDE for n in ast.walk(fn))
    return coll, _fmt_lossy()


def _write_rules(collision: list, fmt_lossy: bool) -> Path:
    body = "(" + "\n   || ".join(collision) + ")" if collision else "false"
    out = ["(* GENERATED by harness/translate/c10_tables.py from /repo/src/_griffe/diff.py and expressions.py -- do not edit *)",
           "From Coq Require Import List Bool.", "From Verif Require Import Model.C10_kinds Gen.C10_tables.", "Import ListNotations.", "",
           "(* members of `incompatible_kind` that look at the OLD signature: ohva/ohvk = old has a var-positional / var-keyword,",
           "   reach = the parameter's new position is below the number of old positional parameters *)",
           f"Definition COLLISION_RULE : bool := {'true' if collision else 'false'}.",
           "Definition collision_kind (ok nk : kind) (hva hvk ohva ohvk reach : bool) : bool :=", "  " + body + ".", "",
           "(* ExprFormatted keeps only the value of an f-string replacement field (conversion and format spec are dropped) *)",
           f"Definition FMT_LOSSY : bool := {'true' if fmt_lossy else 'false'}.", ""]
    p = VERIF / "coq/Gen/C10_rules.v"
    text = "\n".join(out)
    if not p.exists() or p.read_text() != text:
        p.write_text(text)
    return p


if __name__ == "__main__":
    print(translate().read_text())
