"""(T) translator for C18: regenerates coq/Gen/C18_flags.v from <tree>/src/_griffe/extensions/dataclasses.py.

Fail closed: a source shape outside the ones understood raises TranslatorError.  Translated:
  _set_dataclass_init / _dataclass_fields / _dataclass_parameters / _reorder_parameters
        which of the three shapes of the merging code the tree has  -> current_mode
          FlatFilterFirst  `for parent in reversed(mro): if <decorated>: parameters.extend(_dataclass_parameters(parent))`,
                           `continue` on ClassVar / init=False inside _dataclass_parameters
          FlatFilterLast   same loop; _dataclass_parameters yields (Parameter, in_init) pairs, `if not in_init: continue`
                           in _reorder_parameters after the de-duplication
          Accumulated      _dataclass_fields(class_, seen): `for parent in reversed(mro): fields.update(_dataclass_fields(parent, seen))`,
                           then the own entries; an undecorated class takes the dict of the first decorated parent
  the direction of the walk over the MRO                                  -> mro_walk_reversed
  `kind = (keyword_only if <cond> else positional_or_keyword)`            -> kind_is_kw_only (the boolean expression, compiled)
  the default rule (`default_factory` first, then `default`, then None for a field() call, else the value) -> default_present
  _reorder_parameters: which list each kind goes to and `return a + b + c` -> reorder_groups
  the four canonical paths the extension matches on                        -> recognised_paths
  loader.GriffeLoader._post_load: the order of expand_exports / expand_wildcards / the on_package_loaded event -> post_load_steps
  loader.GriffeLoader.__init__: `extensions or load_extensions()`; base.load_extensions: the built-in dataclasses extension is added
        unless one is already there                                        -> builtin_extension_always_loaded
  DataclassesExtension.on_package_loaded: `_apply_recursively(pkg, set())` (a fresh set of seen paths per event, no other statement)
                                                                           -> seen_set_fresh_per_event
  _apply_recursively: label first, then `if "__init__" not in members: _set_dataclass_init; _del_members_annotated_as_initvar`
                                                                           -> class_steps
  _dataclass_parameters: `if [not member.is_alias and] member.is_attribute`                        -> skips_alias_members
  _set_dataclass_label / _dataclass_fields: `try: mro = class_.mro() except ValueError: return | mro = ()` (checked, fail closed)
  expressions.Expr.is_classvar: by last name of the canonical path, or by the whole (one-hop) path -> classvar_by_last_name
"""
from __future__ import annotations

import ast

from harness.common.framework import REPO, VERIF, TranslatorError

SRC = "src/_griffe/extensions/dataclasses.py"


def _fn(tree, name):
    for n in tree.body:
        if isinstance(n, ast.FunctionDef) and n.name == name:
            return n
    return None


def _src(node):
    return ast.unparse(node)


def _walk_for_loops(fn):
    return [n for n in ast.walk(fn) if isinstance(n, ast.For)]


def _is_reversed_mro(it):
    return isinstance(it, ast.Call) and isinstance(it.func, ast.Name) and it.func.id == "reversed" and len(it.args) == 1 and _src(it.args[0]) == "mro"


def _compile_bool(e, atoms):
    """python boolean expression over the whitelisted atoms -> Coq term"""
    s = _src(e)
    if s in atoms:
        return atoms[s]
    if isinstance(e, ast.BoolOp):
        op = " || " if isinstance(e.op, ast.Or) else " && "
        return "(" + op.join(_compile_bool(v, atoms) for v in e.values) + ")"
    if isinstance(e, ast.UnaryOp) and isinstance(e.op, ast.Not):
        return "(negb " + _compile_bool(e.operand, atoms) + ")"
    raise TranslatorError(f"C18: boolean expression not understood: {s}")


def translate(ctx=None):
    path = f"{REPO}/{SRC}"
    try:
        tree = ast.parse(open(path).read())
    except (OSError, SyntaxError) as e:
        raise TranslatorError(f"C18: cannot parse {path}: {e}") from e
    params = _fn(tree, "_dataclass_parameters")
    reorder = _fn(tree, "_reorder_parameters")
    setinit = _fn(tree, "_set_dataclass_init")
    fields = _fn(tree, "_dataclass_fields")
    if not (params and reorder and setinit):
        raise TranslatorError("C18: _dataclass_parameters / _reorder_parameters / _set_dataclass_init not found")
    if not any(isinstance(d, ast.Name) and d.id == "cache" for d in params.decorator_list):
        raise TranslatorError("C18: _dataclass_parameters is no longer memoised with functools.cache (the state machine of Model/C18_machine.v assumes it)")

    # ---- filter shape
    psrc = _src(params)
    conts = [n for n in ast.walk(params) if isinstance(n, ast.If) and any(isinstance(b, ast.Continue) for b in n.body)]
    cont_tests = sorted(_src(n.test) for n in conts)
    init_false_test = "field_args.get('init') == 'False'"
    classvar_test = "'class-attribute' in member.labels and 'instance-attribute' not in member.labels"
    base_skips = ["isinstance(member.annotation, Expr) and member.annotation.canonical_path == 'dataclasses.KW_ONLY'", "member.annotation is None"]
    reorder_filters = [n for n in ast.walk(reorder) if isinstance(n, ast.If) and _src(n.test) == "not in_init" and any(isinstance(b, ast.Continue) for b in n.body)]
    if sorted(cont_tests) == sorted(base_skips + [init_false_test, f"'property' in member.labels or ({classvar_test})"]) and not reorder_filters:
        filter_last = False
    elif (sorted(cont_tests) == sorted(base_skips + ["'property' in member.labels"]) and len(reorder_filters) == 1
          and f"in_init = not ({classvar_test})" in psrc
          and any(isinstance(n, ast.If) and _src(n.test) == init_false_test and _src(n.body[0]) == "in_init = False" for n in ast.walk(params))):
        # the filter must come after the de-duplication dict
        body_src = [_src(b) for b in reorder.body]
        if not (body_src and body_src[0].startswith("params_dict = {param.name: (param, in_init)")):
            raise TranslatorError("C18: _reorder_parameters filters in_init but does not de-duplicate by name first")
        filter_last = True
    else:
        raise TranslatorError(f"C18: skip conditions of _dataclass_parameters not understood: {cont_tests}")

    # ---- merge shape and walk direction
    decorated_parent = "_dataclass_decorator(parent.decorators)"
    if fields is None:
        loops = _walk_for_loops(setinit)
        if len(loops) != 1 or _src(loops[0].target) != "parent":
            raise TranslatorError("C18: _set_dataclass_init: expected one loop over the parents")
        lp = loops[0]
        rev = _is_reversed_mro(lp.iter)
        if not rev and _src(lp.iter) != "mro":
            raise TranslatorError(f"C18: _set_dataclass_init iterates over {_src(lp.iter)}")
        if not (len(lp.body) == 1 and isinstance(lp.body[0], ast.If) and _src(lp.body[0].test) == decorated_parent
                and [_src(b) for b in lp.body[0].body] == ["parameters.extend(_dataclass_parameters(parent))"]):
            raise TranslatorError("C18: _set_dataclass_init: loop body not understood: " + _src(lp))
        ssrc = _src(setinit)
        if "parameters.extend(_dataclass_parameters(class_))" not in ssrc or "_reorder_parameters(parameters)" not in ssrc:
            raise TranslatorError("C18: _set_dataclass_init: own parameters / _reorder_parameters(parameters) not found")
        own = [n for n in ast.walk(setinit) if isinstance(n, ast.Expr) and _src(n) == "parameters.extend(_dataclass_parameters(class_))"]
        if len(own) != 1 or own[0].lineno < lp.lineno:
            raise TranslatorError("C18: _set_dataclass_init: own parameters are collected before the parents'")
        mode = "FlatFilterLast" if filter_last else "FlatFilterFirst"
    else:
        if not filter_last:
            raise TranslatorError("C18: accumulated field dictionaries with per-class filtering: shape not modelled")
        ifs = [n for n in fields.body if isinstance(n, ast.If) and _src(n.test) == "_dataclass_decorator(class_.decorators)"]
        if len(ifs) != 1:
            raise TranslatorError("C18: _dataclass_fields: decorated/undecorated branch not found")
        dec, undec = ifs[0].body, ifs[0].orelse
        if not (len(dec) == 2 and isinstance(dec[0], ast.For) and _src(dec[0].target) == "parent"
                and [_src(b) for b in dec[0].body] == ["fields.update(_dataclass_fields(parent, seen))"]
                and _src(dec[1]) == "fields.update({param.name: (param, in_init) for param, in_init in _dataclass_parameters(class_)})"):
            raise TranslatorError("C18: _dataclass_fields: decorated branch not understood")
        rev = _is_reversed_mro(dec[0].iter)
        if not rev and _src(dec[0].iter) != "mro":
            raise TranslatorError(f"C18: _dataclass_fields iterates over {_src(dec[0].iter)}")
        if not (len(undec) == 1 and isinstance(undec[0], ast.For) and _src(undec[0].iter) == "mro" and len(undec[0].body) == 1
                and isinstance(undec[0].body[0], ast.If) and _src(undec[0].body[0].test) == decorated_parent
                and [_src(b) for b in undec[0].body[0].body] == ["fields = _dataclass_fields(parent, seen)", "break"]):
            raise TranslatorError("C18: _dataclass_fields: undecorated branch not understood")
        ssrc = _src(setinit)
        if "_dataclass_fields(class_, {})" not in ssrc or "_reorder_parameters(list(fields.values()))" not in ssrc:
            raise TranslatorError("C18: _set_dataclass_init does not use _dataclass_fields / _reorder_parameters(list(fields.values()))")
        mode = "Accumulated"

    # ---- members imported in the class body (aliases)
    member_loops = [n for n in ast.walk(params) if isinstance(n, ast.For) and _src(n.iter) == "class_.members.values()"]
    if len(member_loops) != 1 or not member_loops[0].body or not isinstance(member_loops[0].body[0], ast.If):
        raise TranslatorError("C18: _dataclass_parameters: loop over class_.members.values() not found")
    mtest = _src(member_loops[0].body[0].test)
    if mtest == "member.is_attribute":
        skips_alias = False
    elif mtest == "not member.is_alias and member.is_attribute":
        skips_alias = True
    else:
        raise TranslatorError("C18: _dataclass_parameters: member test not understood: " + mtest)

    # ---- the fault path: Class.mro() raising ValueError (cycle / inconsistent bases) means "empty MRO", and no label
    def _mro_try(fn, handler_src):
        for n in ast.walk(fn):
            if isinstance(n, ast.Try) and [_src(b) for b in n.body] == ["mro = class_.mro()"] and len(n.handlers) == 1 \
                    and _src(n.handlers[0].type) == "ValueError" and [_src(b) for b in n.handlers[0].body] == [handler_src]:
                return True
        return False
    label_fn = _fn(tree, "_set_dataclass_label")
    fields_or_init = fields if fields is not None else setinit
    if label_fn is None or not _mro_try(label_fn, "return") or not _mro_try(fields_or_init, "mro = ()"):
        raise TranslatorError("C18: a ValueError of Class.mro() is no longer turned into `no label` (_set_dataclass_label) and `empty MRO` "
                              "(_dataclass_fields / _set_dataclass_init): the fault path is modelled as c_mro = []")

    # ---- kind rule
    kinds = [n for n in ast.walk(params) if isinstance(n, ast.Assign) and _src(n.targets[0]) == "kind" and isinstance(n.value, ast.IfExp)]
    if len(kinds) != 1 or _src(kinds[0].value.body) != "ParameterKind.keyword_only" or _src(kinds[0].value.orelse) != "ParameterKind.positional_or_keyword":
        raise TranslatorError("C18: `kind = keyword_only if ... else positional_or_keyword` not found")
    if "field_kw_only = field_args.get('kw_only')" not in psrc or "kw_only = dec_args.get('kw_only') == 'True'" not in psrc:
        raise TranslatorError("C18: field_kw_only / kw_only definitions not found")
    kind_rule = _compile_bool(kinds[0].value.test, {"field_kw_only == 'True'": "ft", "kw_only": "kw", "field_kw_only != 'False'": "(negb ff)"})

    # ---- default rule
    dflt = [n for n in ast.walk(params) if isinstance(n, ast.If) and _src(n.test) == "'default_factory' in field_args"]
    if not (len(dflt) == 1 and len(dflt[0].orelse) == 1 and _src(dflt[0].orelse[0]) == "default = field_args.get('default', None if is_field else member.value)"
            and _src(dflt[0].body[0]).startswith("default = ExprCall(")):
        raise TranslatorError("C18: default rule of _dataclass_parameters not understood")

    # ---- reorder
    ret = [n for n in reorder.body if isinstance(n, ast.Return)]
    if len(ret) != 1:
        raise TranslatorError("C18: _reorder_parameters: return not found")
    names = []
    e = ret[0].value
    while isinstance(e, ast.BinOp) and isinstance(e.op, ast.Add):
        names.insert(0, _src(e.right))
        e = e.left
    names.insert(0, _src(e))
    chain = [n for n in ast.walk(reorder) if isinstance(n, ast.If) and _src(n.test) == "param.kind is ParameterKind.positional_only"]
    if len(chain) != 1:
        raise TranslatorError("C18: _reorder_parameters: kind dispatch not found")
    c = chain[0]
    target = {}
    try:
        target["PosOnly"] = _src(c.body[0]).split(".append")[0]
        c2 = c.orelse[0]
        if _src(c2.test) != "param.kind is ParameterKind.keyword_only":
            raise TranslatorError("C18: _reorder_parameters: second test is " + _src(c2.test))
        target["KwOnly"] = _src(c2.body[0]).split(".append")[0]
        target["PosKw"] = _src(c2.orelse[0]).split(".append")[0]
    except (IndexError, AttributeError) as ex:
        raise TranslatorError("C18: _reorder_parameters: kind dispatch not understood") from ex
    inv = {v: k for k, v in target.items()}
    if sorted(inv) != sorted(names) or len(names) != 3:
        raise TranslatorError(f"C18: _reorder_parameters returns {names}, lists are {target}")
    groups = ["G" + inv[n] for n in names]
    loops = [n for n in reorder.body if isinstance(n, ast.For)]
    if len(loops) != 1 or _src(loops[0].iter) != "params_dict.values()":
        raise TranslatorError("C18: _reorder_parameters: does not iterate over params_dict.values() (insertion order of the de-duplication dict)")

    # ---- recognised paths
    whole = open(path).read()
    paths = [p for p in ("dataclasses.dataclass", "dataclasses.field", "dataclasses.KW_ONLY", "dataclasses.InitVar") if f'"{p}"' in whole]

    # ---- loader._post_load, loader.__init__, load_extensions
    try:
        ltree = ast.parse(open(f"{REPO}/src/_griffe/loader.py").read())
        btree = ast.parse(open(f"{REPO}/src/_griffe/extensions/base.py").read())
    except (OSError, SyntaxError) as e:
        raise TranslatorError(f"C18: cannot parse loader.py / extensions/base.py: {e}") from e
    loader_cls = next((n for n in ltree.body if isinstance(n, ast.ClassDef) and n.name == "GriffeLoader"), None)
    post = loader_cls and next((n for n in loader_cls.body if isinstance(n, ast.FunctionDef) and n.name == "_post_load"), None)
    if post is None:
        raise TranslatorError("C18: GriffeLoader._post_load not found")
    steps = []
    for n in ast.walk(post):
        if isinstance(n, ast.Call):
            c = _src(n.func)
            if c == "self.expand_exports":
                steps.append((n.lineno, "PExports"))
            elif c == "self.expand_wildcards":
                steps.append((n.lineno, "PWildcards"))
            elif c == "self.extensions.call" and n.args and _src(n.args[0]) == "'on_package_loaded'":
                steps.append((n.lineno, "PEvent"))
    steps = [x for _, x in sorted(steps)]
    if sorted(steps) != ["PEvent", "PExports", "PWildcards"]:
        raise TranslatorError(f"C18: _post_load: expected exactly one call each of expand_exports, expand_wildcards, on_package_loaded: {steps}")
    init = next((n for n in loader_cls.body if isinstance(n, ast.FunctionDef) and n.name == "__init__"), None)
    default_ext = init is not None and "extensions or load_extensions()" in _src(init)
    le = _fn(btree, "load_extensions")
    builtin = False
    if le is not None:
        for n in le.body:
            if isinstance(n, ast.For) and _src(n.iter) == "extensions._extensions" and n.orelse:
                if ("type(ext) is DataclassesExtension" in _src(n) and any(isinstance(b, ast.Break) for b in ast.walk(n))
                        and _src(n.orelse[0]).startswith("extensions.add(*_load_extension('dataclasses'))")):
                    builtin = True
    if not (default_ext and builtin):
        raise TranslatorError("C18: the built-in dataclasses extension is not always loaded (GriffeLoader.__init__ / load_extensions)")
    ext_cls = next((n for n in tree.body if isinstance(n, ast.ClassDef) and n.name == "DataclassesExtension"), None)
    hook = ext_cls and next((n for n in ext_cls.body if isinstance(n, ast.FunctionDef) and n.name == "on_package_loaded"), None)
    stmts = [b for b in (hook.body if hook else []) if not (isinstance(b, ast.Expr) and isinstance(b.value, ast.Constant))]
    others = [n.name for n in (ext_cls.body if ext_cls else []) if isinstance(n, ast.FunctionDef) and n.name != "on_package_loaded"]
    if not (len(stmts) == 1 and _src(stmts[0]) == "_apply_recursively(pkg, set())" and not others):
        raise TranslatorError("C18: DataclassesExtension.on_package_loaded is not `_apply_recursively(pkg, set())` alone (extension state is modelled as: "
                              "memo of _dataclass_parameters + deleted InitVar members + a fresh set of seen paths per event): " + "; ".join(_src(b) for b in stmts) + " " + str(others))
    rec = _fn(tree, "_apply_recursively")
    cls_if = rec and next((n for n in rec.body if isinstance(n, ast.If) and _src(n.test) == "isinstance(mod_cls, Class)"), None)
    if cls_if is None:
        raise TranslatorError("C18: _apply_recursively: class branch not found")
    csteps = []
    for b in cls_if.body:
        if isinstance(b, ast.Expr) and _src(b) == "_set_dataclass_label(mod_cls)":
            csteps.append("CLabel")
        elif isinstance(b, ast.If) and _src(b.test) == "'__init__' not in mod_cls.members":
            inner = [_src(x) for x in b.body]
            if inner != ["_set_dataclass_init(mod_cls)", "_del_members_annotated_as_initvar(mod_cls)"]:
                raise TranslatorError(f"C18: _apply_recursively: guarded steps are {inner}")
            csteps += ["CGuard", "CInit", "CPrune"]
        elif isinstance(b, ast.For):
            csteps.append("CNested")
        else:
            raise TranslatorError("C18: _apply_recursively: statement not understood: " + _src(b)[:80])
    first = [_src(b) for b in rec.body[:2]]
    if first != ["if mod_cls.canonical_path in processed:\n    return", "processed.add(mod_cls.canonical_path)"]:
        raise TranslatorError(f"C18: _apply_recursively does not start with the seen-path test on canonical_path: {first}")

    # ---- Expr.is_classvar (what the visitor's class-attribute label rests on)
    try:
        etree = ast.parse(open(f"{REPO}/src/_griffe/expressions.py").read())
    except (OSError, SyntaxError) as e:
        raise TranslatorError(f"C18: cannot parse expressions.py: {e}") from e
    expr_cls = next((n for n in etree.body if isinstance(n, ast.ClassDef) and n.name == "Expr"), None)
    icv = expr_cls and next((n for n in expr_cls.body if isinstance(n, ast.FunctionDef) and n.name == "is_classvar"), None)
    ret_cv = icv and [n for n in icv.body if isinstance(n, ast.Return)]
    if not ret_cv:
        raise TranslatorError("C18: Expr.is_classvar not found")
    cv_src = _src(ret_cv[0].value)
    if cv_src == "isinstance(self, ExprSubscript) and self.canonical_name == 'ClassVar'":
        cv_last = True
    elif cv_src.startswith("isinstance(self, ExprSubscript) and self.canonical_path in ") or cv_src.startswith("isinstance(self, ExprSubscript) and self.canonical_path == "):
        cv_last = False
    else:
        raise TranslatorError("C18: Expr.is_classvar not understood: " + cv_src)

    out = [
        "(* GENERATED by harness/translate/c18_flags.py from src/_griffe/extensions/dataclasses.py — do not edit *)",
        "From Coq Require Import List Bool String.",
        "From Verif Require Import Model.C18_modes.",
        "Import ListNotations.",
        "Open Scope string_scope.", "",
        "(* which shape the merging code has (_set_dataclass_init / _dataclass_fields / where ClassVar and init=False entries are dropped) *)",
        f"Definition current_mode : mode := {mode}.", "",
        "(* the parents are visited from the end of the MRO *)",
        f"Definition mro_walk_reversed : bool := {'true' if rev else 'false'}.", "",
        "(* kind = keyword_only iff ...   ft: field(kw_only=True), kw: decorator kw_only=True or after the KW_ONLY sentinel, ff: field(kw_only=False) *)",
        f"Definition kind_is_kw_only (ft kw ff : bool) : bool := {kind_rule}.", "",
        "(* does the parameter get a default: default_factory in args, else args.get('default', None if it is a field() call else the value) *)",
        "Definition default_present (is_field has_factory has_default has_value : bool) : bool :=",
        "  if has_factory then true else if has_default then true else if is_field then false else has_value.", "",
        "(* _reorder_parameters: the groups in the order they are concatenated *)",
        f"Definition reorder_groups : list pgroup := [{'; '.join(groups)}].", "",
        "(* canonical paths matched by the extension *)",
        "Definition recognised_paths : list string := [" + "; ".join('"' + p + '"' for p in paths) + "].", "",
        "(* GriffeLoader._post_load: what happens in which order *)",
        f"Definition post_load_steps : list pl_step := [{'; '.join(steps)}].", "",
        "(* GriffeLoader() without extensions calls load_extensions(), which adds the built-in dataclasses extension unless one is there *)",
        "Definition builtin_extension_always_loaded : bool := true.", "",
        "(* DataclassesExtension.on_package_loaded is `_apply_recursively(pkg, set())` and nothing else *)",
        "Definition seen_set_fresh_per_event : bool := true.", "",
        "(* Expr.is_classvar compares the LAST component of the canonical path with ClassVar (true) or the whole one-hop path (false) *)",
        f"Definition classvar_by_last_name : bool := {'true' if cv_last else 'false'}.", "",
        "(* _dataclass_parameters skips members that are aliases (names imported in the class body) instead of asking for their kind *)",
        f"Definition skips_alias_members : bool := {'true' if skips_alias else 'false'}.", "",
        "(* the class branch of _apply_recursively, in order *)",
        f"Definition class_steps : list cl_step := [{'; '.join(csteps)}].", "",
    ]
    p = VERIF / "coq/Gen/C18_flags.v"
    text = "\n".join(out)
    if not p.exists() or p.read_text() != text:
        p.write_text(text)
    return p


if __name__ == "__main__":
    print(translate().read_text())
